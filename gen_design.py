#!/usr/bin/env python3
"""Assemble DESIGN.md from design_parts/ and the generated tables (evidence, git log of /repo, known_findings.json, seeded/)."""
import json, os, subprocess, glob
R = os.path.dirname(os.path.abspath(__file__))
def rd(n): return open(os.path.join(R, 'design_parts', n)).read()
# quick-tier table from the evidence files
rows = ["| property | tier of the committed evidence | executions / inputs | choice points | distinct non-trivial outcomes | exhaustive within its bounds | wall s |", "|---|---|---|---|---|---|---|"]
for f in sorted(glob.glob(os.path.join(R, 'evidence', 'C*.json'))):
    e = json.load(open(f)); c = e['coverage']
    rows.append(f"| {e['property_id']} | {e['tier']} | {c['evaluations']:,} | {c['states']:,} | {c['distinct_nontrivial']:,} | {'yes' if c['exhaustive'] else 'no (cap, see evidence)'} | {e['wall_s']:.1f} |")
table = "\n".join(rows)
# fix commits
log = subprocess.run(['git', '-C', '/repo', 'log', '--reverse', '--format=%h %s', 'bf71e0d..HEAD'], capture_output=True, text=True).stdout.strip().split('\n')
fixes = "\n".join(f"* `{l.split(' ',1)[0]}` {l.split(' ',1)[1]}" for l in log if ' fix:' in l or l.split(' ',1)[1].startswith('fix:'))
k = json.load(open(os.path.join(R, 'known_findings.json')))['findings']
fixed = "\n".join(f"* **{f['id']}** ({f['property']}, clause `{f['clause']}`, commit {f['commit']}): {f['text'].split(' ',3)[3]}" for f in k if f['status'] == 'fixed')
known = "\n".join(f"* **{f['id']}** ({f['property']}, clause `{f['clause']}`, witness \"{f['witness']}\"): {f['text']}" for f in k if f['status'] == 'known')
srows = ["| seed | change | needs | result with the checks as they stood | strengthening | result now |", "|---|---|---|---|---|---|"]
for d in sorted(glob.glob(os.path.join(R, 'seeded', 'C*'))):
    m = json.load(open(os.path.join(d, 'meta.json')))
    srows.append(f"| {m['property_broken']} | {m['change']} | {m['needs_to_manifest']} | {m['result']} | {m.get('strengthening','–')} | {m.get('result_after_strengthening','(unchanged) caught')} |")
seeds = "\n".join(srows)
metas = [json.load(open(os.path.join(d, 'meta.json'))) for d in sorted(glob.glob(os.path.join(R, 'seeded', 'C*')))]
n_all = len(metas); n_str = len([m for m in metas if m.get('strengthening')])
rounds = sorted({m.get('round', 1) for m in metas})
per_round = [len([m for m in metas if m.get('round', 1) == r]) for r in rounds]
words = {1: 'one round', 2: 'two rounds', 3: 'three rounds', 4: 'four rounds', 5: 'five rounds', 6: 'six rounds', 7: 'seven rounds', 8: 'eight rounds', 9: 'nine rounds', 10: 'ten rounds', 11: 'eleven rounds', 12: 'twelve rounds', 13: 'thirteen rounds', 14: 'fourteen rounds'}
n_out = len([m for m in metas if m.get('outside_statement')])
seedsummary = f"{n_all} seeded changes in {words.get(len(rounds), str(len(rounds)) + ' rounds')} ({' + '.join(str(x) for x in per_round)}): {n_all - n_str} were reported by the checks as they stood when the change arrived, {n_str} were not and led to strengthened checks; all are reported now (last column)" + (f", except {n_out}: one whose effect lies at a boundary the statement leaves open and is deliberately not demanded (C12 round 3: a stall that ends with the next completion when exactly max_receive_size bytes are in flight), and one that needs a situation outside its property's quantifier and was left open (C14 round 14: a release refused by the encoder because another task's streamed publish is open; section 9.2)." if n_out else ".")
# mutation sweep numbers (sweep/results.jsonl is a copy of the scratch results, committed with the scripts)
sw_total, sw_summary = '?', '(no results stored).'
try:
    import collections
    muts = json.load(open(os.path.join(R, 'sweep', 'mutants.json')))
    rs = {}
    for l in open(os.path.join(R, 'sweep', 'results.jsonl')):
        r = json.loads(l); rs[(r['file'], r['line'], r['kind'], r['new'])] = r
    cnt = collections.Counter(r['status'] for r in rs.values())
    by = collections.Counter(r.get('by') for r in rs.values() if r['status'] == 'killed')
    sw_total = str(len(muts))
    ran = cnt['killed'] + cnt['survived'] + cnt.get('machinery', 0)
    p2 = [r for r in rs.values() if r.get('pass') == 2]
    p2k = len([r for r in p2 if r['status'] == 'killed'])
    sw_summary = (f"{len(rs)} of them have a result: {cnt.get('nocompile', 0)} did not compile, {cnt['killed']} of the remaining {ran} were reported "
                  f"({', '.join(f'{k} {v}' for k, v in sorted(by.items(), key=lambda x: str(x[0])) if k)}), {cnt['survived']} survived"
                  + (f", {cnt['machinery']} ended as a machinery exit (a check that looped, was killed by the kernel's OOM killer or died with a panicking worker before the watchdog, the abort handler, the memory cap and the Engine B monitor existed; `sweep/TRIAGE.md` says what the current harness makes of each)" if cnt.get('machinery') else "")
                  + f". Pass 2 decided {len(p2)} mutants before the time ran out and reported {p2k} of them - survivors of pass 1 whose catching check had simply not been among the ones mapped to their file, or had been strengthened in between.")
except Exception as e:
    pass
tail = rd('05_tail.md').replace('@@SWEEPTOTAL@@', sw_total).replace('@@SWEEPSUMMARY@@', sw_summary)
tail = tail.replace('@@TABLE@@', table).replace('@@FIXES@@', fixes).replace('@@FIXED@@', fixed).replace('@@KNOWN@@', known).replace('@@SEEDS@@', seeds).replace('@@SEEDSUMMARY@@', seedsummary.replace(' (last column)', ''))
nfix = len([l for l in log if l.split(' ',1)[1].startswith('fix:')])
nfixed = len([f for f in k if f['status'] == 'fixed'])
head = rd('00_head.md').replace('@@NFIX@@', str(nfix)).replace('@@NFIXED@@', str(nfixed)).replace('@@SEEDSUMMARY@@', seedsummary.replace(' (last column)', ''))
out = head + (rd('01_sut.md').split('\n',1)[1] if rd('01_sut.md').startswith('## 1.') else rd('01_sut.md'))
out += rd('02_engines.md') + rd('04_properties.md') + tail + rd('99_appendix.md')
open(os.path.join(R, 'DESIGN.md'), 'w').write(out)
print("DESIGN.md", len(out.split('\n')), "lines")
