#!/usr/bin/env python3-vt
import json, jsonschema, glob, sys, os
ok = True
man = json.load(open('/verif/MANIFEST.json'))
try:
    jsonschema.validate(man, json.load(open('/root/.vp/MANIFEST.schema.json')))
    print('manifest ok')
except Exception as e:
    ok = False; print('MANIFEST INVALID', str(e)[:300])
sch = json.load(open('/root/.vp/EVIDENCE.schema.json'))
claimed = {c['property_id']: c for c in man['checks']}
props = [json.loads(l)['id'] for l in open('/verif/properties.jsonl')]
for p in props:
    if p not in claimed and p not in [n['property_id'] for n in man['not_applicable']]:
        ok = False; print('property neither claimed nor not_applicable:', p)
for f in sorted(glob.glob('/verif/evidence/*.json')):
    try:
        e = json.load(open(f))
        jsonschema.validate(e, sch)
        c = claimed.get(e['property_id'])
        if c is None:
            ok = False; print('evidence without claim', f)
        elif c['level_claimed']['category'] != e['level']:
            ok = False; print('LEVEL MISMATCH', f, e['level'], c['level_claimed']['category'])
        elif os.path.abspath(c['evidence_file']) != os.path.abspath(f):
            ok = False; print('evidence path mismatch', f)
        else:
            print('ok', f)
    except Exception as e:
        ok = False; print('INVALID', f, str(e)[:300])
for p, c in claimed.items():
    if not os.path.exists(c['evidence_file']):
        ok = False; print('missing evidence', p)
sys.exit(0 if ok else 1)
