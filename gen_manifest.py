#!/usr/bin/env python3
"""Regenerates MANIFEST.json from the table below (kept in one place so it is always valid)."""
import json, subprocess

CHECKS = {
 "C18": dict(engine="enum", technique="bounded-exhaustive input enumeration (explicit-state, all strings up to a length bound) against a reference model",
   text="Every string over {a,b,$,/,+,#} up to length 6 (quick) / 8 (thorough) is validated, every (valid filter, topic<=6/7) pair is matched, and every ordered pair of valid filters up to length 5/6 is tested for covering, against a 40-line reference transcribed from MQTT 4.7; exhaustive within those bounds.",
   note="Trusts the reference in harness/src/c18.rs; alphabet of 6 ASCII symbols plus two multi-byte characters; hook verif::topic_is_valid exposes the dispatcher's validator.",
   design="4/C18"),
}
NOT_YET = {}
props = [json.loads(l) for l in open('/verif/properties.jsonl')]
hooks_commits = subprocess.run(['git','-C','/repo','log','--format=%h %s'],capture_output=True,text=True).stdout.splitlines()
hook_commits = [l.split()[0] for l in hooks_commits if 'ntex_mqtt_verif' in l]
m = {
 "version": 1,
 "setup_cmd": "bin/setup",
 "hooks": {
   "guard": "--cfg ntex_mqtt_verif",
   "enable": "RUSTFLAGS set in /verif/harness/.cargo/config.toml ([build] rustflags = [\"--cfg\", \"ntex_mqtt_verif\"]); the harness depends on /repo by path so every check rebuilds the current working tree with the guard on",
   "baseline_off_cmd": "cd /repo && cargo test --workspace --no-fail-fast --offline",
   "source_commits": hook_commits,
   "add_only": True,
 },
 "engines": [
   {"name": "simnet", "path": "harness/src/simnet.rs", "kind_free_text": "stateless deviation-bounded DFS over environment events of the real ntex-mqtt endpoints running in a single-stepped ntex runtime with in-memory transport and virtual clock",
    "serves_properties": sorted(k for k,v in CHECKS.items() if v['engine']=='simnet')},
   {"name": "enum", "path": "harness/src", "kind_free_text": "bounded-exhaustive enumeration of inputs (packet values, byte strings, fragmentations, limits, topic strings) of the real codec/matcher against an independent reference codec (refmqtt)",
    "serves_properties": sorted(k for k,v in CHECKS.items() if v['engine']=='enum')},
 ],
 "checks": [],
 "not_applicable": [],
 "notes": "All checks: bin/check <ID> <quick|thorough>; exit 0 held / 1 VIOLATION / 2 machinery. Known findings in known_findings.json. See DESIGN.md.",
}
for p in props:
    i = p['id']
    if i in CHECKS:
        c = CHECKS[i]
        m['checks'].append({
          "property_id": i,
          "quick_cmd": f"bin/check {i} quick",
          "thorough_cmd": f"bin/check {i} thorough",
          "evidence_file": f"/verif/evidence/{i}.json",
          "replay_cmd_template": "bin/check replay {path}",
          "engine": c['engine'],
          "level_claimed": {"category": "model_checking", "text": c['text'], "design_ref": c['design']},
          "level_note": c['note'],
          "technique": c['technique'],
        })
    else:
        m['not_applicable'].append({"property_id": i, "reason": NOT_YET.get(i, "check not built yet in this round (model checking applies; see DESIGN.md section 4)")})
json.dump(m, open('/verif/MANIFEST.json','w'), indent=1)
print("checks:", [c['property_id'] for c in m['checks']])
