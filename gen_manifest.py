#!/usr/bin/env python3
"""Regenerates MANIFEST.json from the table below (kept in one place so it is always valid)."""
import json, subprocess

A_NOTE = "Real ntex-mqtt code in ntex's own single-threaded runtime (FIFO task order), in-memory transport (ntex-io IoTest), vendored ntex-util with a virtual clock; harness peer uses the independent reference codec. Bounded: numbers of packets/senders/handlers and deviations as stated in the evidence."
A_TECH = "stateless deviation-bounded DFS (explicit enumeration of all environment-event schedules of the real implementation under a single-stepped runtime), oracle = invariant / reference model on every step"
B_TECH = "bounded-exhaustive input enumeration of the real code against an independent reference model (explicit enumeration of a finite input space)"
CHECKS = {
 "C01": dict(engine="enum", technique=B_TECH,
   text="Every value of a deterministic product generator (all packet kinds, presence bits of every optional field/property, all reason codes, boundary lengths, Remaining-Length boundaries) is encoded by the library, decoded by an independent spec decoder, decoded by the library, and re-encoded by the spec encoder in every property order; all 2^28 variable-byte integers (thorough) as Subscription Identifier and Remaining Length. Exhaustive over that finite domain.",
   note="Trusts refmqtt.rs (reference codec written from the OASIS specs). String/payload contents outside the alphabets are not varied.", design="4/C01"),
 "C02": dict(engine="enum", technique=B_TECH,
   text="All byte strings of length <= 3 in every fragmentation, first-byte x Remaining-Length x 8-symbol bodies, and every single-byte substitution / truncation / length edit / splice of a corpus of valid short frames are fed to the v3, v5 and version-sniffing decoders; oracle: no panic (overflow checks on), consumption never past the reference frame, listed malformation classes rejected, oversize rejected at the header, accepted packets stable under re-encoding.",
   note="Only the malformation classes named in the property are demanded to be rejected; classification by refmqtt.rs. Hook verif::sniff exposes the private sniffing decoder.", design="4/C02"),
 "C03": dict(engine="simnet", technique=A_TECH,
   text="All sequences of up to 3 (quick) / 4 (thorough) inbound packets over {PUBLISH q0/q1/q2, PUBLISH split in two writes, PUBREL, PINGREQ, SUBSCRIBE} in all four roles (clients with protocol-service handler and with topic router), interleaved in every order with handler completions whose outcome (ok / error / mapped negative ack) the explorer chooses, and with synchronously completing handlers; a monitor over handler log and positioned wire output checks handled-once, exact fields and payload, ack type/count/position per QoS, no success ack after a failing handler.",
   note=A_NOTE + " Client-role QoS 2 was a known finding (C03-1, C03-2) and has since been repaired; the monitor now judges the full PUBREC / PUBREL / PUBCOMP exchange in client roles too.", design="4/C03"),
 "C04": dict(engine="simnet", technique=A_TECH,
   text="v3 and v5 server: all sequences of up to 4 (quick) / 5 (thorough) requests over {PUBLISH q1, q2, PUBREL, PINGREQ, SUBSCRIBE, UNSUBSCRIBE, AUTH} with publish handler and protocol service each immediately-ready or gated, arrivals one per read or corked into every grouping, completions in every order; after every step the handler-produced responses on the wire must be a prefix of the request order and at the end of healthy runs equal to it.",
   note=A_NOTE, design="4/C04"),
 "C11": dict(engine="simnet", technique=A_TECH,
   text="All histories of up to 3-5 packets over {PUBLISH q1/q2, SUBSCRIBE, UNSUBSCRIBE, PUBREL} x id {1,2} (clients: QoS 1/2 publishes + PUBREL) incl. non-initial states, v5 also with handler errors mapped to negative acknowledgements and a duplicate whose payload arrives in pieces, handler/protocol completions placed everywhere, <=1 injection while runnable; exact attribution (payload / filter tags) and a reference in-use set decide: a packet is never delivered while an exchange with its id is open, never refused when its id was acknowledged free, refusals take the version's form, unknown PUBREL is refused.",
   note=A_NOTE + " PUBREL naming an id held by a non-QoS-2 exchange is outside the statement and not generated.", design="4/C11"),
 "C05": dict(engine="simnet", technique=A_TECH,
   text="All schedules (orders of Start/PeerAck/PeerAckBatch/Cancel/window events at quiescence plus <=1 (quick) / <=2 (thorough) injections while tasks are runnable) of cap+1..cap+2 application tasks using the awaiting send APIs against send limits 1..3 in all four roles; the window invariant is evaluated after every task poll and every event.",
   note=A_NOTE, design="4/C05"),
 "C06": dict(engine="simnet", technique=A_TECH,
   text="Per role 1-3 application sends (QoS 1 auto / caller-chosen id, QoS 2 with held receipt, client subscribe / unsubscribe) started in every order, interleaved with every peer sequence of up to 2 (quick) / 3 (thorough) acknowledgements over every ack type x id {1,2,5,9}; reference = FIFO of sends awaiting their first ack + set of released QoS 2 ids: a matching ack completes exactly that send with its contents, anything else completes nothing and ends the connection with one protocol-error Stop, never a panic; converse family (correct peer, sends that fail locally: over-size, id in use, over-long filter, over-size with a caller-chosen id followed by the same id, streamed publishes whose header cannot be written) where every other send must succeed, and a 66k / 140k-send packet-id wrap-around history per role.",
   note=A_NOTE + " Hostile acks are written at quiescent points; PUBCOMP before the endpoint's PUBREL is outside the statement.", design="4/C06"),
 "C07": dict(engine="simnet", technique=A_TECH + " (fault enumeration: the termination cause is an explorer event, injected at every decision point)",
   text="Per role six base schedules (two gated publish handlers + gated SUBSCRIBE in flight; a streamed inbound PUBLISH half received with the handler blocked in read(); one send awaiting its ack + one parked on the send window + one ready() future; the inbound stream delivered one byte per write; write back-pressure active with a handler in flight; an outbound QoS 1 publish being streamed by the application with a second sender parked behind it) x ten termination causes (peer close, read error, write error, undecodable bytes, protocol-violating packet, publish-handler error, protocol-handler error, keep-alive expiry on the virtual clock, sink.close(), sink.force_close()) injected before/after every step of the base schedule at quiescence and, with one (quick) / two (thorough) deviations, between any two task polls, for peer close / read error / force-close at every byte offset; oracle: exactly one Stop of the class the statement assigns to the cause, every send/readiness future resolved with an error, blocked payload reader saw an error or was cancelled, handlers cancelled only after the Stop was handled, connection task completes, no panic, nothing left executing after 60 s of virtual time.",
   note=A_NOTE, design="4/C07"),
 "C08": dict(engine="simnet", technique=A_TECH,
   text="Per role 2-3 application operations over {QoS 0/1/2 sends, QoS 1 through the non-blocking API, streamed sends of 6 bytes (exact in one chunk, in two, second chunk one byte too long, half then dropped), subscribe/unsubscribe, sends that fail locally: 65536-byte topic, over the peer's maximum packet size, packet id in use, over-long filter}; every chunk is an explorer event, so other sends, peer acknowledgements, an inbound PINGREQ / QoS 1 PUBLISH (dispatcher response) or an application close() interleave at every position (1 deviation quick, 2 thorough); the full byte stream captured on the peer side is parsed by the independent decoder: whole packets only (truncated tail only as the streamed PUBLISH of an ended connection), Ok <-> exactly one packet, local Err <-> zero bytes, streamed payload = accepted chunks with the declared size.",
   note=A_NOTE, design="4/C08"),
 "C09": dict(engine="enum", technique=B_TECH,
   text="~1500 v5 packet values weighted to shortenable packets (reason strings none..300 bytes, user-property lists of equal and mixed sizes) x every outbound limit 0..160 (quick) / 0..1220 (thorough) plus boundary grid x problem-information on/off, plus values whose encoding must fail and all v3 generator values; oracle: one reference frame, truthful length, within limit, only whole Reason String / User Properties dropped, failed encode leaves zero bytes, no panic.",
   note="Trusts refmqtt.rs; the encoder may be conservative by up to 20 bytes before 'dropped although it fits' is reported.", design="4/C09"),
 "C10": dict(engine="enum+simnet", technique=B_TECH + "; connection part: " + A_TECH,
   text="Codec part: streams of valid packets with payload sizes around chunk/varint boundaries, all 2^(n-1) fragmentations up to 11/14 bytes and every single/double cut and fixed chunk size beyond, x min_chunk_size {0,1,4,1024,32768}, compared with the reference parse of the unfragmented stream. Connection part: all four roles x reader pace {read_all, read() with every read released by an explorer event, never reads} x min_chunk_size {0,1,4,1024} x payload buffer {4 B, 32 KiB}: a stream of two QoS 1 publishes (12 and 7 payload bytes) + PINGREQ delivered in every sequence of up to 4 (quick) / 6 (thorough) deliveries of 1, (3,) 6, 9 or all remaining bytes, interleaved in every order with the reader's steps; oracle: each handler is announced the declared size and reads exactly its own bytes in order, one PUBACK each in order, the PINGREQ after the payloads is answered (nothing leaked into the next packet), no error.",
   note="Trusts refmqtt.rs. " + A_NOTE, design="4/C10"),
 "C11": dict(engine="simnet", technique=A_TECH,
   text="All histories of up to 3-5 packets over {PUBLISH q1/q2, SUBSCRIBE, UNSUBSCRIBE, PUBREL} x id {1,2} (clients: QoS 1 + PUBREL) incl. non-initial states, handler/protocol completions placed everywhere, <=1 injection while runnable; exact attribution (payload / filter tags) and a reference in-use set decide: a packet is never delivered while an exchange with its id is open, never refused when its id was acknowledged free, refusals take the version's form, unknown PUBREL is refused.",
   note=A_NOTE + " PUBREL naming an id held by a non-QoS-2 exchange is outside the statement and not generated.", design="4/C11"),
 "C05": dict(engine="simnet", technique=A_TECH,
   text="All schedules (orders of Start/PeerAck/PeerAckBatch/Cancel/window events at quiescence plus <=1 (quick) / <=2 (thorough) injections while tasks are runnable) of cap+1..cap+2 application tasks using the awaiting send APIs against send limits 1..3 in all four roles; the window invariant is evaluated after every task poll and every event.",
   note=A_NOTE, design="4/C05"),
 "C06": dict(engine="simnet", technique=A_TECH,
   text="Per role 1-3 application sends (QoS 1 auto / caller-chosen id, QoS 2 with held receipt, client subscribe / unsubscribe) started in every order, interleaved with every peer sequence of up to 2 (quick) / 3 (thorough) acknowledgements over every ack type x id {1,2,5,9}; reference = FIFO of sends awaiting their first ack + set of released QoS 2 ids: a matching ack completes exactly that send with its contents, anything else completes nothing and ends the connection with one protocol-error Stop, never a panic; converse family (correct peer, locally failing sends) and a 66k / 140k-send packet-id wrap-around history per role.",
   note=A_NOTE + " Hostile acks are written at quiescent points; PUBCOMP before the endpoint's PUBREL is outside the statement.", design="4/C06"),
 "C07": dict(engine="simnet", technique=A_TECH + " (fault enumeration: the termination cause is an explorer event, injected at every decision point)",
   text="Per role four base schedules (two gated publish handlers + gated SUBSCRIBE in flight; a streamed inbound PUBLISH half received with the handler blocked in read(); one send awaiting its ack + one parked on the send window + one ready() future; the inbound stream delivered one byte per write) x ten termination causes (peer close, read error, write error, undecodable bytes, protocol-violating packet, publish-handler error, protocol-handler error, keep-alive expiry on the virtual clock, sink.close(), sink.force_close()) injected before/after every step of the base schedule at quiescence and, with one (quick) / two (thorough) deviations, between any two task polls, for peer close / read error / force-close at every byte offset; oracle: exactly one Stop of the class the statement assigns to the cause, every send/readiness future resolved with an error, blocked payload reader saw an error or was cancelled, handlers cancelled only after the Stop was handled, connection task completes, no panic, nothing left executing after 60 s of virtual time.",
   note=A_NOTE, design="4/C07"),
 "C08": dict(engine="simnet", technique=A_TECH,
   text="Per role 2-3 application operations over {QoS 0/1/2 sends, streamed sends of 6 bytes (exact in one chunk, in two, second chunk one byte too long, half then dropped), subscribe/unsubscribe, sends that fail locally: 65536-byte topic, over the peer's maximum packet size, packet id in use, over-long filter}; every chunk is an explorer event, so other sends, peer acknowledgements, an inbound PINGREQ / QoS 1 PUBLISH (dispatcher response) or an application close() interleave at every position (1 deviation quick, 2 thorough); the full byte stream captured on the peer side is parsed by the independent decoder: whole packets only (truncated tail only as the streamed PUBLISH of an ended connection), Ok <-> exactly one packet, local Err <-> zero bytes, streamed payload = accepted chunks with the declared size.",
   note=A_NOTE, design="4/C08"),
 "C09": dict(engine="enum", technique=B_TECH,
   text="~1500 v5 packet values weighted to shortenable packets (reason strings none..300 bytes, user-property lists of equal and mixed sizes) x every outbound limit 0..160 (quick) / 0..1220 (thorough) plus boundary grid x problem-information on/off, plus values whose encoding must fail and all v3 generator values; oracle: one reference frame, truthful length, within limit, only whole Reason String / User Properties dropped, failed encode leaves zero bytes, no panic.",
   note="Trusts refmqtt.rs; the encoder may be conservative by up to 20 bytes before 'dropped although it fits' is reported.", design="4/C09"),
 "C10": dict(engine="enum+simnet", technique=B_TECH + "; connection part: " + A_TECH,
   text="Codec part: streams of valid packets with payload sizes around chunk/varint boundaries, all 2^(n-1) fragmentations up to 11/14 bytes and every single/double cut and fixed chunk size beyond, x min_chunk_size {0,1,4,1024,32768}, compared with the reference parse of the unfragmented stream.",
   note="Trusts refmqtt.rs. Connection part not built yet in this revision.", design="4/C10"),
 "C12": dict(engine="simnet", technique=A_TECH,
   text="v3 server (default in-flight middleware), v5 server (Receive Maximum + size middleware) and v5 client: max_receive {1,2}/{0..3} x max_receive_size {0, 30 B, 64 KiB}; bursts of up to 3/4 publishes incl. one delivered in pieces against gated handlers, v5 server also with gated SUBSCRIBE / UNSUBSCRIBE in flight, v3 server also with 4-5 publishes arriving in one read; deliveries and completions in every order with <=1 injection; invariants after every step (executing handlers <= max_receive, bytes <= max_receive_size + largest packet), 0x93 never for a peer within quota, and after the drain every complete publish was handled with its full payload.",
   note=A_NOTE + " The former known findings C12-3 / C12-5 (limit overshoot after a streamed payload / on a burst in one read) have been repaired.", design="4/C12"),
 "C13": dict(engine="simnet", technique=A_TECH,
   text="Same world as C05 plus readiness futures, cancellation of parked tasks, senders that fail locally after being woken, and back-pressure episodes that really engage the library's back-pressure state (a 24-byte QoS 0 publish over the 16-byte write buffer first), also with a streamed publish waiting on it; liveness is judged at quiescence after the correct peer has acknowledged everything it received: every non-cancelled send/ready future must have completed and the connection must be up.",
   note=A_NOTE + " Cancellation is applied to waiting (parked) futures only, as in the statement.", design="4/C13"),
 "C14": dict(engine="simnet", technique=A_TECH,
   text="Per role 2-4 concurrent send_exactly_once (receipts held until the explorer releases or drops them, plus immediate release / drop variants, optional QoS 1 send in between, send limits 8 and 2), peer acknowledging in arrival order singly or batched, Release/DropReceipt in every order, <=1 (quick) / <=2 (thorough) injections: each send resolves with its own PUBREC, each release or drop writes exactly one PUBREL with its own id and none while held, release() completes exactly when its own PUBCOMP was delivered.",
   note=A_NOTE, design="4/C14"),
 "C15": dict(engine="simnet", technique=A_TECH,
   text="v5 server and client x control service {no packet, own DISCONNECT, error, slow with explorer-chosen completion and outcome}: every sequence of up to 4 (quick) / 5 (thorough) close initiators, each up to twice, from 15 (server) / 9 (client) groups over application close() / close_with_reason() / close_with_no_reason() / force_close(), protocol handler asking to disconnect or failing, publish handler failing, QoS / RETAIN / subscription-identifier / unknown-alias / packet-too-large / receive-maximum violations, undecodable bytes, unexpected packet, keep-alive expiry on the virtual clock, peer DISCONNECT with and without session expiry, PINGREQ; applied in every order at quiescent points and with up to 2 (quick) / 3 (thorough) injections between any two task polls; oracle on the peer-side packet stream: at most one DISCONNECT, nothing after it, none once the peer's DISCONNECT was received (public is_disconnect_recv flag or protocol service called) before any local cause, library-made DISCONNECT never 0x00 after an error and exactly the dedicated code when only dedicated causes are present.",
   note=A_NOTE + " Application-supplied DISCONNECT packets are recognised by a reason-string marker; an unmarked 0x00 is attributed to sink.close() whenever close() was called earlier.", design="4/C15"),
 "C16": dict(engine="simnet", technique=A_TECH,
   text="Per role and version every sequence of up to 3 (quick) / 4 (thorough) well-formed packets over 26-30 templates (every packet type incl. illegal directions, ids in use/free/unknown, PUBLISH complete/split/incomplete/duplicate/retain/wildcard/alias, second CONNECT, every ack type) against 5 application states (idle, outstanding sends, gated handlers, instead of the handshake, an outbound publish being streamed); oracle: no panic, poll horizon never hit, at most one Stop with a protocol-error reason unless a DISCONNECT is in the sequence, and a connection without Stop still answers a probe.",
   note=A_NOTE, design="4/C16"),
 "C17": dict(engine="simnet", technique=A_TECH,
   text="v5 server and client, plain handler and topic router: every sequence of up to 4 (quick) / 5 (thorough) publishes over topic {a,b,empty} x alias {none,1,2,3} with Topic Alias Maximum 2 against a per-connection reference map (resolved topic, chosen resource handler, or protocol error), plus a two-connection world in which bindings made on one connection must not resolve on the other.",
   note=A_NOTE, design="4/C17"),
 "C18": dict(engine="enum", technique=B_TECH,
   text="Every string over {a,b,$,/,+,#} up to length 6 (quick) / 8 (thorough) is validated, every (valid filter, topic<=6/7) pair is matched, and every ordered pair of valid filters up to length 5/6 is tested for covering, against a 40-line reference transcribed from MQTT 4.7; exhaustive within those bounds.",
   note="Trusts the reference in harness/src/c18.rs; alphabet of 6 ASCII symbols plus two multi-byte characters; hook verif::topic_is_valid exposes the dispatcher's validator.",
   design="4/C18"),
 "C19": dict(engine="simnet", technique=A_TECH + "; fragmentations and limit probes are enumerated as explorer choices",
   text="Gate: v3, v5 and combined server x handshake service {accept, refuse, error, slow} x every first packet (CONNECT with protocol name MQTT / MQIsdp / MQTX, level 3/4/5/6, reserved flag set; every other packet type in v3 and v5 encoding; reserved types 0 and 15) followed by up to 2 (quick) / 3 (thorough) packets (PUBLISH, SUBSCRIBE) and the handshake completion in every order with 2 / 3 injections while runnable. Fragmentation: combined server, CONNECT level 4 and 5 followed by PUBLISH + SUBSCRIBE + PINGREQ, the first 16 (quick) / 19 (thorough) bytes in all 2^15 / 2^18 fragmentations, with 0 / 5 / 9 / all CONNECT bytes already buffered when the server starts. Limits: 27 configurations of configured vs CONNECT-requested vs handshake-overridden values (v5 server: max QoS, max packet size smaller and larger, receive maximum, topic alias max, max send, keep-alive smaller / larger / client 0, all at once with pairwise distinct values, x peer Receive Maximum absent / below / above; v3 server; v5 client with CONNACK receive maximum / max packet size / server keep-alive; v3 client), each probed after the handshake: CONNACK contents, packet at half / 1.5x the size limit, QoS at / above, alias at / above, receive maximum at / above, credit(), keep-alive expiry time on the virtual clock, client ping period, outbound packet over the peer's size limit. Oracle: no handler record before the acceptance record; invalid first packet, refusal or error end the connection with at most the refusing CONNACK; valid CONNECT reaches the service of its level; every follow-up handled once, in order, intact; each limit in force equals the negotiated value.",
   note=A_NOTE + " Known finding C19-2 (v5 server does not announce the 30 s default it imposes on a client that asked for keep-alive 0).", design="4/C19"),
 "C20": dict(engine="simnet", technique=A_TECH + "; time is the virtual clock of the vendored ntex-util, moved only by the explorer's tick event",
   text="Virtual clock on a half-second grid (each tick delivered as five 100 ms sub-steps), horizon = timeout + 5 s: v3/v5 server with keep-alive 1, 2, 3 s (client value), server override smaller / larger / with client value 0, and client value 0 without override; background traffic absent or one complete packet every (period - 0.5 s) delivered whole, in two writes, or split across two slots; on top every placement of up to 2 (quick) / 4 (thorough) events out of {traffic stops, extra packet, partial frame, rest of it, a handler becomes busy / completes (v3 max_receive 1: reading paused)}; frame read rate (1 s, 3 s overall, > 4 B per period) with every placement of up to 3 / 5 fragment deliveries of 1, 3, 6 or the remaining bytes; connect timeout 2 s with CONNECT in up to three fragments; client keep-alive 0..3 s idle, with a busy handler, with a streamed publish open across a ping. Oracle: keep-alive timeout only after a gap >= the period (never for live peers, also after a reading pause) and with DISCONNECT 0x8D on v5; an idle or stalled connection is ended within the timeout plus tick slack; read timeout never earlier than configured nor for a frame above the rate, always for a stalled one; CONNECT in time accepted, late one dropped, no handler before acceptance; client writes PINGREQ at least once per keep-alive period.",
   note=A_NOTE + " The io timer of ntex-io counts one-second ticks; deadlines are judged with (timeout+1) ticks x 1.3 + 0.5 s on the late side and no slack on the early side. Keep-alive 0 without override: the library's documented 30 s default applies, only 'live peers survive' is demanded. Known findings C20-2/3.", design="4/C20"),
}
NOT_YET = {}
props = [json.loads(l) for l in open('/verif/properties.jsonl')]
hooks_commits = subprocess.run(['git','-C','/repo','log','--format=%h %s'],capture_output=True,text=True).stdout.splitlines()
hook_commits = [l.split()[0] for l in hooks_commits if 'ntex_mqtt_verif' in l]
m = {
 "version": 1,
 "setup_cmd": "bin/setup",
 "hooks": {
   "guard": "--cfg ntex_mqtt_verif",
   "enable": "RUSTFLAGS set in /verif/harness/.cargo/config.toml ([build] rustflags = [\"--cfg\", \"ntex_mqtt_verif\"]); the harness depends on /repo by path so every check rebuilds the current working tree with the guard on",
   "baseline_off_cmd": "cd /repo && cargo test --workspace --no-fail-fast --offline",
   "source_commits": hook_commits,
   "add_only": True,
 },
 "engines": [
   {"name": "simnet", "path": "harness/src/simnet.rs", "kind_free_text": "stateless deviation-bounded DFS over environment events of the real ntex-mqtt endpoints running in a single-stepped ntex runtime with in-memory transport and virtual clock",
    "serves_properties": sorted(k for k,v in CHECKS.items() if v['engine']=='simnet')},
   {"name": "enum", "path": "harness/src", "kind_free_text": "bounded-exhaustive enumeration of inputs (packet values, byte strings, fragmentations, limits, topic strings) of the real codec/matcher against an independent reference codec (refmqtt)",
    "serves_properties": sorted(k for k,v in CHECKS.items() if v['engine']=='enum')},
 ],
 "checks": [],
 "not_applicable": [],
 "notes": "All checks: bin/check <ID> <quick|thorough>; exit 0 held / 1 VIOLATION / 2 machinery. Known findings in known_findings.json. See DESIGN.md.",
}
for p in props:
    i = p['id']
    if i in CHECKS:
        c = CHECKS[i]
        m['checks'].append({
          "property_id": i,
          "quick_cmd": f"bin/check {i} quick",
          "thorough_cmd": f"bin/check {i} thorough",
          "evidence_file": f"/verif/evidence/{i}.json",
          "replay_cmd_template": "bin/check replay {path}",
          "engine": c['engine'].split('+')[0],
          "level_claimed": {"category": "model_checking", "text": c['text'], "design_ref": c['design']},
          "level_note": c['note'],
          "technique": c['technique'],
        })
    else:
        m['not_applicable'].append({"property_id": i, "reason": NOT_YET.get(i, "check not built yet in this round (model checking applies; see DESIGN.md section 4)")})
json.dump(m, open('/verif/MANIFEST.json','w'), indent=1)
print("checks:", [c['property_id'] for c in m['checks']])
