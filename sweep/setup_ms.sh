#!/bin/sh
# usage: sweep/setup_ms.sh <scratch-dir>   (e.g. /tmp/ms0)
# Creates a self-contained scratch copy for one sweep worker: a git worktree of /repo HEAD, a copy of the
# harness whose Cargo.toml points at that worktree (build output copied so only ntex-mqtt is rebuilt),
# and a VERIF_ROOT with known_findings.json. Remove with: git -C /repo worktree remove --force $MS/repo; rm -rf $MS
set -e
MS=$1
ROOT=$(cd "$(dirname "$0")/.." && pwd)
mkdir -p "$MS/root/evidence" "$MS/root/replays"
git -C /repo worktree add --detach "$MS/repo" HEAD >/dev/null
mkdir -p "$MS/harness"
cp -r "$ROOT/harness/src" "$ROOT/harness/Cargo.lock" "$ROOT/harness/.cargo" "$MS/harness/"
sed -e "s#path = \"/repo\"#path = \"$MS/repo\"#" -e "s#path = \"/verif/vendor/ntex-util\"#path = \"$ROOT/vendor/ntex-util\"#" "$ROOT/harness/Cargo.toml" > "$MS/harness/Cargo.toml"
if [ -d "$ROOT/harness/target" ]; then cp -r "$ROOT/harness/target" "$MS/harness/target"; fi
cp "$ROOT/known_findings.json" "$MS/root/"
cp "$ROOT/sweep/mutants.json" "$MS/mutants.json"
cp "$ROOT/sweep/results.jsonl" "$MS/results_prev.jsonl"
(cd "$MS/harness" && CARGO_NET_OFFLINE=true cargo build --release --offline 2>&1 | tail -n 2)
