#!/bin/sh
# run in a vp snapshot with --with-repo: point the harness at the repo snapshot so seeds applied to /repo do not disturb it
sed -i "s#path = \"/repo\"#path = \"$VP_RUN_REPO\"#" harness/Cargo.toml
export VERIF_ROOT=$(pwd)
for id in ${THOROUGH_IDS:-C17 C18 C01 C09 C14 C10 C05 C07 C08 C06 C11 C16 C15 C19 C20 C03 C04 C12 C13 C02}; do
  s=$(date +%s)
  nice -n 5 bin/check $id thorough > thorough_$id.log 2>&1
  rc=$?
  e=$(date +%s)
  echo "$id rc=$rc $((e-s))s $(grep -c KNOWN-FINDING thorough_$id.log) kf $(grep -c VIOLATION thorough_$id.log) viol | $(tail -n 1 thorough_$id.log)"
done
