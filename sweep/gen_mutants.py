#!/usr/bin/env python3
"""Generate single-line mutants of library source files (outside #[cfg(test)] modules)."""
import re, json, sys, os
REPO = sys.argv[1]
FILES = {
 'src/io.rs': ['C04','C07','C20','C12','C15','C16'],
 'src/v3/shared.rs': ['C05','C13','C06','C14','C08','C07'],
 'src/v5/shared.rs': ['C05','C13','C06','C14','C08','C07','C15'],
 'src/v3/sink.rs': ['C05','C13','C06','C14','C08'],
 'src/v5/sink.rs': ['C05','C13','C06','C14','C08','C15'],
 'src/v3/dispatcher.rs': ['C03','C04','C11','C12','C16','C10'],
 'src/v5/dispatcher.rs': ['C03','C04','C11','C12','C16','C17','C15','C10'],
 'src/v3/client/dispatcher.rs': ['C03','C11','C16','C06','C10'],
 'src/v5/client/dispatcher.rs': ['C03','C11','C16','C06','C12','C17','C15','C10'],
 'src/inflight.rs': ['C12','C03'],
 'src/payload.rs': ['C10','C07','C03'],
 'src/topic.rs': ['C18'],
 'src/v3/codec/codec.rs': ['C02','C10','C01','C08'],
 'src/v5/codec/codec.rs': ['C02','C10','C01','C08','C09'],
 'src/v3/codec/decode.rs': ['C01','C02'],
 'src/v3/codec/encode.rs': ['C01','C09','C08'],
 'src/v5/codec/encode.rs': ['C01','C09'],
 'src/v5/codec/decode.rs': ['C01','C02'],
 'src/utils.rs': ['C01','C02','C09'],
 'src/version.rs': ['C19','C02'],
 'src/v3/handshake.rs': ['C19','C20'],
 'src/v5/handshake.rs': ['C19','C20'],
 'src/v3/server.rs': ['C19','C20'],
 'src/v5/server.rs': ['C19','C20','C15'],
 'src/server.rs': ['C19','C20'],
 'src/v5/router.rs': ['C17','C03'],
 'src/v3/router.rs': ['C03'],
}
out = []
for f, checks in FILES.items():
    p = os.path.join(REPO, f)
    if not os.path.exists(p): continue
    lines = open(p).read().split('\n')
    # stop at the test module
    end = len(lines)
    for i, l in enumerate(lines):
        if re.match(r'\s*#\[cfg\(test\)\]', l) and any('mod ' in x for x in lines[i+1:i+4]):
            end = i; break
    for i in range(end):
        l = lines[i]; st = l.strip()
        if not st or st.startswith('//') or st.startswith('#[') or st.startswith('log::') or 'log::trace!' in l or 'log::debug!' in l or 'log::error!' in l or 'log::warn!' in l: continue
        if st.startswith('use ') or st.startswith('pub use') or st.startswith('///'): continue
        cands = []
        # 1. statement deletion: a call statement on one line that mutates state
        if re.match(r'^[\w\.\(\)\*&\[\]:]+\.(remove|insert|push|push_back|pop_front|clear|set|wake|take|send|close|force_close|stop_timer|start_timer|notify|extend|advance|replace|truncate|store|shutdown)\w*\(.*\);$', st) and not st.startswith('let '):
            cands.append(('del-stmt', l, re.sub(r'\S.*$', '();', l, count=1)))
        # 2. relational operators
        for a, b in [(' == ', ' != '), (' != ', ' == '), (' < ', ' <= '), (' <= ', ' < '), (' > ', ' >= '), (' >= ', ' > ')]:
            if a in l and '=>' not in l.split(a)[0][-2:] and not st.startswith('fn ') and '->' not in l and 'impl<' not in l and 'where' not in st[:6] and '<' not in st[:1]:
                # avoid generics: require spaces both sides (already) and no 'Vec <' style
                cands.append(('relop' + a.strip() + 'to' + b.strip(), l, l.replace(a, b, 1)))
        # 3. boolean connectives
        if ' && ' in l: cands.append(('and-to-or', l, l.replace(' && ', ' || ', 1)))
        if ' || ' in l: cands.append(('or-to-and', l, l.replace(' || ', ' && ', 1)))
        # 4. negate an if condition
        m = re.match(r'^(\s*(?:\} else )?if )(?!let )(.+?)( \{)\s*$', l)
        if m and ' && ' not in l and ' || ' not in l:
            cands.append(('negate-if', l, f"{m.group(1)}!({m.group(2)}){m.group(3)}"))
        # 5. off by one
        for a, b in [(' + 1', ' + 2'), (' - 1', ' - 0'), (' += 1', ' += 2'), (' -= 1', ' -= 0')]:
            if a in l and not l.rstrip().endswith(a + '0'):
                cands.append(('offby' + a.strip().replace(' ', ''), l, l.replace(a, b, 1)))
        # 6. min/max, saturating
        if '.min(' in l: cands.append(('min-to-max', l, l.replace('.min(', '.max(', 1)))
        if '.max(' in l: cands.append(('max-to-min', l, l.replace('.max(', '.min(', 1)))
        # 7. true/false literal in assignment or argument
        if re.search(r'\b(true|false)\b', l) and ('=' in l or '(' in l) and 'matches!' not in l and 'assert' not in l:
            cands.append(('flip-bool', l, re.sub(r'\btrue\b', 'FALSE_TMP', l, count=1).replace('FALSE_TMP', 'false') if re.search(r'\btrue\b', l) else re.sub(r'\bfalse\b', 'true', l, count=1)))
        for kind, old, new in cands:
            if old != new:
                out.append({'file': f, 'line': i + 1, 'kind': kind, 'old': old, 'new': new, 'checks': checks})
json.dump(out, open(sys.argv[2], 'w'), indent=0)
from collections import Counter
print(len(out), Counter(m['file'] for m in out).most_common(), Counter(m['kind'] for m in out).most_common())
