import json,sys
f,line,kind=sys.argv[1],int(sys.argv[2]),sys.argv[3]
root=sys.argv[4] if len(sys.argv)>4 else '/repo'
for m in json.load(open('/tmp/ms/mutants.json')):
    if m['file']==f and m['line']==line and m['kind']==kind:
        p=f'{root}/{f}'; L=open(p).read().split('\n')
        assert L[line-1]==m['old'], (L[line-1], m['old'])
        L[line-1]=m['new']; open(p,'w').write('\n'.join(L)); print('applied', m['new'].strip()); break
else: print('not found')
