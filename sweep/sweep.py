#!/usr/bin/env python3
"""Mutation sweep: for each selected mutant apply to /tmp/ms/repo, rebuild harness copy, run the related quick checks."""
import json, subprocess, sys, os, time, re
MS=os.environ.get('MS','/tmp/ms')
muts=json.load(open(f'{MS}/mutants.json'))
stride=int(sys.argv[1]); offset=int(sys.argv[2])
res_path=f'{MS}/results_v2_{stride}_{offset}.jsonl'
done=set()
if os.path.exists(res_path):
    for l in open(res_path): done.add(json.loads(l)['idx'])
donekeys=set()
import glob
for f in glob.glob(f'{MS}/results_*.jsonl'):
    for l in open(f):
        r=json.loads(l); donekeys.add((r['file'],r['line'],r['kind'],r['new']))
ORDER=['C01','C18','C09','C17','C16','C14','C19','C10','C07','C20','C08','C06','C05','C15','C11','C03','C02','C12','C04','C13']
env=dict(os.environ, VERIF_ROOT=f'{MS}/root', CARGO_NET_OFFLINE='true')
def sh(cmd, cwd=None, timeout=900):
    try:
        p=subprocess.run(cmd, shell=True, cwd=cwd, env=env, capture_output=True, text=True, timeout=timeout)
        return p.returncode, p.stdout+p.stderr
    except subprocess.TimeoutExpired as e:
        return 124, 'TIMEOUT'
order = list(range(offset, len(muts), stride))
if len(sys.argv) > 3 and sys.argv[3] == 'rev':
    order.reverse()
for idx in order:
    if idx in done: continue
    m=muts[idx]
    if (m['file'],m['line'],m['kind'],m['new'].strip()) in donekeys: continue
    path=f"{MS}/repo/{m['file']}"
    sh('git checkout -- src', cwd=f'{MS}/repo')
    lines=open(path).read().split('\n')
    if lines[m['line']-1]!=m['old']:
        rec={'idx':idx,'status':'stale'}
    else:
        lines[m['line']-1]=m['new']
        open(path,'w').write('\n'.join(lines))
        t0=time.time()
        rc,out=sh('cargo build --release --offline 2>&1 | tail -30', cwd=f'{MS}/harness', timeout=1200)
        if 'Finished' not in out:
            rec={'idx':idx,'status':'nocompile'}
        else:
            rec={'idx':idx,'status':'survived','ran':[]}
            for c in [c for c in ORDER if c in m['checks']]:
                rc,out=sh(f'{MS}/harness/target/release/mc check {c} quick', cwd=MS, timeout=600)
                v=re.findall(r'clause=(\S+)', out)
                rec['ran'].append(c)
                if rc==1 and 'VIOLATION' in out:
                    rec.update(status='killed', by=c, clause=v[:2]); break
                if rc!=0:
                    rec.update(status='machinery', by=c, rc=rc, tail=out[-300:]); break
            rec['secs']=round(time.time()-t0,1)
    rec.update(file=m['file'], line=m['line'], kind=m['kind'], new=m['new'].strip())
    open(res_path,'a').write(json.dumps(rec)+'\n')
    print(idx, rec['status'], rec.get('by',''), m['file'], m['line'], m['kind'], flush=True)
sh('git checkout -- src', cwd=f'{MS}/repo')
