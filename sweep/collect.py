#!/usr/bin/env python3
"""Merge the scratch result files of the sweep workers into sweep/results.jsonl.
usage: collect.py <scratch-dir> [<scratch-dir> ...]      (e.g. /tmp/ms0 /tmp/ms1 /tmp/ms2)
Pass 1 (results_*.jsonl: the checks mapped to the mutant's file, harness as of the start of the sweep) is overridden
by pass 2 (resweep_*.jsonl: ALL twenty quick checks, cheapest first, harness as of the start of pass 2) where a
mutant was run again; every record says which pass decided it."""
import json, glob, sys, collections
dirs = sys.argv[1:] or ['/tmp/ms0', '/tmp/ms1', '/tmp/ms2']
muts = json.load(open('/verif/sweep/mutants.json'))
keys = {(m['file'], m['line'], m['kind'], m['new'].strip()) for m in muts}
out = {}
# (results_prev.jsonl = results of the earlier, partial sweep that pass 1 did not repeat: "pass 0")
for pat, p in (('results_prev.jsonl', 0), ('results_[!p]*.jsonl', 1), ('resweep_*.jsonl', 2)):
    for d in dirs:
        for f in sorted(glob.glob(f'{d}/{pat}')):
            for l in open(f):
                r = json.loads(l)
                k = (r['file'], r['line'], r['kind'], r['new'])
                if k not in keys or r['status'] == 'stale':
                    continue
                r['pass'] = p
                out[k] = r
with open('/verif/sweep/results.jsonl', 'w') as f:
    for k in sorted(out):
        r = out[k]
        for x in ('idx', 'tail', 'pass2'):
            r.pop(x, None)
        f.write(json.dumps(r, sort_keys=True) + '\n')
c = collections.Counter((r['pass'], r['status']) for r in out.values())
print(len(out), 'of', len(muts), 'mutants have a result;', dict(sorted(c.items())))
