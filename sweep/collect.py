#!/usr/bin/env python3
"""Merge the scratch result files of the sweep workers into sweep/results.jsonl (only mutants of the current list)."""
import json, glob, sys
muts = json.load(open('/tmp/ms/mutants.json'))
keys = {(m['file'], m['line'], m['kind'], m['new'].strip()) for m in muts}
out = {}
for f in sorted(glob.glob('/tmp/ms/results_*.jsonl')) + sorted(glob.glob('/tmp/ms2/results_*.jsonl')):
    for l in open(f):
        r = json.loads(l)
        k = (r['file'], r['line'], r['kind'], r['new'])
        if k in keys and r['status'] != 'stale':
            out[k] = r
json.dump(muts, open('/verif/sweep/mutants.json', 'w'), indent=0)
with open('/verif/sweep/results.jsonl', 'w') as f:
    for k in sorted(out):
        r = out[k]; r.pop('idx', None); r.pop('tail', None)
        f.write(json.dumps(r, sort_keys=True) + '\n')
print(len(out), 'results')
