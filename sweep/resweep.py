#!/usr/bin/env python3
"""Second pass of the mutation sweep: every mutant that survived the checks mapped to its file (or ended as a machinery
exit) is run again with the current harness against ALL quick checks, cheapest first, until one reports a violation.
usage: MS=/tmp/msN python3 resweep.py <survivors.jsonl> <stride> <offset>"""
import json, subprocess, sys, os, time, re
MS = os.environ.get('MS', '/tmp/ms0')
surv = [json.loads(l) for l in open(sys.argv[1])]
stride = int(sys.argv[2]); offset = int(sys.argv[3])
res_path = f'{MS}/resweep_{stride}_{offset}.jsonl'
done = set()
if os.path.exists(res_path):
    for l in open(res_path):
        r = json.loads(l); done.add((r['file'], r['line'], r['kind'], r['new']))
ORDER = ['C18', 'C09', 'C17', 'C14', 'C10', 'C05', 'C07', 'C19', 'C16', 'C06', 'C08', 'C11', 'C15', 'C20', 'C12', 'C01', 'C04', 'C03', 'C13', 'C02']
env = dict(os.environ, VERIF_ROOT=f'{MS}/root', CARGO_NET_OFFLINE='true')
def sh(cmd, cwd=None, timeout=900):
    try:
        p = subprocess.run(cmd, shell=True, cwd=cwd, env=env, capture_output=True, text=True, timeout=timeout)
        return p.returncode, p.stdout + p.stderr
    except subprocess.TimeoutExpired:
        return 124, 'TIMEOUT'
muts = {(m['file'], m['line'], m['kind'], m['new'].strip()): m for m in json.load(open(f'{MS}/mutants.json'))}
for i in range(offset, len(surv), stride):
    r0 = surv[i]
    key = (r0['file'], r0['line'], r0['kind'], r0['new'])
    if key in done or key not in muts:
        continue
    m = muts[key]
    path = f"{MS}/repo/{m['file']}"
    sh('git checkout -- src', cwd=f'{MS}/repo')
    lines = open(path).read().split('\n')
    if lines[m['line'] - 1] != m['old']:
        rec = {'status': 'stale'}
    else:
        lines[m['line'] - 1] = m['new']
        open(path, 'w').write('\n'.join(lines))
        t0 = time.time()
        rc, out = sh('cargo build --release --offline 2>&1 | tail -30', cwd=f'{MS}/harness', timeout=1200)
        if 'Finished' not in out:
            rec = {'status': 'nocompile'}
        else:
            rec = {'status': 'survived', 'ran': []}
            for c in ORDER:
                rc, out = sh(f'{MS}/harness/target/release/mc check {c} quick', cwd=MS, timeout=900)
                v = re.findall(r'clause=(\S+)', out)
                rec['ran'].append(c)
                if rc == 1 and 'VIOLATION' in out:
                    rec.update(status='killed', by=c, clause=v[:2]); break
                if rc != 0:
                    rec.update(status='machinery', by=c, rc=rc, tail=out[-300:]); break
            rec['secs'] = round(time.time() - t0, 1)
    rec.update(file=m['file'], line=m['line'], kind=m['kind'], new=m['new'].strip(), pass2=True)
    open(res_path, 'a').write(json.dumps(rec) + '\n')
    print(i, rec['status'], rec.get('by', ''), m['file'], m['line'], m['kind'], flush=True)
sh('git checkout -- src', cwd=f'{MS}/repo')
