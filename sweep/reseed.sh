#!/bin/sh
# usage: sweep/reseed.sh <scratch-dir> [ID-prefix ...]
# Regression over the stored seeds: every seeded/<ID>*/patch.diff whose directory name starts with one of the given
# prefixes (default: all) is applied to a scratch worktree (created by setup_ms.sh), the harness copy there is rebuilt
# and the quick check of the seed's own property (and of the checks named in meta.json "result" as catching it) is run.
# One line per seed: <dir> <check> rc=<rc> <clauses>. /repo and /verif/evidence are not touched.
MS=$1; shift
ROOT=$(cd "$(dirname "$0")/.." && pwd)
[ -d "$MS/repo" ] || sh "$ROOT/sweep/setup_ms.sh" "$MS" >/dev/null 2>&1
rm -rf "$MS/harness/src"; cp -r "$ROOT/harness/src" "$MS/harness/"
export VERIF_ROOT="$MS/root" CARGO_NET_OFFLINE=true
for d in "$ROOT"/seeded/*/; do
  n=$(basename "$d"); id=${n%%_*}
  if [ $# -gt 0 ]; then ok=0; for p in "$@"; do case "$n" in "$p"*) ok=1;; esac; done; [ $ok = 1 ] || continue; fi
  git -C "$MS/repo" checkout -q -- . ; git -C "$MS/repo" apply "$d/patch.diff" 2>/dev/null || { echo "$n - patch does not apply (older tree)"; continue; }
  (cd "$MS/harness" && cargo build --release --offline >/dev/null 2>&1) || { echo "$n - build failed"; continue; }
  checks=$(python3 -c "
import json,re
m=json.load(open('$d/meta.json')); own='$id'
t=m.get('result_after_strengthening') or m.get('result','')
c=re.findall(r'(C[0-9][0-9])(?: /| and| quick|,)', t) if 'result_after_strengthening' in m else re.findall(r'caught by (C[0-9][0-9])', t)
c=[x for i,x in enumerate(c) if x not in c[:i]]
print(' '.join(c or [own]))")
  for c in $checks; do
    out=$("$MS/harness/target/release/mc" check $c quick 2>&1); rc=$?
    echo "$n $c rc=$rc $(echo "$out" | grep -o 'clause=[^ ]*' | sort | uniq -c | tr '\n' ' ')"
    [ $rc = 1 ] && break
  done
done
git -C "$MS/repo" checkout -q -- .
