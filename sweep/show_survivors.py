#!/usr/bin/env python3
"""Print every surviving mutant of results.jsonl with a few lines of context (aid for TRIAGE.md)."""
import json, sys
repo = sys.argv[1] if len(sys.argv) > 1 else '/repo'
res = sys.argv[2] if len(sys.argv) > 2 else '/verif/sweep/results.jsonl'
muts = {(m['file'], m['line'], m['kind'], m['new'].strip()): m for m in json.load(open('/verif/sweep/mutants.json'))}
cur = None
for l in open(res):
    r = json.loads(l)
    if r['status'] not in ('survived', 'machinery'):
        continue
    m = muts.get((r['file'], r['line'], r['kind'], r['new']))
    if r['file'] != cur:
        cur = r['file']
        print('=' * 30, cur)
        lines = open(f'{repo}/{cur}').read().split('\n')
    n = r['line']
    print(f"--- {r['file']}:{n} {r['kind']} [{r['status']}] ran={','.join(r.get('ran') or [])}")
    for i in range(max(1, n - 3), min(len(lines), n + 2) + 1):
        mark = '>>' if i == n else '  '
        print(f'{mark}{i:5d} {lines[i-1]}')
    print(f"   new: {r['new']}")
