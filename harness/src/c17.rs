//! c17 oracle (filled in later)
use crate::inbound::In;
use crate::simnet::Violation;
pub fn step_check(_s: &In) -> Result<(), Violation> { Ok(()) }
pub fn final_check(_s: &In) -> Result<(), Violation> { Ok(()) }

pub fn configs(_tier: crate::check::Tier) -> Vec<crate::inbound::InCfg> { Vec::new() }
