//! C17: MQTT 5 topic aliases always resolve to the right topic.
use std::collections::HashMap;
use std::time::Duration;

use crate::check::{Check, Tier};
use crate::inbound::*;
use crate::inbound_oracles::handler_records;
use crate::refmqtt::{PVal, Pkt, Ver};
use crate::simnet::{ExploreCfg, Violation};
use crate::world::*;

pub fn step_check(_s: &In) -> Result<(), Violation> {
    Ok(())
}

fn viol(s: &In, clause: &str, wit: String, msg: String) -> Violation {
    Violation::new(clause, format!("{}{} {}", s.cfg.ep.label(), if s.cfg.ep.router { "+router" } else { "" }, wit), format!("{msg}; {}", s.detail()))
}

pub const ALIAS_MAX: u16 = 2;

/// Variant for servers configured with handle_qos_after_disconnect = QoS 0 whose handler force-closes the
/// connection when it sees topic "a": publishes already buffered are still dispatched - QoS 0 ones reach the handler,
/// QoS 1 ones are dropped - and every one of them binds / rebinds its alias all the same.
fn final_check_after_close(s: &In) -> Result<(), Violation> {
    let hs = handler_records(s);
    let mut map: HashMap<u16, String> = HashMap::new();
    let mut closed = false;
    let mut hidx = 0usize;
    let mut missing_from: Option<usize> = None;
    for (i, snt) in s.sent.iter().enumerate() {
        let Some(Pkt::Publish { topic, props, payload, qos, .. }) = &snt.pkt else { continue };
        if snt.complete_step.is_none() {
            break;
        }
        let alias = props.iter().find_map(|(id, v)| if *id == 0x23 { if let PVal::U16(a) = v { Some(*a) } else { None } } else { None });
        let resolved = match alias {
            None => topic.clone(),
            Some(a) if topic.is_empty() => match map.get(&a) {
                Some(t) => t.clone(),
                // (the alphabet of this configuration only uses an alias after binding it; an unbound use ends the judgement)
                None => return Ok(()),
            },
            Some(a) => {
                map.insert(a, topic.clone());
                topic.clone()
            }
        };
        let delivered = hs.get(hidx).filter(|h| h.payload.first() == payload.first());
        match delivered {
            Some(h) => {
                if let Some(m) = missing_from {
                    return Err(viol(s, "after-close", "delivery order".into(), format!("PUBLISH #{i} reached the handler although PUBLISH #{m} before it did not")));
                }
                if closed && *qos > 0 {
                    return Err(viol(s, "after-close", "qos above handle_qos_after_disconnect delivered".into(), format!("PUBLISH #{i} (QoS {qos}) reached the handler after the connection was closed")));
                }
                if h.topic != resolved {
                    return Err(viol(s, "wrong-topic", format!("after close: alias {alias:?} topic {topic:?}"), format!("PUBLISH #{i} must resolve to {resolved:?} but the handler saw {:?}", h.topic)));
                }
                hidx += 1;
                if resolved == "a" {
                    closed = true;
                }
            }
            None => {
                if !closed {
                    return Err(viol(s, "not-delivered", "valid alias use".into(), format!("PUBLISH #{i} (resolves to {resolved:?}) never reached a handler although the connection was open")));
                }
                // after the close: QoS 1 is dropped by design; a QoS 0 publish may be missing only because it was
                // not buffered any more when the transport was terminated - then nothing later may arrive either
                if *qos == 0 && missing_from.is_none() {
                    missing_from = Some(i);
                }
            }
        }
    }
    if hidx != hs.len() {
        return Err(viol(s, "after-close", "unexpected handler invocation".into(), format!("{} handler invocations, {} explained by the packets sent", hs.len(), hidx)));
    }
    Ok(())
}

pub fn final_check(s: &In) -> Result<(), Violation> {
    if s.cfg.ep.close_on_a {
        return final_check_after_close(s);
    }
    let hs = handler_records(s);
    let mut map: HashMap<u16, String> = HashMap::new();
    let mut expect_stop = false;
    let mut hidx = 0usize;
    for (i, snt) in s.sent.iter().enumerate() {
        let Some(Pkt::Publish { topic, props, payload, .. }) = &snt.pkt else { continue };
        let alias = props.iter().find_map(|(id, v)| if *id == 0x23 { if let PVal::U16(a) = v { Some(*a) } else { None } } else { None });
        // reference resolution
        let resolved: Result<String, &'static str> = match alias {
            None => Ok(topic.clone()),
            Some(a) if topic.is_empty() => match map.get(&a) {
                Some(t) => Ok(t.clone()),
                None => Err("alias was never bound on this connection"),
            },
            Some(a) => {
                if a > s.cfg.ep.max_topic_alias && !map.contains_key(&a) {
                    Err("alias exceeds the advertised Topic Alias Maximum")
                } else {
                    map.insert(a, topic.clone());
                    Ok(topic.clone())
                }
            }
        };
        match resolved {
            Err(why) => {
                // must end the connection with a protocol error and never reach a handler
                if hs.iter().any(|h| h.payload.first() == payload.first() && !payload.is_empty()) {
                    return Err(viol(s, "bad-alias-delivered", why.to_string(), format!("PUBLISH #{i} ({why}) reached the handler")));
                }
                expect_stop = true;
                break;
            }
            Ok(t) => {
                let Some(h) = hs.get(hidx) else {
                    return Err(viol(s, "not-delivered", "valid alias use".into(), format!("PUBLISH #{i} (resolves to {t:?}) never reached a handler")));
                };
                hidx += 1;
                // router mode prefixes the topic with the resource handler's tag
                let (tag, seen) = match h.topic.split_once(':') {
                    Some((tg, rest)) if s.cfg.ep.router && tg.len() == 1 => (tg.to_string(), rest.to_string()),
                    _ => (String::new(), h.topic.clone()),
                };
                if seen != t || h.payload.first() != payload.first() {
                    return Err(viol(
                        s,
                        "wrong-topic",
                        format!("alias {alias:?} topic {topic:?}"),
                        format!("PUBLISH #{i} must resolve to {t:?} but the handler saw {seen:?}"),
                    ));
                }
                if s.cfg.ep.router {
                    // clients: topics without a resource go to the protocol service (no tag) - seeded change C17_r5
                    // was in the client's own router, which only the server-side check looked at before
                    let want = match t.as_str() {
                        "a" => "A",
                        "b" => "B",
                        _ if s.cfg.ep.role == Role::Server => "D",
                        _ => "",
                    };
                    if tag != want {
                        return Err(viol(s, "wrong-route", format!("alias {alias:?} topic {topic:?}"), format!("PUBLISH #{i} resolves to {t:?} and must be routed to {want} but went to {tag}")));
                    }
                }
            }
        }
    }
    let stops = s.conn.log.stops();
    if expect_stop {
        let observable = s.cfg.ep.role == Role::Server || !s.cfg.ep.router;
        if observable && !stops.iter().any(|x| x.starts_with("Stop:Proto")) {
            return Err(viol(s, "bad-alias-not-refused", "no protocol error".into(), format!("invalid alias use did not end the connection with a protocol error (stops {stops:?})")));
        }
        if !observable && !s.conn.done() {
            return Err(viol(s, "bad-alias-not-refused", "connection alive".into(), "invalid alias use did not end the connection".into()));
        }
    } else if !stops.is_empty() {
        return Err(viol(s, "valid-alias-refused", "unexpected stop".into(), format!("valid alias history ended the connection: {stops:?}")));
    }
    Ok(())
}

pub fn configs(tier: Tier) -> Vec<InCfg> {
    let mut v = Vec::new();
    for role in [Role::Server, Role::Client] {
        for router in [false, true] {
            let mut ep = EpCfg::new(Ver::V5, role);
            ep.router = router;
            ep.handler_auto = true;
            ep.max_topic_alias = ALIAS_MAX;
            let mut alphabet = Vec::new();
            for topic in [1u8, 2, 3] {
                for alias in [0u16, 1, 2, 3] {
                    if topic == 3 && alias == 0 {
                        continue; // empty topic without alias: not part of the statement
                    }
                    alphabet.push(T::Pub { qos: 0, id: 0, len: 1, topic, alias });
                }
            }
            if role == Role::Server && !router {
                // Topic Alias Maximum 0 (aliases not accepted at all): every alias exceeds it (seeded change C17_r7
                // treated 0 as 'no limit')
                let mut zep = ep.clone();
                zep.max_topic_alias = 0;
                v.push(InCfg {
                    ep: zep,
                    connect_props: vec![],
                    alphabet: alphabet.clone(),
                    prologue: vec![],
                    max_len: 2,
                    outcomes: vec![GateOutcome::Ok],
                    poutcomes: vec![GateOutcome::Ok],
                    cork: false,
                    judge: J_C17,
                    app_sends: vec![],
                    skip_connect: false,
                    known: vec![],
                    bp: 0,
                });
            }
            if role == Role::Server && !router {
                // the application closes the connection while more publishes are buffered: with
                // handle_qos_after_disconnect = QoS 0 they are still dispatched, QoS 1 ones are dropped - and must bind
                // their alias all the same (seeded change C17_r6). Packets are written in groups (cork / flush).
                let mut cep = ep.clone();
                cep.close_on_a = true;
                cep.handle_qos_after_disconnect = Some(0);
                let p = |qos: u8, topic: u8, alias: u16| T::Pub { qos, id: 0, len: 1, topic, alias };
                v.push(InCfg {
                    ep: cep,
                    connect_props: vec![],
                    alphabet: vec![p(0, 1, 1), p(0, 1, 0), p(1, 2, 1), p(1, 2, 2), p(0, 3, 1), p(0, 3, 2), p(0, 2, 0)],
                    prologue: vec![],
                    max_len: if tier == Tier::Quick { 4 } else { 5 },
                    outcomes: vec![GateOutcome::Ok],
                    poutcomes: vec![GateOutcome::Ok],
                    cork: true,
                    judge: J_C17,
                    app_sends: vec![],
                    skip_connect: false,
                    known: vec![],
                    bp: 0,
                });
            }
            v.push(InCfg {
                ep,
                connect_props: vec![],
                alphabet,
                prologue: vec![],
                max_len: if tier == Tier::Quick { 4 } else { 5 },
                outcomes: vec![GateOutcome::Ok],
                poutcomes: vec![GateOutcome::Ok],
                cork: false,
                judge: J_C17,
                app_sends: vec![],
                skip_connect: false,
                known: vec![],
                bp: 0,
            });
        }
    }
    v
}

pub fn run(tier: Tier) -> i32 {
    let mut ck = Check::new("C17", tier, Duration::from_secs(if tier == Tier::Quick { 50 } else { 1500 }));
    let ecfg = ExploreCfg { max_dev: if tier == Tier::Quick { 1 } else { 2 }, max_execs: if tier == Tier::Quick { 1_500_000 } else { 20_000_000 }, ..Default::default() };
    for (i, c) in configs(tier).iter().enumerate() {
        ck.explore::<In>("inbound", i, c, &ecfg);
    }
    // bindings do not leak between connections
    crate::c17x::two_connections(&mut ck, tier);
    ck.rule = "v5 server and v5 client, each with a plain handler and with the topic router (resources a, b + default): every sequence of up to 4 (quick) / 5 (thorough) QoS 0 publishes over topic in {a, b, empty} x alias in {none, 1, 2, 3} with Topic Alias Maximum 2 (server also with Topic Alias Maximum 0: sequences of 2); reference HashMap per connection decides the resolved topic, the resource handler, or that the connection must end with a protocol error; plus (server) a configuration with handle_qos_after_disconnect = QoS 0 whose handler force-closes the connection on topic a while more publishes are buffered (packets written in groups): QoS 1 publishes are dropped after the close but bind their alias all the same, QoS 0 ones are delivered under the resolved topic; plus a two-connection world where connection B binds the aliases connection A then uses unbound".into();
    ck.assumptions = vec!["FIFO task order of ntex-rt; nondeterminism = timing of environment events (DESIGN 2.4)".into()];
    ck.finish()
}
