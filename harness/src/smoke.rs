//! Engine self-check scenario: N gated QoS1 publishes to a server, all completion orders.
use std::future::Future;
use std::pin::Pin;
use std::time::{Duration, Instant};

use crate::refmqtt::{self as rf, Pkt, Ver};
use crate::simnet::*;
use crate::world::*;

pub struct Smoke {
    conn: Conn,
    n: usize,
    delivered: usize,
}

#[derive(Clone, Copy, Debug)]
pub enum Ev {
    Deliver,
    Complete(usize),
}

#[derive(Clone, Debug)]
pub struct Cfg {
    pub ver: Ver,
    pub n: usize,
}

impl Scenario for Smoke {
    type Cfg = Cfg;
    type Ev = Ev;
    fn build(cfg: &Cfg) -> Pin<Box<dyn Future<Output = Self>>> {
        let cfg = cfg.clone();
        Box::pin(async move {
            let ep = EpCfg::new(cfg.ver, Role::Server);
            let mut conn = if cfg.ver == Ver::V5 { start_v5_server(&ep).await } else { start_v3_server(&ep).await };
            conn.send(&rf::connect(cfg.ver, "c", 0, vec![]));
            Smoke { conn, n: cfg.n, delivered: 0 }
        })
    }
    fn enabled(&self, _q: bool) -> Vec<Ev> {
        let mut v = vec![];
        if self.delivered < self.n {
            v.push(Ev::Deliver);
        }
        for k in self.conn.gates.waiting() {
            v.push(Ev::Complete(k));
        }
        v
    }
    fn apply(&mut self, ev: Ev) {
        match ev {
            Ev::Deliver => {
                self.delivered += 1;
                let p = rf::publish(1, self.delivered as u16, "t", b"x");
                self.conn.send(&p);
            }
            Ev::Complete(k) => self.conn.gates.open(k, GateOutcome::Ok),
        }
    }
    fn check(&mut self, _q: bool) -> Result<(), Violation> {
        self.conn.pump();
        if let Some(e) = &self.conn.parse_err {
            return Err(Violation::new("wire", "unparseable", e.clone()));
        }
        Ok(())
    }
    fn finish(&mut self) -> Result<Outcome, Violation> {
        let acks: Vec<u16> = self
            .conn
            .out
            .iter()
            .filter_map(|(_, p)| if let Pkt::Ack { typ: 4, pid, .. } = p { Some(*pid) } else { None })
            .collect();
        let want: Vec<u16> = (1..=self.n as u16).collect();
        if acks != want {
            return Err(Violation::new("order", format!("{acks:?}"), format!("acks {acks:?} log {:?}", self.conn.log.render())));
        }
        Ok(Outcome { obs: format!("{:?}", self.conn.log.render()), nontrivial: true })
    }
}

pub fn run() {
    for ver in [Ver::V3, Ver::V5] {
        for n in 1..=4 {
            let t = Instant::now();
            let ecfg = ExploreCfg { max_dev: 1, ..Default::default() };
            let st = explore::<Smoke>(&Cfg { ver, n }, &ecfg, Instant::now() + Duration::from_secs(120));
            println!(
                "{ver:?} n={n}: execs={} points={} trans={} outcomes={} viol={:?} mach={:?} cap={:?} {:.2}s",
                st.execs,
                st.points,
                st.transitions,
                st.outcomes.len(),
                st.violation_classes,
                st.machinery_errors.first(),
                st.cap_hit,
                t.elapsed().as_secs_f64()
            );
            if let Some(s) = st.samples.first() {
                println!("  sample: {s:?}");
            }
            if let Some(v) = st.violations.first() {
                println!("  VIOL {:?}\n  {}", v.labels, v.log.join("\n  "));
            }
        }
    }
}
