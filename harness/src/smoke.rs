//! Engine self-check scenario: N gated QoS1 publishes to a server, all completion orders.
use std::future::Future;
use std::pin::Pin;
use std::time::{Duration, Instant};

use crate::refmqtt::{self as rf, Pkt, Ver};
use crate::simnet::*;
use crate::world::*;

pub struct Smoke {
    conn: Conn,
    n: usize,
    delivered: usize,
}

#[derive(Clone, Copy, Debug)]
pub enum Ev {
    Deliver,
    Complete(usize),
}

#[derive(Clone, Debug)]
pub struct Cfg {
    pub ver: Ver,
    pub n: usize,
}

impl Scenario for Smoke {
    type Cfg = Cfg;
    type Ev = Ev;
    fn build(cfg: &Cfg) -> Pin<Box<dyn Future<Output = Self>>> {
        let cfg = cfg.clone();
        Box::pin(async move {
            let ep = EpCfg::new(cfg.ver, Role::Server);
            let mut conn = if cfg.ver == Ver::V5 { start_v5_server(&ep).await } else { start_v3_server(&ep).await };
            conn.send(&rf::connect(cfg.ver, "c", 0, vec![]));
            Smoke { conn, n: cfg.n, delivered: 0 }
        })
    }
    fn enabled(&self, _q: bool) -> Vec<Ev> {
        let mut v = vec![];
        if self.delivered < self.n {
            v.push(Ev::Deliver);
        }
        for k in self.conn.gates.waiting() {
            v.push(Ev::Complete(k));
        }
        v
    }
    fn apply(&mut self, ev: Ev) {
        match ev {
            Ev::Deliver => {
                self.delivered += 1;
                let p = rf::publish(1, self.delivered as u16, "t", b"x");
                self.conn.send(&p);
            }
            Ev::Complete(k) => self.conn.gates.open(k, GateOutcome::Ok),
        }
    }
    fn check(&mut self, _q: bool) -> Result<(), Violation> {
        self.conn.pump();
        if let Some(e) = &self.conn.parse_err {
            return Err(Violation::new("wire", "unparseable", e.clone()));
        }
        Ok(())
    }
    fn finish(&mut self) -> Result<Outcome, Violation> {
        let acks: Vec<u16> = self
            .conn
            .out
            .iter()
            .filter_map(|(_, p)| if let Pkt::Ack { typ: 4, pid, .. } = p { Some(*pid) } else { None })
            .collect();
        let want: Vec<u16> = (1..=self.n as u16).collect();
        if acks != want {
            return Err(Violation::new("order", format!("{acks:?}"), format!("acks {acks:?} log {:?}", self.conn.log.render())));
        }
        Ok(Outcome { obs: format!("{:?}", self.conn.log.render()), nontrivial: true })
    }
}

pub fn run() {
    for ver in [Ver::V3, Ver::V5] {
        for n in 1..=4 {
            let t = Instant::now();
            let ecfg = ExploreCfg { max_dev: 1, ..Default::default() };
            let st = explore::<Smoke>(&Cfg { ver, n }, &ecfg, Instant::now() + Duration::from_secs(120));
            println!(
                "{ver:?} n={n}: execs={} points={} trans={} outcomes={} viol={:?} mach={:?} cap={:?} {:.2}s",
                st.execs,
                st.points,
                st.transitions,
                st.outcomes.len(),
                st.violation_classes,
                st.machinery_errors.first(),
                st.cap_hit,
                t.elapsed().as_secs_f64()
            );
            if let Some(s) = st.samples.first() {
                println!("  sample: {s:?}");
            }
            if let Some(v) = st.violations.first() {
                println!("  VIOL {:?}\n  {}", v.labels, v.log.join("\n  "));
            }
        }
    }
}

// ---------------------------------------------------------------------------
// self tests (run by bin/setup)

pub struct TimerWorld {
    ticks: u32,
    woke: std::rc::Rc<std::cell::RefCell<Vec<(u64, u128)>>>,
}

impl Scenario for TimerWorld {
    type Cfg = ();
    type Ev = u32;
    fn build(_: &()) -> Pin<Box<dyn Future<Output = Self>>> {
        Box::pin(async move {
            let woke = std::rc::Rc::new(std::cell::RefCell::new(Vec::new()));
            for d in [1000u64, 200, 3000] {
                let w = woke.clone();
                ntex_rt::spawn(async move {
                    ntex_util::time::sleep(ntex_util::time::Millis(d as u32)).await;
                    w.borrow_mut().push((d, ntex_util::time::vclock::elapsed().as_millis()));
                });
            }
            TimerWorld { ticks: 0, woke }
        })
    }
    fn enabled(&self, q: bool) -> Vec<u32> {
        if q && self.ticks < 400 { vec![10] } else { vec![] }
    }
    fn apply(&mut self, ms: u32) {
        self.ticks += 1;
        ntex_util::time::vclock::advance(Duration::from_millis(ms as u64));
    }
    fn check(&mut self, _q: bool) -> Result<(), Violation> {
        Ok(())
    }
    fn finish(&mut self) -> Result<Outcome, Violation> {
        Ok(Outcome { obs: format!("{:?}", self.woke.borrow()), nontrivial: true })
    }
}

pub fn selftest() -> i32 {
    // 1. virtual clock: sleeps complete in deadline order, each within [d, d + 40ms] of virtual time
    let rec = run_one::<TimerWorld>(&(), &[], 100_000);
    let obs = match &rec.verdict {
        Some(Verdict::Ok(o)) => o.obs.clone(),
        v => {
            eprintln!("selftest: timer world failed: {v:?}");
            return 2;
        }
    };
    let wall_ok = obs.starts_with("[(200, 2") && obs.contains("(1000, 10") && obs.contains("(3000, 30");
    println!("selftest vclock: {obs}");
    if !wall_ok {
        eprintln!("selftest: virtual clock wake-up times out of tolerance");
        return 2;
    }
    // 2. replay determinism: same schedule twice -> identical observation log
    for ver in [Ver::V3, Ver::V5] {
        let cfg = Cfg { ver, n: 3 };
        let a = run_one::<Smoke>(&cfg, &[0, 1, 0, 0, 2], 20_000);
        let b = run_one::<Smoke>(&cfg, &[0, 1, 0, 0, 2], 20_000);
        if a.log != b.log || a.points != b.points || a.polls != b.polls {
            eprintln!("selftest: replay of one schedule diverged ({ver:?})");
            return 2;
        }
        println!("selftest determinism {ver:?}: polls={} points={} ok", a.polls, a.points.len());
    }
    // 3. exploration counts are reproducible
    let ecfg = ExploreCfg { max_dev: 1, ..Default::default() };
    let s1 = explore::<Smoke>(&Cfg { ver: Ver::V5, n: 3 }, &ecfg, Instant::now() + Duration::from_secs(60));
    let s2 = explore::<Smoke>(&Cfg { ver: Ver::V5, n: 3 }, &ecfg, Instant::now() + Duration::from_secs(60));
    if s1.execs != s2.execs || s1.points != s2.points || s1.transitions != s2.transitions {
        eprintln!("selftest: two explorations differ: {} vs {}", s1.execs, s2.execs);
        return 2;
    }
    println!("selftest explore: execs={} points={} transitions={} (twice identical)", s1.execs, s1.points, s1.transitions);
    0
}

pub fn compare_modes() {
    for n in [2usize, 3] {
        for reuse in [false, true] {
            let ecfg = ExploreCfg { max_dev: 1, reuse_threads: reuse, ..Default::default() };
            let s = explore::<Smoke>(&Cfg { ver: Ver::V5, n }, &ecfg, Instant::now() + Duration::from_secs(60));
            println!("n={n} reuse={reuse}: execs={} points={} transitions={} outcomes={} iso={:?}", s.execs, s.points, s.transitions, s.outcomes.len(), s.isolation);
        }
    }
}
