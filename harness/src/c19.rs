//! C19: handshake gate, version routing, and the negotiated limits are the ones enforced.
//!
//! Three scenario families, all driven by the explorer:
//!  * `Gate`: every first packet x handshake outcome x follow-up traffic at every moment;
//!  * `Frag`: the combined server fed CONNECT (level 4 / 5) in every fragmentation of its first 16 bytes;
//!  * `Lim`: limit plumbing - configured vs CONNECT-requested vs handshake-overridden values, each
//!    limit probed after the handshake.
use std::future::Future;
use std::pin::Pin;
use std::time::Duration;

use crate::check::{Check, Tier};
use crate::refmqtt::{self as rf, PVal, Pkt, Ver};
use crate::simnet::{ExploreCfg, Outcome, Scenario, Violation};
use crate::world::*;

#[derive(Clone, Copy, Debug, PartialEq, Eq)]
pub enum Kind {
    V3,
    V5,
    Both,
}

fn start(kind: Kind, ep: &EpCfg) -> Pin<Box<dyn Future<Output = Conn>>> {
    let ep = ep.clone();
    Box::pin(async move {
        match kind {
            Kind::Both => start_combined_server(&ep).await,
            _ => start_endpoint(&ep, vec![], false).await,
        }
    })
}

fn handlers(c: &Conn) -> usize {
    c.log.count(|r| matches!(r, Rec::HEnter { .. } | Rec::PEnter { .. }))
}
fn accepted(c: &Conn) -> bool {
    c.log.count(|r| matches!(r, Rec::Handshake(s) if s == "accepted")) > 0
}
fn hs_called(c: &Conn) -> Option<bool> {
    // Some(true) = the v5 handshake service, Some(false) = v3
    let mut r = None;
    for (_, x) in c.log.snapshot() {
        if let Rec::Handshake(s) = x {
            if s.starts_with("connect ") {
                r = Some(s.contains(" rm="));
            }
        }
    }
    r
}

// ---------------------------------------------------------------------------------------------
// Gate

/// what the first packet is for a given server
#[derive(Clone, Copy, Debug, PartialEq, Eq)]
enum Class {
    Connect3,
    Connect5,
    Invalid,
}

fn connect_bytes(name: &[u8], level: u8, flags_reserved: bool) -> Vec<u8> {
    // hand-made so that invalid combinations can be expressed
    let mut v = vec![];
    v.extend_from_slice(&(name.len() as u16).to_be_bytes());
    v.extend_from_slice(name);
    v.push(level);
    v.push(0x02 | u8::from(flags_reserved)); // clean session/start (+ reserved bit)
    v.extend_from_slice(&[0, 0]); // keep-alive 0
    if level == 5 {
        v.push(0); // properties
    }
    v.extend_from_slice(&[0, 1, b'c']);
    let mut out = vec![0x10, v.len() as u8];
    out.extend(v);
    out
}

fn firsts() -> Vec<(&'static str, Vec<u8>, Class)> {
    let mut v: Vec<(&'static str, Vec<u8>, Class)> = vec![
        ("connect-v4", connect_bytes(b"MQTT", 4, false), Class::Connect3),
        ("connect-v5", connect_bytes(b"MQTT", 5, false), Class::Connect5),
        ("connect-level3", connect_bytes(b"MQTT", 3, false), Class::Invalid),
        ("connect-level6", connect_bytes(b"MQTT", 6, false), Class::Invalid),
        ("connect-MQIsdp", connect_bytes(b"MQIsdp", 3, false), Class::Invalid),
        ("connect-MQTX-v4", connect_bytes(b"MQTX", 4, false), Class::Invalid),
        ("connect-MQTX-v5", connect_bytes(b"MQTX", 5, false), Class::Invalid),
        ("connect-v4-reserved", connect_bytes(b"MQTT", 4, true), Class::Invalid),
        ("connect-v5-reserved", connect_bytes(b"MQTT", 5, true), Class::Invalid),
    ];
    for ver in [Ver::V3, Ver::V5] {
        let tag = |s: &'static str| s;
        let l: Vec<(&'static str, Pkt)> = vec![
            (tag("connack"), Pkt::ConnAck { session_present: false, code: 0, props: vec![] }),
            (tag("publish-q0"), rf::publish(0, 0, "t", b"early")),
            (tag("publish-q1"), rf::publish(1, 1, "t", b"early")),
            (tag("puback"), rf::ack(4, 1)),
            (tag("pubrec"), rf::ack(5, 1)),
            (tag("pubrel"), rf::ack(6, 1)),
            (tag("pubcomp"), rf::ack(7, 1)),
            (tag("subscribe"), Pkt::Subscribe { pid: 1, props: vec![], filters: vec![("f".into(), 0)] }),
            (tag("suback"), Pkt::SubAck { pid: 1, props: vec![], codes: vec![0] }),
            (tag("unsubscribe"), Pkt::Unsubscribe { pid: 1, props: vec![], filters: vec!["f".into()] }),
            (tag("unsuback"), Pkt::UnsubAck { pid: 1, props: vec![], codes: vec![0] }),
            (tag("pingreq"), Pkt::PingReq),
            (tag("pingresp"), Pkt::PingResp),
            (tag("disconnect"), Pkt::Disconnect { code: if ver == Ver::V5 { Some(0) } else { None }, props: None }),
        ];
        for (n, p) in l {
            v.push((n, rf::encode(ver, &p), Class::Invalid));
        }
    }
    v.push(("auth", rf::encode(Ver::V5, &Pkt::Auth { code: Some(0), props: None }), Class::Invalid));
    v.push(("type0", vec![0x00, 0x00], Class::Invalid));
    v.push(("type15-v3", vec![0xF0, 0x00], Class::Invalid));
    v
}

#[derive(Clone, Debug)]
pub struct GateCfg {
    pub kind: Kind,
    pub ep: EpCfg,
    pub max_follow: usize,
}

#[derive(Clone, Copy, Debug, PartialEq, Eq)]
pub enum GEv {
    First(u8),
    /// PUBLISH q1 with payload "f<n>"
    Publish,
    Subscribe,
    HsOpen,
}

pub struct Gate {
    cfg: GateCfg,
    conn: Conn,
    firsts: Vec<(&'static str, Vec<u8>, Class)>,
    first: Option<usize>,
    follow: Vec<GEv>,
    hs_opened: bool,
    ver_of_stream: Ver,
}

impl Gate {
    fn wit(&self, what: &str) -> String {
        format!("{:?} hs={:?} first={} {what}", self.cfg.kind, self.cfg.ep.hs, self.first.map_or("-", |i| self.firsts[i].0))
    }
    fn detail(&self) -> String {
        format!("follow={:?} hs_opened={} wire_out={} log={:?}", self.follow, self.hs_opened, rf::hex(&self.conn.wire), self.conn.log.render())
    }
    /// is the first packet a CONNECT this server accepts, and which version does the stream speak then
    fn valid(&self) -> Option<Ver> {
        let c = self.firsts[self.first?].2;
        match (self.cfg.kind, c) {
            (Kind::V3 | Kind::Both, Class::Connect3) => Some(Ver::V3),
            (Kind::V5 | Kind::Both, Class::Connect5) => Some(Ver::V5),
            _ => None,
        }
    }
}

impl Scenario for Gate {
    type Cfg = GateCfg;
    type Ev = GEv;

    fn build(cfg: &GateCfg) -> Pin<Box<dyn Future<Output = Self>>> {
        let cfg = cfg.clone();
        Box::pin(async move {
            let mut conn = start(cfg.kind, &cfg.ep).await;
            conn.auto_pump = true;
            Gate { conn, firsts: firsts(), first: None, follow: vec![], hs_opened: false, ver_of_stream: cfg.ep.ver, cfg }
        })
    }

    fn enabled(&self, q: bool) -> Vec<GEv> {
        if self.first.is_none() {
            return if q { (0..self.firsts.len()).map(|i| GEv::First(i as u8)).collect() } else { vec![] };
        }
        let mut v = vec![];
        if self.conn.peer_closed {
            return v;
        }
        if self.follow.len() < self.cfg.max_follow {
            v.push(GEv::Publish);
            if self.cfg.kind != Kind::V5 || true {
                v.push(GEv::Subscribe);
            }
        }
        if !self.conn.hgates.waiting().is_empty() {
            v.push(GEv::HsOpen);
        }
        v
    }

    fn apply(&mut self, ev: GEv) {
        match ev {
            GEv::First(i) => {
                self.first = Some(i as usize);
                if let Some(v) = self.valid() {
                    self.ver_of_stream = v;
                } else if self.firsts[i as usize].2 == Class::Connect5 {
                    self.ver_of_stream = Ver::V5;
                } else if self.firsts[i as usize].2 == Class::Connect3 {
                    self.ver_of_stream = Ver::V3;
                }
                let b = self.firsts[i as usize].1.clone();
                self.conn.send_raw(&b);
            }
            GEv::Publish => {
                let n = self.follow.len();
                self.follow.push(ev);
                let p = rf::publish(1, 10 + n as u16, "t", format!("f{n}").as_bytes());
                let b = rf::encode(self.ver_of_stream, &p);
                self.conn.send_raw(&b);
            }
            GEv::Subscribe => {
                let n = self.follow.len();
                self.follow.push(ev);
                let p = Pkt::Subscribe { pid: 10 + n as u16, props: vec![], filters: vec![(format!("f{n}"), 0)] };
                let b = rf::encode(self.ver_of_stream, &p);
                self.conn.send_raw(&b);
            }
            GEv::HsOpen => {
                self.hs_opened = true;
                let k = self.conn.hgates.waiting()[0];
                self.conn.hgates.open(k, GateOutcome::Ok);
            }
        }
    }

    fn check(&mut self, _q: bool) -> Result<(), Violation> {
        self.conn.pump();
        if handlers(&self.conn) > 0 && !accepted(&self.conn) {
            return Err(Violation::new("handler-before-accept", self.wit(""), format!("a publish / protocol handler ran before a CONNECT was accepted: {}", self.detail())));
        }
        // the acceptance record must precede every handler record
        let log = self.conn.log.snapshot();
        let acc = log.iter().position(|(_, r)| matches!(r, Rec::Handshake(s) if s == "accepted"));
        let h = log.iter().position(|(_, r)| matches!(r, Rec::HEnter { .. } | Rec::PEnter { .. }));
        if let (Some(a), Some(h)) = (acc, h) {
            if h < a {
                return Err(Violation::new("handler-before-accept", self.wit("order"), format!("handler record before the acceptance record: {}", self.detail())));
            }
        }
        Ok(())
    }

    fn drain(&mut self) -> bool {
        // let the virtual clock run so that shutdown timers fire
        false
    }

    fn finish(&mut self) -> Result<Outcome, Violation> {
        self.check(true)?;
        let Some(fi) = self.first else {
            return Ok(Outcome { obs: "nothing sent".into(), nontrivial: false });
        };
        // parse the output with the version the stream speaks
        let wire = self.conn.wire.clone();
        let out = rf::parse_stream(self.ver_of_stream, &wire).map_err(|e| format!("{:?}", e.2));
        let first_out = out.as_ref().ok().and_then(|v| v.first().cloned());
        let hs = self.cfg.ep.hs;
        match self.valid() {
            None => {
                if hs_called(&self.conn).is_some() {
                    return Err(Violation::new("handshake-without-valid-connect", self.wit(""), format!("the handshake service was called for a first packet that is not an acceptable CONNECT: {}", self.detail())));
                }
                if handlers(&self.conn) > 0 {
                    return Err(Violation::new("handler-before-accept", self.wit(""), self.detail()));
                }
                if !self.conn.done() {
                    return Err(Violation::new("connection-kept", self.wit(""), format!("first packet {} is not an acceptable CONNECT but the connection is still up: {}", self.firsts[fi].0, self.detail())));
                }
                // nothing but (optionally) one refusing CONNACK may have been written
                if let Ok(v) = &out {
                    let bad = v.iter().any(|p| !matches!(p, Pkt::ConnAck { code, .. } if *code != 0)) || v.len() > 1;
                    if bad {
                        return Err(Violation::new("output-without-connect", self.wit(""), format!("packets were written although no CONNECT was accepted: {}", self.detail())));
                    }
                }
            }
            Some(ver) => {
                // routed to the right service
                let want_v5 = ver == Ver::V5;
                match hs_called(&self.conn) {
                    Some(v5) if v5 != want_v5 => {
                        return Err(Violation::new("wrong-version-service", self.wit(""), format!("CONNECT level {} was handed to the {} service: {}", if want_v5 { 5 } else { 4 }, if v5 { "v5" } else { "v3" }, self.detail())));
                    }
                    None => {
                        return Err(Violation::new("connect-not-handed-over", self.wit(""), format!("a valid CONNECT never reached the handshake service: {}", self.detail())));
                    }
                    _ => {}
                }
                let opened = hs != HsMode::Gated || self.hs_opened;
                match hs {
                    HsMode::Refuse | HsMode::Error => {
                        if accepted(&self.conn) || handlers(&self.conn) > 0 {
                            return Err(Violation::new("handler-before-accept", self.wit("refused"), self.detail()));
                        }
                        if !self.conn.done() {
                            return Err(Violation::new("connection-kept", self.wit("refused"), format!("handshake {hs:?} but the connection is still up: {}", self.detail())));
                        }
                        if hs == HsMode::Refuse && !matches!(first_out, Some(Pkt::ConnAck { code, .. }) if code != 0) {
                            return Err(Violation::new("refusal-without-connack", self.wit(""), format!("the application refused the CONNECT but no refusing CONNACK was written: {}", self.detail())));
                        }
                        if out.as_ref().is_ok_and(|v| v.len() > 1) || (hs == HsMode::Error && out.as_ref().is_ok_and(|v| v.iter().any(|p| matches!(p, Pkt::ConnAck { code: 0, .. })))) {
                            return Err(Violation::new("output-without-connect", self.wit("refused"), self.detail()));
                        }
                    }
                    HsMode::Accept | HsMode::Gated => {
                        if !opened {
                            if handlers(&self.conn) > 0 || !wire.is_empty() {
                                return Err(Violation::new("handler-before-accept", self.wit("pending handshake"), self.detail()));
                            }
                        } else {
                            if !accepted(&self.conn) {
                                return Err(Violation::new("valid-connect-not-accepted", self.wit(""), self.detail()));
                            }
                            if !matches!(first_out, Some(Pkt::ConnAck { code: 0, .. })) {
                                return Err(Violation::new("first-output-not-connack", self.wit(""), format!("first packet written is {first_out:?}: {}", self.detail())));
                            }
                            // every follow-up is handled exactly once, in order, intact
                            let log = self.conn.log.snapshot();
                            let mut seen: Vec<String> = vec![];
                            for (_, r) in &log {
                                match r {
                                    Rec::HPayload { bytes, .. } => seen.push(format!("P:{}", String::from_utf8_lossy(bytes))),
                                    Rec::PEnter { kind, .. } if kind.starts_with("sub:") => seen.push(format!("S:{}", &kind[4..])),
                                    _ => {}
                                }
                            }
                            let want: Vec<String> = self
                                .follow
                                .iter()
                                .enumerate()
                                .map(|(n, e)| if *e == GEv::Publish { format!("P:f{n}") } else { format!("S:f{n}") })
                                .collect();
                            // publishes and subscribes run in different services: compare per kind
                            for k in ["P:", "S:"] {
                                let s: Vec<&String> = seen.iter().filter(|x| x.starts_with(k)).collect();
                                let w: Vec<&String> = want.iter().filter(|x| x.starts_with(k)).collect();
                                if s != w {
                                    return Err(Violation::new(
                                        "follow-up-lost",
                                        self.wit(if self.hs_opened { "sent during the handshake" } else { "" }),
                                        format!("packets after CONNECT: sent {want:?}, handled {seen:?}: {}", self.detail()),
                                    ));
                                }
                            }
                        }
                    }
                }
            }
        }
        let obs = format!("{} {:?} opened={} out={}", self.firsts[fi].0, self.follow, self.hs_opened, wire.len());
        Ok(Outcome { obs, nontrivial: true })
    }
}

// ---------------------------------------------------------------------------------------------
// Frag

#[derive(Clone, Debug)]
pub struct FragCfg {
    pub ep: EpCfg,
    pub level: u8,
    pub head: usize,
    /// bytes of the stream already written when the server starts
    pub prefill: usize,
}

#[derive(Clone, Copy, Debug, PartialEq, Eq)]
pub enum FEv {
    /// deliver the next k bytes of the head
    Cut(u8),
    /// deliver everything that is left (rest of CONNECT + follow-up packets)
    Rest,
}

pub struct Frag {
    cfg: FragCfg,
    conn: Conn,
    stream: Vec<u8>,
    pos: usize,
    cuts: Vec<u8>,
    rest_sent: bool,
}

impl Scenario for Frag {
    type Cfg = FragCfg;
    type Ev = FEv;

    fn build(cfg: &FragCfg) -> Pin<Box<dyn Future<Output = Self>>> {
        let cfg = cfg.clone();
        Box::pin(async move {
            let ver = if cfg.level == 5 { Ver::V5 } else { Ver::V3 };
            let mut stream = rf::encode(ver, &rf::connect(ver, "frag-client", 0, vec![]));
            let connect_len = stream.len();
            stream.extend(rf::encode(ver, &rf::publish(1, 7, "t", b"after-connect")));
            stream.extend(rf::encode(ver, &Pkt::Subscribe { pid: 8, props: vec![], filters: vec![("flt".into(), 0)] }));
            stream.extend(rf::encode(ver, &Pkt::PingReq));
            let pre = cfg.prefill.min(connect_len);
            let mut conn = start_combined_server_prefilled(&cfg.ep, &stream[..pre]).await;
            conn.sent.extend_from_slice(&stream[..pre]);
            Frag { cfg, conn, stream, pos: pre, cuts: vec![], rest_sent: false }
        })
    }

    fn enabled(&self, q: bool) -> Vec<FEv> {
        if !q || self.rest_sent {
            return vec![];
        }
        let left = self.cfg.head.saturating_sub(self.pos);
        if left == 0 {
            return vec![FEv::Rest];
        }
        (1..=left as u8).map(FEv::Cut).collect()
    }

    fn apply(&mut self, ev: FEv) {
        match ev {
            FEv::Cut(k) => {
                let b = self.stream[self.pos..self.pos + k as usize].to_vec();
                self.pos += k as usize;
                self.cuts.push(k);
                self.conn.send_raw(&b);
            }
            FEv::Rest => {
                let b = self.stream[self.pos..].to_vec();
                self.pos = self.stream.len();
                self.rest_sent = true;
                self.conn.send_raw(&b);
            }
        }
    }

    fn check(&mut self, _q: bool) -> Result<(), Violation> {
        self.conn.pump();
        if handlers(&self.conn) > 0 && !accepted(&self.conn) {
            return Err(Violation::new("handler-before-accept", format!("combined level {}", self.cfg.level), format!("cuts {:?}: {:?}", self.cuts, self.conn.log.render())));
        }
        Ok(())
    }

    fn drain(&mut self) -> bool {
        false
    }

    fn finish(&mut self) -> Result<Outcome, Violation> {
        self.check(true)?;
        let wit = format!("combined level {}", self.cfg.level);
        let detail = format!("cuts {:?} wire_out={:?} log={:?}", self.cuts, self.conn.out_short(), self.conn.log.render());
        if !self.rest_sent {
            return Ok(Outcome { obs: "incomplete".into(), nontrivial: false });
        }
        match hs_called(&self.conn) {
            Some(v5) if v5 == (self.cfg.level == 5) => {}
            Some(_) => return Err(Violation::new("wrong-version-service", wit, detail)),
            None => return Err(Violation::new("connect-not-handed-over", wit, detail)),
        }
        if !accepted(&self.conn) {
            return Err(Violation::new("valid-connect-not-accepted", wit, detail));
        }
        let log = self.conn.log.snapshot();
        let got_pub = log.iter().any(|(_, r)| matches!(r, Rec::HPayload { bytes, .. } if bytes == b"after-connect"));
        let got_sub = log.iter().any(|(_, r)| matches!(r, Rec::PEnter { kind, .. } if kind == "sub:flt"));
        let out = &self.conn.out;
        let pingresp = out.iter().any(|(_, p)| matches!(p, Pkt::PingResp));
        let connack_first = matches!(out.first(), Some((_, Pkt::ConnAck { code: 0, .. })));
        if !(got_pub && got_sub && pingresp && connack_first) || self.conn.parse_err.is_some() {
            return Err(Violation::new(
                "bytes-lost",
                wit,
                format!("publish handled {got_pub}, subscribe handled {got_sub}, PINGRESP {pingresp}, CONNACK first {connack_first}, parse error {:?}: {detail}", self.conn.parse_err),
            ));
        }
        Ok(Outcome { obs: format!("{:?}", self.cuts), nontrivial: true })
    }
}

// ---------------------------------------------------------------------------------------------
// Lim

#[derive(Clone, Copy, Debug, PartialEq, Eq)]
pub enum Probe {
    ConnAck,
    SizeOk,
    SizeOver,
    QosOk,
    QosOver,
    AliasOk,
    AliasOver,
    RecvOk,
    RecvOver,
    Window,
    KeepAlive,
    /// client: the application sends a packet over the server's maximum packet size
    OutSizeOver,
    OutSizeOk,
}

#[derive(Clone, Debug)]
pub struct LimCfg {
    pub ep: EpCfg,
    /// v5 server: CONNECT properties the harness sends (peer's Receive Maximum 0x21, ...)
    pub connect_props: rf::Props,
    pub probes: Vec<Probe>,
}

#[derive(Clone, Copy, Debug, PartialEq, Eq)]
pub enum LEv {
    Probe(Probe),
    /// forced continuation steps of a probe
    Step,
}

pub struct Lim {
    cfg: LimCfg,
    conn: Conn,
    probe: Option<Probe>,
    steps: u32,
    credit: Option<usize>,
    t_half: u32,
    long_ms: u64,
    end_at: Option<u32>,
    send_result: Option<String>,
    pings: Vec<u32>,
}

#[derive(Debug, Clone)]
struct Eff {
    max_qos: u8,
    size: u32,
    alias: u16,
    recv: u16,
    window: usize,
    ka_timeout: u32,
    ka_client: u16,
    /// client: the server's maximum packet size (limits what the client may send)
    out_size: u32,
}

fn eff(c: &LimCfg) -> Eff {
    let ep = &c.ep;
    let peer_rm = c.connect_props.iter().find_map(|(id, v)| if let (0x21, PVal::U16(x)) = (id, v) { Some(*x as usize) } else { None });
    let k = ep.client_keepalive;
    match (ep.ver, ep.role) {
        (Ver::V5, Role::Server) => Eff {
            max_qos: ep.hs_max_qos.unwrap_or(ep.max_qos),
            size: ep.hs_max_packet_size.unwrap_or(ep.max_size),
            alias: ep.hs_topic_alias_max.unwrap_or(ep.max_topic_alias),
            recv: ep.hs_receive_max.unwrap_or(if ep.max_receive == 0 { 65535 } else { ep.max_receive }),
            window: {
                let w = ep.hs_max_send.filter(|v| *v != 0).unwrap_or(ep.max_send) as usize;
                peer_rm.map_or(w, |p| w.min(p))
            },
            ka_timeout: ep.hs_keepalive.map_or(if k == 0 { 30 } else { k as u32 + k as u32 / 2 }, |v| v as u32),
            ka_client: k,
            out_size: 0,
        },
        (Ver::V3, Role::Server) => Eff {
            max_qos: ep.max_qos,
            size: ep.hs_max_packet_size.unwrap_or(ep.max_size),
            alias: 0,
            recv: 0,
            window: ep.hs_max_send.filter(|v| *v != 0).unwrap_or(ep.max_send) as usize,
            ka_timeout: ep.hs_keepalive.map_or(if k == 0 { 30 } else { k as u32 + k as u32 / 2 }, |v| v as u32),
            ka_client: k,
            out_size: 0,
        },
        (Ver::V5, Role::Client) => {
            let p = &ep.client_connack_props;
            let get16 = |id: u8| p.iter().find_map(|(i, v)| if let (true, PVal::U16(x)) = (*i == id, v) { Some(*x) } else { None });
            let get32 = |id: u8| p.iter().find_map(|(i, v)| if let (true, PVal::U32(x)) = (*i == id, v) { Some(*x) } else { None });
            Eff {
                max_qos: 2,
                size: ep.max_size,
                out_size: get32(0x27).unwrap_or(0),
                alias: ep.max_topic_alias,
                recv: if ep.max_receive == 0 { 65535 } else { ep.max_receive },
                window: (ep.max_send as usize).min(get16(0x21).unwrap_or(65535) as usize),
                ka_timeout: 0,
                ka_client: get16(0x13).unwrap_or(k),
            }
        }
        (Ver::V3, Role::Client) => Eff { max_qos: 2, size: ep.max_size, alias: 0, recv: 0, window: ep.max_send as usize, ka_timeout: 0, ka_client: k, out_size: 0 },
    }
}

impl Lim {
    fn wit(&self, what: &str) -> String {
        format!("{} {what}", self.cfg.ep.label())
    }
    fn detail(&self) -> String {
        let e = &self.cfg.ep;
        format!(
            "probe={:?} expected={:?} configured(max_qos={} max_size={} max_receive={} alias={} max_send={} keep-alive={}) handshake(qos={:?} size={:?} recv={:?} alias={:?} send={:?} ka={:?}) connect_props={:?} connack_props={:?} credit={:?} end_at={:?} send_result={:?} pings={:?} wire_out={:?} stops={:?}",
            self.probe,
            eff(&self.cfg),
            e.max_qos,
            e.max_size,
            e.max_receive,
            e.max_topic_alias,
            e.max_send,
            e.client_keepalive,
            e.hs_max_qos,
            e.hs_max_packet_size,
            e.hs_receive_max,
            e.hs_topic_alias_max,
            e.hs_max_send,
            e.hs_keepalive,
            self.cfg.connect_props,
            e.client_connack_props,
            self.credit,
            self.end_at,
            self.send_result,
            self.pings,
            self.conn.out_short(),
            self.conn.log.stops()
        )
    }
    fn ended_with(&self, code: u8) -> bool {
        self.conn.out.iter().any(|(_, p)| matches!(p, Pkt::Disconnect { code: Some(c), .. } if *c == code))
    }
}

/// keep-alive timeouts above this many seconds are probed on a 1 s grid instead of the 100 ms one
const LONG_KA: u32 = 100;

fn late(t: u32) -> u32 {
    if t > LONG_KA {
        // 1.05 s grid, one tick per step: the timer runs up to 5% (+ a few ticks) behind the clock
        return 2 * (t + t / 18 + 4);
    }
    ((t + 1) * 26).div_ceil(10) + 1
}

impl Scenario for Lim {
    type Cfg = LimCfg;
    type Ev = LEv;

    fn build(cfg: &LimCfg) -> Pin<Box<dyn Future<Output = Self>>> {
        let cfg = cfg.clone();
        Box::pin(async move {
            let conn = start_endpoint(&cfg.ep, cfg.connect_props.clone(), true).await;
            Lim { cfg, conn, probe: None, steps: 0, credit: None, t_half: 0, long_ms: 0, end_at: None, send_result: None, pings: vec![] }
        })
    }

    fn enabled(&self, q: bool) -> Vec<LEv> {
        if !q {
            return vec![];
        }
        let ready = self.conn.sink.borrow().is_some() && (self.cfg.ep.role == Role::Client || accepted(&self.conn));
        match self.probe {
            None if ready => self.cfg.probes.iter().map(|p| LEv::Probe(*p)).collect(),
            None => vec![],
            Some(_) if self.steps > 0 => vec![LEv::Step],
            Some(_) => vec![],
        }
    }

    fn apply(&mut self, ev: LEv) {
        let e = eff(&self.cfg);
        let ver = self.cfg.ep.ver;
        match ev {
            LEv::Probe(p) => {
                self.probe = Some(p);
                match p {
                    Probe::ConnAck => {}
                    Probe::SizeOk | Probe::SizeOver => {
                        let n = if p == Probe::SizeOk { (e.size / 2).max(1) } else { e.size + e.size / 2 };
                        self.conn.send(&rf::publish(0, 0, "t", &vec![b'z'; n as usize]));
                    }
                    Probe::QosOk | Probe::QosOver => {
                        let q = if p == Probe::QosOk { e.max_qos } else { e.max_qos + 1 };
                        self.conn.send(&rf::publish(q, 1, "t", b"q"));
                    }
                    Probe::AliasOk | Probe::AliasOver => {
                        let a = if p == Probe::AliasOk { e.alias } else { e.alias + 1 };
                        let mut pk = rf::publish(0, 0, "t", b"a");
                        if let Pkt::Publish { props, .. } = &mut pk {
                            props.push((0x23, PVal::U16(a)));
                        }
                        self.conn.send(&pk);
                    }
                    Probe::RecvOk | Probe::RecvOver => {
                        let n = if p == Probe::RecvOk { e.recv } else { e.recv + 1 };
                        for i in 0..n {
                            self.conn.send(&rf::publish(1, 100 + i, "t", b"r"));
                        }
                    }
                    Probe::Window => {
                        self.credit = self.conn.sink().map(|s| s.credit());
                    }
                    Probe::KeepAlive => {
                        // hours-long keep-alives are walked in 1 s steps (the library's timers count 1 s ticks)
                        let half_seconds = late(e.ka_timeout.max(e.ka_client as u32 * 2)) + 4;
                        self.steps = if e.ka_timeout > LONG_KA { half_seconds.div_ceil(2) + 4 } else { 5 * half_seconds };
                    }
                    Probe::OutSizeOver | Probe::OutSizeOk => {
                        let n = if p == Probe::OutSizeOk { (e.out_size / 2).max(1) } else { e.out_size + e.out_size / 2 } as usize;
                        if let Some(s) = self.conn.sink() {
                            let r = match s {
                                Sink::V5(s) => s.publish(bs("t")).send_at_most_once(by(&vec![b'o'; n])).map_err(|e| format!("{e:?}")),
                                Sink::V3(s) => s.publish(bs("t")).send_at_most_once(by(&vec![b'o'; n])).map_err(|e| format!("{e:?}")),
                            };
                            self.send_result = Some(match r {
                                Ok(()) => "ok".into(),
                                Err(e) => format!("err:{e}"),
                            });
                        }
                    }
                }
                let _ = ver;
            }
            LEv::Step => {
                self.steps -= 1;
                if e.ka_timeout > LONG_KA {
                    // a little more than the ticker's 1 s sleep, so that every step is one tick (the timer wheel
                    // rounds a sleep up; on an exact 1 s grid the ticker would fire every other step)
                    ntex_util::time::vclock::advance(Duration::from_millis(1050));
                    self.long_ms += 1050;
                    self.t_half = (self.long_ms / 500) as u32;
                } else {
                    ntex_util::time::vclock::advance(Duration::from_millis(100));
                    if self.steps % 5 == 0 {
                        self.t_half += 1;
                    }
                }
            }
        }
    }

    fn check(&mut self, _q: bool) -> Result<(), Violation> {
        self.conn.pump();
        if self.end_at.is_none() && (!self.conn.log.stops().is_empty() || self.conn.done()) {
            self.end_at = Some(self.t_half);
        }
        let n = self.conn.out.iter().filter(|(_, p)| matches!(p, Pkt::PingReq)).count();
        while self.pings.len() < n {
            self.pings.push(self.t_half);
        }
        Ok(())
    }

    fn drain(&mut self) -> bool {
        false
    }

    fn finish(&mut self) -> Result<Outcome, Violation> {
        self.check(true)?;
        let Some(p) = self.probe else {
            return Ok(Outcome { obs: "no probe".into(), nontrivial: false });
        };
        let e = eff(&self.cfg);
        let ep = self.cfg.ep.clone();
        let v5 = ep.ver == Ver::V5;
        let server = ep.role == Role::Server;
        let stops = self.conn.log.stops();
        let handled = self.conn.log.count(|r| matches!(r, Rec::HEnter { .. }));
        let alive = stops.is_empty() && !self.conn.done();
        let bad = |s: &Lim, clause: &str, what: &str| Err(Violation::new(clause, s.wit(what), s.detail()));
        let skip = match p {
            Probe::RecvOk | Probe::RecvOver => e.max_qos == 0,
            Probe::AliasOk => e.alias == 0,
            _ => false,
        };
        if skip {
            return Ok(Outcome { obs: format!("{p:?} not applicable"), nontrivial: false });
        }
        match p {
            Probe::ConnAck => {
                if server && v5 {
                    let Some((_, Pkt::ConnAck { code: 0, props, .. })) = self.conn.out.first() else {
                        return bad(self, "connack-missing", "");
                    };
                    let g16 = |id: u8| props.iter().find_map(|(i, v)| if let (true, PVal::U16(x)) = (*i == id, v) { Some(*x) } else { None });
                    let g8 = |id: u8| props.iter().find_map(|(i, v)| if let (true, PVal::Byte(x)) = (*i == id, v) { Some(*x) } else { None });
                    let g32 = |id: u8| props.iter().find_map(|(i, v)| if let (true, PVal::U32(x)) = (*i == id, v) { Some(*x) } else { None });
                    if g16(0x21).unwrap_or(65535) != e.recv {
                        return bad(self, "connack-receive-maximum", "");
                    }
                    if g8(0x24).unwrap_or(2) != e.max_qos {
                        return bad(self, "connack-max-qos", "");
                    }
                    if g16(0x22).unwrap_or(0) != e.alias {
                        return bad(self, "connack-topic-alias-max", "");
                    }
                    if g32(0x27).unwrap_or(0) != e.size {
                        return bad(self, "connack-max-packet-size", "");
                    }
                    // a keep-alive imposed on the client - a timeout shorter than the period it asked for, or any
                    // timeout although it asked for none - is announced; whatever is announced is what is in force
                    let k = ep.client_keepalive as u32;
                    let imposed = e.ka_timeout < k || (k == 0 && e.ka_timeout > 0);
                    match (imposed, g16(0x13)) {
                        (_, Some(v)) if v as u32 != e.ka_timeout => return bad(self, "connack-server-keepalive", &format!("announced {v}s, in force {}s", e.ka_timeout)),
                        (true, None) => return bad(self, "imposed-keepalive-not-announced", &format!("client {} in force {}s", k, e.ka_timeout)),
                        _ => {}
                    }
                }
            }
            Probe::SizeOk | Probe::QosOk | Probe::AliasOk => {
                if !alive || handled != 1 {
                    return bad(self, "within-limit-refused", &format!("{p:?}"));
                }
            }
            Probe::SizeOver => {
                if e.size != 0 {
                    if alive || handled > 0 {
                        return bad(self, "over-limit-accepted", "max packet size");
                    }
                    if v5 && server && !self.ended_with(0x95) {
                        return bad(self, "over-limit-wrong-code", "max packet size");
                    }
                } else if !alive || handled != 1 {
                    return bad(self, "within-limit-refused", "unlimited size");
                }
            }
            Probe::QosOver => {
                if e.max_qos < 2 {
                    if alive || handled > 0 {
                        return bad(self, "over-limit-accepted", "max qos");
                    }
                    if v5 && server && !self.ended_with(0x9B) {
                        return bad(self, "over-limit-wrong-code", "max qos");
                    }
                }
            }
            Probe::AliasOver => {
                if alive || handled > 0 {
                    return bad(self, "over-limit-accepted", "topic alias max");
                }
            }
            Probe::RecvOk => {
                if !alive || handled != e.recv as usize {
                    return bad(self, "within-limit-refused", "receive maximum");
                }
            }
            Probe::RecvOver => {
                if alive {
                    return bad(self, "over-limit-accepted", "receive maximum");
                }
                if server && !self.ended_with(0x93) {
                    return bad(self, "over-limit-wrong-code", "receive maximum");
                }
            }
            Probe::Window => {
                if self.credit != Some(e.window) {
                    return bad(self, "send-window", &format!("credit {:?} expected {}", self.credit, e.window));
                }
            }
            Probe::KeepAlive => {
                if server {
                    let t = e.ka_timeout;
                    match self.end_at {
                        // one class for all client values whose 1.5x does not fit the library's 16-bit second timers
                        // (known findings C19-3/4: the value is clipped to 65535 s. An expiry before that point is a different
                        // defect - seeded change C19_r7 let the 1.5x computation wrap around - and has its own class)
                        Some(at) if at < 2 * 65535 && t > 65535 => return bad(self, "keepalive-early", &format!("1.5x client value above 65535s, expired after {}s already", at / 2)),
                        Some(at) if at < 2 * t && t > 65535 => return bad(self, "keepalive-early", "1.5x client value above 65535s"),
                        Some(at) if at < 2 * t => return bad(self, "keepalive-early", &format!("{t}s")),
                        Some(_) if !stops.iter().any(|s| s.contains("KeepAliveTimeout")) => return bad(self, "keepalive-wrong-reason", ""),
                        None if t <= 6 || t > LONG_KA => return bad(self, "keepalive-missing", &format!("{t}s")),
                        Some(at) if at > late(t) && (t <= 6 || t > LONG_KA) => return bad(self, "keepalive-late", &format!("{t}s")),
                        _ => {}
                    }
                } else {
                    let kk = e.ka_client as u32;
                    if kk > 0 {
                        let mut prev = 0u32;
                        for pg in self.pings.iter().copied().chain(std::iter::once(self.t_half)) {
                            if pg - prev > 2 * kk + 1 {
                                return bad(self, "client-ping-period", &format!("{kk}s"));
                            }
                            prev = pg;
                        }
                        // not more often than twice per period either (the negotiated value is what is used)
                        if self.pings.windows(2).any(|w| w[1] - w[0] + 1 < 2 * kk) {
                            return bad(self, "client-ping-period", &format!("{kk}s (too often)"));
                        }
                    } else if !self.pings.is_empty() {
                        return bad(self, "client-ping-period", "disabled");
                    }
                }
            }
            Probe::OutSizeOver => {
                if e.out_size != 0 {
                    let on_wire = self.conn.out.iter().any(|(_, p)| matches!(p, Pkt::Publish { payload, .. } if payload.first() == Some(&b'o')));
                    if on_wire || self.send_result.as_deref() == Some("ok") {
                        return bad(self, "outbound-over-limit-sent", "");
                    }
                }
            }
            Probe::OutSizeOk => {
                if self.send_result.as_deref() != Some("ok") {
                    return bad(self, "outbound-within-limit-refused", "");
                }
            }
        }
        Ok(Outcome { obs: format!("{p:?} alive={alive} handled={handled} credit={:?} end={:?} pings={:?}", self.credit, self.end_at, self.pings), nontrivial: true })
    }
}

pub fn gate_configs(tier: Tier) -> Vec<GateCfg> {
    let mut v = vec![];
    for kind in [Kind::V3, Kind::V5, Kind::Both] {
        for hs in [HsMode::Accept, HsMode::Refuse, HsMode::Error, HsMode::Gated] {
            let mut ep = EpCfg::new(if kind == Kind::V3 { Ver::V3 } else { Ver::V5 }, Role::Server);
            ep.hs = hs;
            ep.handler_auto = true;
            ep.proto_auto = true;
            v.push(GateCfg { kind, ep, max_follow: if tier == Tier::Quick { 2 } else { 3 } });
        }
    }
    v
}

pub fn lim_configs(tier: Tier) -> Vec<LimCfg> {
    use Probe::*;
    let mut v = vec![];
    let thorough = tier == Tier::Thorough;
    // ---- v5 server: every limit with each of its sources, the other limits at distinctive values
    let base5 = || {
        let mut ep = EpCfg::new(Ver::V5, Role::Server);
        ep.handler_auto = false;
        ep.max_qos = 1;
        ep.max_size = 80;
        ep.max_receive = 3;
        ep.max_topic_alias = 5;
        ep.max_send = 7;
        ep.client_keepalive = 2;
        ep
    };
    let all5 = vec![ConnAck, SizeOk, SizeOver, QosOk, QosOver, AliasOk, AliasOver, RecvOk, RecvOver, Window, KeepAlive];
    let mut variants: Vec<(EpCfg, rf::Props)> = vec![(base5(), vec![]), (base5(), vec![(0x21, PVal::U16(4))]), (base5(), vec![(0x21, PVal::U16(9))])];
    for f in 0..10 {
        let mut ep = base5();
        match f {
            0 => ep.hs_max_qos = Some(0),
            1 => ep.hs_max_packet_size = Some(40),
            2 => ep.hs_receive_max = Some(2),
            3 => ep.hs_topic_alias_max = Some(2),
            4 => ep.hs_max_send = Some(3),
            5 => ep.hs_keepalive = Some(1),
            6 => ep.hs_keepalive = Some(5),
            7 => ep.client_keepalive = 0,
            8 => ep.hs_max_packet_size = Some(200),
            _ => {
                ep.max_qos = 2;
                ep.max_size = 0;
                ep.max_topic_alias = 0;
                ep.client_keepalive = 4;
            }
        }
        variants.push((ep.clone(), vec![]));
        if thorough || f == 4 {
            variants.push((ep, vec![(0x21, PVal::U16(2))]));
        }
    }
    // everything overridden at once with pairwise distinct values (cross-talk between the six fields)
    {
        let mut ep = base5();
        ep.hs_max_qos = Some(0);
        ep.hs_max_packet_size = Some(60);
        ep.hs_receive_max = Some(4);
        ep.hs_topic_alias_max = Some(6);
        ep.hs_max_send = Some(9);
        ep.hs_keepalive = Some(3);
        variants.push((ep, vec![(0x21, PVal::U16(8))]));
    }
    for (ep, cp) in variants {
        v.push(LimCfg { ep, connect_props: cp, probes: all5.clone() });
    }
    // maximum QoS: every configured value against every value granted by the handshake service, also downwards
    // by two levels (seeded change C19_r4: the granted level's flag was set without clearing the configured one)
    for configured in 0u8..=2 {
        for granted in [None, Some(0u8), Some(1), Some(2)] {
            if (configured == 1 && matches!(granted, None | Some(0))) || (configured == 2 && granted.is_none()) {
                continue; // covered above
            }
            let mut ep = base5();
            ep.max_qos = configured;
            ep.hs_max_qos = granted;
            v.push(LimCfg { ep, connect_props: vec![], probes: vec![ConnAck, QosOk, QosOver] });
        }
    }
    // ---- v3 server
    for f in 0..5 {
        let mut ep = EpCfg::new(Ver::V3, Role::Server);
        ep.handler_auto = false;
        ep.max_qos = 1;
        ep.max_size = 80;
        ep.max_send = 7;
        ep.client_keepalive = 2;
        match f {
            0 => {}
            1 => ep.hs_max_packet_size = Some(40),
            2 => ep.hs_max_send = Some(3),
            3 => ep.hs_max_packet_size = Some(200),
            _ => ep.hs_keepalive = Some(1),
        }
        v.push(LimCfg { ep, connect_props: vec![], probes: vec![SizeOk, SizeOver, QosOk, QosOver, Window, KeepAlive] });
    }
    // ---- servers, hours-long client keep-alive (1.5 x 30000 s needs the full 16-bit range of the timers)
    for ver in [Ver::V3, Ver::V5] {
        for k in [30000u16, 65535] {
            let mut ep = EpCfg::new(ver, Role::Server);
            ep.handler_auto = false;
            ep.client_keepalive = k;
            v.push(LimCfg { ep, connect_props: vec![], probes: vec![KeepAlive] });
        }
    }
    // ---- v5 client: the server's CONNACK decides window, outbound size, keep-alive; its own CONNECT decides inbound limits
    for f in 0..5 {
        let mut ep = EpCfg::new(Ver::V5, Role::Client);
        ep.handler_auto = false;
        ep.max_send = 4;
        ep.max_receive = 2;
        ep.max_size = 90;
        ep.client_keepalive = 2;
        match f {
            0 => {}
            1 => ep.client_connack_props = vec![(0x21, PVal::U16(2))],
            2 => ep.client_connack_props = vec![(0x21, PVal::U16(9))],
            3 => ep.client_connack_props = vec![(0x27, PVal::U32(50))],
            _ => ep.client_connack_props = vec![(0x13, PVal::U16(1))],
        }
        v.push(LimCfg { ep, connect_props: vec![], probes: vec![Window, KeepAlive, OutSizeOk, OutSizeOver, SizeOk, SizeOver, RecvOk, RecvOver] });
    }
    // ---- v3 client
    {
        let mut ep = EpCfg::new(Ver::V3, Role::Client);
        ep.handler_auto = false;
        ep.max_send = 4;
        ep.client_keepalive = 2;
        v.push(LimCfg { ep, connect_props: vec![], probes: vec![Window, KeepAlive] });
    }
    v
}

pub fn run(tier: Tier) -> i32 {
    let mut ck = Check::new("C19", tier, Duration::from_secs(if tier == Tier::Quick { 55 } else { 1800 }));
    let g = ExploreCfg { max_dev: if tier == Tier::Quick { 2 } else { 3 }, max_execs: 20_000_000, ..Default::default() };
    let gc = gate_configs(tier);
    for (i, c) in gc.iter().enumerate() {
        ck.explore::<Gate>("gate", i, c, &g);
    }
    let f = ExploreCfg { max_dev: 0, max_execs: 20_000_000, ..Default::default() };
    let head = if tier == Tier::Quick { 16 } else { 19 };
    for (i, level) in [4u8, 5].iter().enumerate() {
        let mut ep = EpCfg::new(if *level == 5 { Ver::V5 } else { Ver::V3 }, Role::Server);
        ep.handler_auto = true;
        ep.proto_auto = true;
        for (j, prefill) in [0usize, 5, 9, 1000].iter().enumerate() {
            ck.explore::<Frag>("frag", 1000 + 10 * i + j, &FragCfg { ep: ep.clone(), level: *level, head, prefill: *prefill }, &f);
        }
    }
    let l = ExploreCfg { max_dev: 0, max_execs: 1_000_000, max_polls: 200_000, ..Default::default() };
    let lc = lim_configs(tier);
    for (i, c) in lc.iter().enumerate() {
        let long = eff(c).ka_timeout > LONG_KA;
        ck.explore::<Lim>("limits", 2000 + i, c, &if long { ExploreCfg { max_polls: 5_000_000, ..l.clone() } } else { l.clone() });
    }
    ck.rule = format!(
        "gate: v3, v5 and combined server x handshake {{accept, refuse, error, slow}} x every first packet (CONNECT with protocol name MQTT / MQIsdp / MQTX, level 3/4/5/6, reserved flag; every other packet type in v3 and v5 encoding; reserved types) followed by up to {} packets (PUBLISH, SUBSCRIBE) and the handshake completion in every order with {} injection(s) while runnable - no handler before the acceptance record, invalid first packet / refusal / error end the connection with at most the refusing CONNACK, valid CONNECT routed to the service of its level, every follow-up handled once in order; fragmentation: combined server, CONNECT level 4 and 5 followed by PUBLISH + SUBSCRIBE + PINGREQ, first {} bytes in all {} fragmentations, with 0 / 5 / 9 / all bytes of the CONNECT already in the read buffer when the server starts; limits: {} configurations of configured vs CONNECT-requested vs handshake-overridden values (v5 server: each of max QoS, max packet size, receive maximum, topic alias max, max send, keep-alive from each source and all at once with pairwise distinct values x peer Receive Maximum absent / below / above; v3 server; v3 and v5 server with client keep-alive 30000 s and 65535 s, expiry walked in 1.05 s steps; v5 client with CONNACK receive maximum / max packet size / server keep-alive; v3 client), each probed after the handshake: CONNACK contents, packet at half / one and a half times the size limit, QoS at / above, alias at / above, receive maximum at / above, credit(), keep-alive expiry time on the virtual clock, client ping period, outbound packet over the peer's size limit",
        gc[0].max_follow,
        g.max_dev,
        head,
        1u32 << (head - 1),
        lc.len()
    );
    ck.assumptions = vec![
        "size limits are probed at half and at one and a half times the limit (the exact boundary depends on whether the fixed header is counted, which the statement leaves open)".into(),
        "keep-alive 0 without override: the library's documented 30 s default applies".into(),
        "FIFO task order of ntex-rt".into(),
    ];
    ck.finish()
}

pub fn trace(tier: Tier, idx: usize, choices: &[u16], script: Option<Vec<String>>, max_polls: u64) -> crate::simnet::ExecRecord {
    // idx: 0..gate | 1000+ frag | 2000+ limits
    if idx >= 2000 {
        let c = &lim_configs(tier)[idx - 2000];
        println!("limits #{}: {} {:?}", idx - 2000, c.ep.label(), c.probes);
        return match script {
            Some(sc) => crate::simnet::run_script::<Lim>(c, &sc, 5_000_000),
            None => crate::simnet::run_one::<Lim>(c, choices, 5_000_000),
        };
    }
    if idx >= 1000 {
        let level = if (idx - 1000) / 10 == 0 { 4 } else { 5 };
        let prefill = [0usize, 5, 9, 1000][(idx - 1000) % 10];
        let mut ep = EpCfg::new(if level == 5 { Ver::V5 } else { Ver::V3 }, Role::Server);
        ep.handler_auto = true;
        ep.proto_auto = true;
        let c = FragCfg { ep, level, head: if tier == Tier::Quick { 16 } else { 19 }, prefill };
        return match script {
            Some(sc) => crate::simnet::run_script::<Frag>(&c, &sc, max_polls),
            None => crate::simnet::run_one::<Frag>(&c, choices, max_polls),
        };
    }
    let c = &gate_configs(tier)[idx];
    println!("gate #{idx}: {:?} hs={:?}", c.kind, c.ep.hs);
    match script {
        Some(sc) => crate::simnet::run_script::<Gate>(c, &sc, max_polls),
        None => crate::simnet::run_one::<Gate>(c, choices, max_polls),
    }
}
