//! Engine A: single-stepped ntex runtime + stateless deviation-bounded DFS over
//! environment events. See /verif/DESIGN.md §2.
//!
//! One *execution* runs on a fresh OS thread: fresh `ntex_rt::Runtime`
//! (event_interval = 1, so `Runtime::poll()` runs exactly the FIFO head task),
//! fresh scenario world, virtual clock at 0. Between any two task polls the
//! driver consults the choice sequence: at a *running* point (the last poll ran
//! a task) alternative 0 is "continue" and alternatives 1.. inject an enabled
//! environment event now (cost: one deviation); at a *quiescent* point (run
//! queue empty) the alternatives are exactly the enabled events (cost 0).
use std::cell::{Cell, RefCell};
use std::collections::hash_map::DefaultHasher;
use std::collections::{BTreeMap, HashMap, HashSet};
use std::fmt::Debug;
use std::future::Future;
use std::hash::{Hash, Hasher};
use std::pin::Pin;
use std::rc::Rc;
use std::sync::atomic::{AtomicBool, AtomicU64, Ordering};
use std::sync::{Arc, Condvar, Mutex, Once};
use std::task::{Context, Poll, Waker};
use std::time::{Duration, Instant};

use ntex_rt::{Driver, Notify, PollResult, Runtime};

// ---------------------------------------------------------------------------
// scenario interface

/// Result of a finished execution as judged by the scenario.
#[derive(Clone, Debug, Default)]
pub struct Outcome {
    /// canonical observation (hashed for the distinct-outcome count)
    pub obs: String,
    /// did the scenario's trigger condition occur (a sender parked, handlers overlapped, ...)
    pub nontrivial: bool,
}

/// A violation reported by a scenario oracle.
#[derive(Clone, Debug)]
pub struct Violation {
    /// short machine-readable clause id, e.g. "window-overshoot"
    pub clause: String,
    /// abstract witness used for known-finding identity (no step numbers / addresses)
    pub witness: String,
    /// human readable detail
    pub detail: String,
}

impl Violation {
    pub fn new(clause: &str, witness: impl Into<String>, detail: impl Into<String>) -> Self {
        Violation { clause: clause.into(), witness: witness.into(), detail: detail.into() }
    }
}

pub trait Scenario: Sized + 'static {
    type Cfg: Clone + Send + Sync + Debug + 'static;
    type Ev: Copy + Debug + 'static;

    /// Build the world. Runs inside the runtime (spawning is allowed).
    fn build(cfg: &Self::Cfg) -> Pin<Box<dyn Future<Output = Self>>>;
    /// Enabled environment events, simplest first, in a canonical order.
    fn enabled(&self, quiescent: bool) -> Vec<Self::Ev>;
    fn apply(&mut self, ev: Self::Ev);
    /// Observation hook, runs after every task poll and after every event.
    fn check(&mut self, quiescent: bool) -> Result<(), Violation>;
    /// Quiescent and no enabled events: perform one drain action, or return false.
    fn drain(&mut self) -> bool {
        false
    }
    /// Final oracle (after drain ran dry).
    fn finish(&mut self) -> Result<Outcome, Violation>;
    /// Is "hit the poll horizon" a verdict (livelock) for this scenario?
    fn livelock_is_violation() -> bool {
        true
    }
    /// Deviation cost of choosing an alternative other than the first at a quiescent point
    /// (timed scenarios: the first alternative is "time passes", sends are the deviations).
    fn quiescent_alt_cost() -> u32 {
        0
    }
    /// A number that changes whenever the scenario observes any activity (log, wire, gates). When given,
    /// the driver recognises a **busy loop**: many task polls in a row without quiescence and without any
    /// change of the marker. Such a point is treated like a quiescent one (the environment goes on acting
    /// while the endpoint spins) and the execution is counted in `busy_loop_executions`.
    fn progress_marker(&self) -> Option<u64> {
        None
    }
}

// ---------------------------------------------------------------------------
// per-execution record

#[derive(Clone, Copy, Debug, PartialEq, Eq)]
pub struct Point {
    pub n_alts: u16,
    pub running: bool,
}

#[derive(Clone, Debug)]
pub enum Verdict {
    Ok(Outcome),
    Violation(Violation),
    /// execution did not terminate as expected for reasons that are not a verdict
    Machinery(String),
}

#[derive(Clone, Debug, Default)]
pub struct ExecRecord {
    pub points: Vec<Point>,
    pub choices: Vec<u16>,
    pub labels: Vec<String>, // label of each applied event, in order ("@<point>:<ev>")
    pub log: Vec<String>,
    pub polls: u64,
    pub events: u64,
    pub verdict: Option<Verdict>,
    pub panic: Option<String>,
    /// points at which a busy loop was recognised and treated as quiescence
    pub spins: u32,
}

thread_local! {
    static POLLS: Cell<u64> = const { Cell::new(0) };
    static STEP: Cell<u64> = const { Cell::new(0) };
    static REC: RefCell<Option<Arc<Mutex<ExecRecord>>>> = const { RefCell::new(None) };
    static IN_EXEC: Cell<bool> = const { Cell::new(false) };
    static ALIVE: Cell<i64> = const { Cell::new(0) };
    static NEXT_TASK: Cell<usize> = const { Cell::new(100) };
    static TASKS: RefCell<std::collections::HashMap<usize, String>> = RefCell::new(std::collections::HashMap::new());
}

pub fn dump_alive_tasks() {
    TASKS.with(|t| {
        for (id, bt) in t.borrow().iter() {
            let lines: Vec<&str> = bt.lines().filter(|l| l.contains("ntex") || l.contains("mc::")).take(14).collect();
            eprintln!("--- task {id} spawned at:\n{}", lines.join("\n"));
        }
    });
}

/// Number of ntex tasks spawned on this thread and not yet freed (leak diagnostics).
pub fn alive_tasks() -> i64 {
    ALIVE.with(|a| a.get())
}

/// Append a line to the current execution's observation log.
pub fn obs(line: impl Into<String>) {
    let s: String = line.into();
    REC.with(|r| {
        if let Some(rec) = r.borrow().as_ref() {
            rec.lock().unwrap().log.push(s);
        }
    });
}

/// Current step index (task polls + events so far) — usable by oracles for positions.
pub fn step() -> u64 {
    STEP.with(|s| s.get())
}

pub fn bump_root_poll() {
    POLLS.with(|p| p.set(p.get() + 1));
}

static INIT: Once = Once::new();

thread_local! { static SPIN_PRINTED: std::cell::Cell<u32> = const { std::cell::Cell::new(0) }; }

/// task polls without quiescence and without observable activity after which a busy loop is assumed
const SPIN_LIMIT: u64 = 400;

/// Heartbeat of one execution thread: a task poll that never returns (an endless loop inside the library)
/// cannot be interrupted from inside; the watchdog thread notices that the beat stopped and ends the run
/// as a reported verdict instead of hanging for ever.
pub struct Heart {
    pub tick: AtomicU64,
    pub busy: AtomicBool,
    /// CPU-time clock of the execution thread (an endless loop burns CPU; a thread that is merely starved or blocked
    /// on an overloaded machine does not)
    pub cpu_clock: libc::clockid_t,
    pub exec: Mutex<Option<(Arc<Mutex<ExecRecord>>, String, bool)>>,
}

static HEARTS: Mutex<Vec<Arc<Heart>>> = Mutex::new(Vec::new());
/// index and poll limit of the configuration being explored (for the replay file of an aborted run)
pub static CUR_CFG_INDEX: std::sync::atomic::AtomicUsize = std::sync::atomic::AtomicUsize::new(0);
pub static CUR_MAX_POLLS: AtomicU64 = AtomicU64::new(20_000);
/// Called by the watchdog with (execution record so far, configuration, livelock-is-violation); must not return.
/// The first argument names what happened: "poll-never-returns" (watchdog) or "process-abort" (SIGABRT while an
/// execution was running: the library panicked again while unwinding from a panic).
pub static HANG_HANDLER: Mutex<Option<Box<dyn Fn(&str, &ExecRecord, &str, bool) + Send>>> = Mutex::new(None);

/// SIGABRT while an execution is running on this thread. The Rust runtime aborts the process when a destructor
/// panics during the unwinding of another panic - in library code that is what a user's process would do as well,
/// so it is a verdict ("nothing panics"), reported with the schedule of the execution that was running. A first
/// panic outside the library's sources makes it a machinery error instead.
extern "C" fn on_abort(_sig: libc::c_int) {
    unsafe { libc::signal(libc::SIGABRT, libc::SIG_DFL) };
    let in_exec = IN_EXEC.try_with(|c| c.get()).unwrap_or(false);
    if in_exec {
        let info = HEART.try_with(|h| h.exec.try_lock().ok().and_then(|g| g.clone())).ok().flatten();
        if let Some((rec, cfg, _)) = info {
            let r = match rec.try_lock() {
                Ok(g) => g.clone(),
                Err(std::sync::TryLockError::Poisoned(p)) => p.into_inner().clone(),
                Err(_) => ExecRecord::default(),
            };
            let first = r.panic.clone().unwrap_or_default();
            let in_library = first.contains("/repo/src/") || first.starts_with("src/");
            if let Ok(g) = HANG_HANDLER.try_lock() {
                if let Some(f) = g.as_ref() {
                    f("process-abort", &r, &cfg, in_library);
                }
            }
            if in_library {
                // (no handler installed: `mc replay` / `mc trace` of a recorded schedule)
                println!("VIOLATION reproduced: clause=process-abort - the library panicked ({first}) and panicked again while unwinding; events so far {:?}", r.labels);
                use std::io::Write;
                let _ = std::io::stdout().flush();
                unsafe { libc::_exit(1) };
            }
            eprintln!("MACHINERY ERROR: the process aborted while an execution was running (first panic: {first}); cfg {cfg}; events so far {:?}", r.labels);
            unsafe { libc::_exit(2) };
        }
    }
    unsafe { libc::abort() };
}
/// executions completed in this process (for the evidence of an aborted run)
pub static EXECS_DONE: AtomicU64 = AtomicU64::new(0);

/// registration of the current thread's heart; removed again when the thread ends
struct HeartReg(Arc<Heart>);
impl Drop for HeartReg {
    fn drop(&mut self) {
        if let Ok(mut v) = HEARTS.lock() {
            v.retain(|h| !Arc::ptr_eq(h, &self.0));
        }
    }
}
impl std::ops::Deref for HeartReg {
    type Target = Heart;
    fn deref(&self) -> &Heart {
        &self.0
    }
}

thread_local! {
    static HEART: HeartReg = {
        let mut cid: libc::clockid_t = 0;
        if unsafe { libc::pthread_getcpuclockid(libc::pthread_self(), &mut cid) } != 0 {
            cid = -1;
        }
        let h = Arc::new(Heart { tick: AtomicU64::new(0), busy: AtomicBool::new(false), cpu_clock: cid, exec: Mutex::new(None) });
        HEARTS.lock().unwrap().push(h.clone());
        HeartReg(h)
    };
}

fn hang_secs() -> u64 {
    std::env::var("VERIF_HANG_SECS").ok().and_then(|s| s.parse().ok()).unwrap_or(30)
}

fn thread_cpu_secs(cid: libc::clockid_t) -> Option<f64> {
    if cid == -1 {
        return None;
    }
    let mut ts = libc::timespec { tv_sec: 0, tv_nsec: 0 };
    if unsafe { libc::clock_gettime(cid, &mut ts) } == 0 { Some(ts.tv_sec as f64 + ts.tv_nsec as f64 / 1e9) } else { None }
}

/// resident set size of this process in MiB (0 when /proc is not readable)
fn rss_mib() -> u64 {
    std::fs::read_to_string("/proc/self/statm").ok().and_then(|s| s.split_whitespace().nth(1).and_then(|x| x.parse::<u64>().ok())).map(|pages| pages * 4096 / (1 << 20)).unwrap_or(0)
}

fn rss_cap_mib() -> u64 {
    std::env::var("VERIF_RSS_CAP_MB").ok().and_then(|s| s.parse().ok()).unwrap_or(40_000)
}

fn watchdog() {
    let mut last: HashMap<usize, (u64, Instant, Option<f64>)> = HashMap::new();
    loop {
        std::thread::sleep(std::time::Duration::from_millis(500));
        let hearts: Vec<Arc<Heart>> = HEARTS.lock().unwrap().clone();
        last.retain(|k, _| hearts.iter().any(|h| Arc::as_ptr(h) as usize == *k));
        // an endless loop that also allocates (a decoder handing out empty payload pieces for ever, collected by the
        // payload buffer) exhausts memory long before the time limit: past the cap, the execution whose poll has been
        // silent for longest (at least two seconds) is the verdict; without such an execution it is a machinery error
        let rss = rss_mib();
        if rss > rss_cap_mib() {
            let mut worst: Option<(Arc<Heart>, std::time::Duration)> = None;
            for h in hearts.iter() {
                if let Some(e) = last.get(&(Arc::as_ptr(h) as usize)) {
                    if h.busy.load(Ordering::Relaxed) && h.tick.load(Ordering::Relaxed) == e.0 && e.1.elapsed().as_secs() >= 2 && worst.as_ref().is_none_or(|w| e.1.elapsed() > w.1) {
                        worst = Some((h.clone(), e.1.elapsed()));
                    }
                }
            }
            if let Some((h, _)) = worst {
                let info = h.exec.lock().unwrap().clone();
                if let Some((rec, cfg, is_viol)) = info {
                    let r = rec.lock().map(|r| r.clone()).unwrap_or_default();
                    if let Some(f) = HANG_HANDLER.lock().unwrap().as_ref() {
                        f("memory-runaway", &r, &cfg, is_viol);
                    }
                }
            }
            eprintln!("MACHINERY ERROR: resident set {rss} MiB exceeds the cap of {} MiB (VERIF_RSS_CAP_MB)", rss_cap_mib());
            std::process::exit(2);
        }
        for h in hearts.iter() {
            let t = h.tick.load(Ordering::Relaxed);
            let cpu = thread_cpu_secs(h.cpu_clock);
            let e = last.entry(Arc::as_ptr(h) as usize).or_insert((t, Instant::now(), cpu));
            if !h.busy.load(Ordering::Relaxed) || t != e.0 {
                *e = (t, Instant::now(), cpu);
                continue;
            }
            // an endless loop inside one poll keeps its thread on a CPU: the verdict needs the wall-clock limit AND
            // at least two thirds of it spent on the CPU by that very thread. A thread that does not advance
            // without burning CPU is starved or blocked (overloaded machine): after twenty times the limit that is a
            // machinery error, never a verdict (a thorough run on a heavily loaded machine once reported a
            // poll-never-returns violation on the unchanged tree before this distinction existed).
            let burnt = match (cpu, e.2) {
                (Some(now), Some(then)) => now - then,
                _ => f64::MAX,
            };
            if e.1.elapsed().as_secs() >= hang_secs() && burnt < hang_secs() as f64 * 2.0 / 3.0 {
                if e.1.elapsed().as_secs() >= 20 * hang_secs() {
                    eprintln!("MACHINERY ERROR: an execution thread made no progress for {} s while using {:.1} s of CPU (starved or blocked)", e.1.elapsed().as_secs(), burnt);
                    std::process::exit(2);
                }
                continue;
            }
            if e.1.elapsed().as_secs() >= hang_secs() {
                let info = h.exec.lock().unwrap().clone();
                if let Some((rec, cfg, is_viol)) = info {
                    let r = rec.lock().map(|r| r.clone()).unwrap_or_default();
                    if let Some(f) = HANG_HANDLER.lock().unwrap().as_ref() {
                        f("poll-never-returns", &r, &cfg, is_viol);
                    }
                    eprintln!("MACHINERY ERROR: an execution stopped making progress for {} s (a task poll does not return); cfg {cfg}; events so far {:?}", hang_secs(), r.labels);
                    std::process::exit(2);
                }
            }
        }
    }
}

fn global_init() {
    INIT.call_once(|| {
        let _ = std::thread::Builder::new().name("watchdog".into()).spawn(watchdog);
        unsafe {
            libc::signal(libc::SIGABRT, on_abort as extern "C" fn(libc::c_int) as libc::sighandler_t);
        }
        unsafe {
            ntex_rt::task_callbacks(
                || {
                    ALIVE.with(|a| a.set(a.get() + 1));
                    if std::env::var("VERIF_LEAKDBG").is_ok() {
                        let id = NEXT_TASK.with(|n| {
                            n.set(n.get() + 1);
                            n.get()
                        });
                        let bt = std::backtrace::Backtrace::force_capture().to_string();
                        TASKS.with(|t| t.borrow_mut().insert(id, bt));
                        return Some(id as *const ());
                    }
                    Some(1 as *const ())
                },
                |p| {
                    POLLS.with(|c| c.set(c.get() + 1));
                    HEART.with(|h| h.tick.fetch_add(1, Ordering::Relaxed));
                    // VERIF_SPINDBG (with VERIF_LEAKDBG): say which task is polled once an execution is far too long
                    if STEP.with(|s| s.get()) > 400 && std::env::var("VERIF_SPINDBG").is_ok() {
                        let n = SPIN_PRINTED.with(|c| {
                            c.set(c.get() + 1);
                            c.get()
                        });
                        if n < 6 {
                            let bt = TASKS.with(|t| t.borrow().get(&(p as usize)).cloned().unwrap_or_default());
                            let lines: Vec<&str> = bt.lines().filter(|l| l.contains("ntex") || l.contains("mc::")).take(14).collect();
                            eprintln!("SPIN poll of task {} spawned at:\n{}", p as usize, lines.join("\n"));
                        }
                    }
                    p
                },
                |_| {},
                // a task dropped by the executor without being polled (cancelled) is activity too
                |p| {
                    ALIVE.with(|a| a.set(a.get() - 1));
                    if std::env::var("VERIF_LEAKDBG").is_ok() {
                        TASKS.with(|t| t.borrow_mut().remove(&(p as usize)));
                    }
                    POLLS.with(|c| c.set(c.get() + 1))
                },
            );
        }
        let default_hook = std::panic::take_hook();
        std::panic::set_hook(Box::new(move |info| {
            let in_exec = IN_EXEC.with(|c| c.get());
            if std::env::var("VERIF_LOUD").is_ok() {
                eprintln!("PANIC: {info}\n{}", std::backtrace::Backtrace::force_capture());
            }
            if in_exec {
                let loc = info
                    .location()
                    .map(|l| format!("{}:{}", l.file(), l.line()))
                    .unwrap_or_else(|| "?".into());
                let msg = if let Some(s) = info.payload().downcast_ref::<&str>() {
                    (*s).to_string()
                } else if let Some(s) = info.payload().downcast_ref::<String>() {
                    s.clone()
                } else {
                    "<non-string panic>".into()
                };
                REC.with(|r| {
                    if let Some(rec) = r.borrow().as_ref() {
                        if let Ok(mut g) = rec.lock() {
                            if g.panic.is_none() {
                                g.panic = Some(format!("{loc}: {msg}"));
                            }
                        }
                    }
                });
            } else {
                default_hook(info);
            }
        }));
    });
}

#[derive(Debug)]
struct NoNotify;
impl Notify for NoNotify {
    fn notify(&self) -> std::io::Result<()> {
        Ok(())
    }
}

struct RootState {
    done: Cell<bool>,
    /// set by the driver when the runtime went quiet after the world was dropped
    torn_down: Cell<bool>,
    world_dropped: Cell<bool>,
    waker: RefCell<Option<Waker>>,
}

struct TeardownWait(Rc<RootState>);
impl Future for TeardownWait {
    type Output = ();
    fn poll(self: Pin<&mut Self>, cx: &mut Context<'_>) -> Poll<()> {
        bump_root_poll();
        if self.0.torn_down.get() {
            Poll::Ready(())
        } else {
            *self.0.waker.borrow_mut() = Some(cx.waker().clone());
            Poll::Pending
        }
    }
}

struct RootWait(Rc<RootState>);
impl Future for RootWait {
    type Output = ();
    fn poll(self: Pin<&mut Self>, cx: &mut Context<'_>) -> Poll<()> {
        bump_root_poll();
        if self.0.done.get() {
            Poll::Ready(())
        } else {
            *self.0.waker.borrow_mut() = Some(cx.waker().clone());
            Poll::Pending
        }
    }
}

struct Drv<S: Scenario> {
    world: Rc<RefCell<Option<S>>>,
    root: Rc<RootState>,
    choices: Vec<u16>,
    /// alternative to `choices`: event labels to apply in order ("!" prefix = inject while runnable)
    script: Option<RefCell<std::collections::VecDeque<String>>>,
    max_polls: u64,
    rec: Arc<Mutex<ExecRecord>>,
}

impl<S: Scenario> Drv<S> {
    fn finish(&self, v: Verdict) {
        self.rec.lock().unwrap().verdict = Some(v);
        self.root.done.set(true);
        if let Some(w) = self.root.waker.borrow_mut().take() {
            w.wake();
        }
    }
}

impl<S: Scenario> Driver for Drv<S> {
    fn handle(&self) -> Box<dyn Notify> {
        Box::new(NoNotify)
    }

    fn run(&self, rt: &Runtime) -> std::io::Result<()> {
        let mut next_choice = 0usize;
        let mut finishing = false;
        let mut idle_spins = 0u32;
        let mut teardown_polls = 0u32;
        let mut polls: u64 = 0;
        let mut spin_polls: u64 = 0;
        let mut last_marker: Option<u64> = None;
        loop {
            let before = POLLS.with(|p| p.get());
            if let PollResult::Ready = rt.poll() {
                return Ok(());
            }
            let mut ran = POLLS.with(|p| p.get()) != before;
            if !ran && !finishing {
                // confirm quiescence: a runnable that neither polls nor drops a wrapped future
                // (there should be none) must not be mistaken for an empty run queue
                for _ in 0..2 {
                    if let PollResult::Ready = rt.poll() {
                        return Ok(());
                    }
                    if POLLS.with(|p| p.get()) != before {
                        ran = true;
                        break;
                    }
                }
            }
            if finishing {
                if ran {
                    idle_spins = 0;
                    teardown_polls += 1;
                } else {
                    idle_spins += 1;
                    if idle_spins > 1000 {
                        return Err(std::io::Error::other("root future did not finish"));
                    }
                }
                if self.root.world_dropped.get() && !self.root.torn_down.get() && (idle_spins >= 3 || teardown_polls > 2000) {
                    // quiet (or not settling): end the execution
                    self.root.torn_down.set(true);
                    if let Some(w) = self.root.waker.borrow_mut().take() {
                        w.wake();
                    }
                }
                continue;
            }
            if ran {
                polls += 1;
                STEP.with(|s| s.set(s.get() + 1));
                self.rec.lock().unwrap().polls = polls;
            }
            let mut wg = self.world.borrow_mut();
            let Some(world) = wg.as_mut() else {
                // still building
                if !ran {
                    idle_spins += 1;
                    if idle_spins > 1000 {
                        drop(wg);
                        self.finish(Verdict::Machinery("scenario build never completed".into()));
                        finishing = true;
                    }
                }
                continue;
            };
            idle_spins = 0;
            if polls > self.max_polls {
                let v = if S::livelock_is_violation() {
                    Verdict::Violation(Violation::new(
                        "livelock",
                        "poll horizon exceeded",
                        format!("more than {} task polls without reaching quiescence", self.max_polls),
                    ))
                } else {
                    Verdict::Machinery("poll horizon exceeded".into())
                };
                drop(wg);
                self.finish(v);
                finishing = true;
                continue;
            }
            // observe after the poll
            if ran {
                if let Err(v) = world.check(false) {
                    drop(wg);
                    self.finish(Verdict::Violation(v));
                    finishing = true;
                    continue;
                }
            }
            // busy-loop recognition
            let mut spinning = false;
            if ran {
                if let Some(m) = world.progress_marker() {
                    if last_marker == Some(m) {
                        spin_polls += 1;
                    } else {
                        last_marker = Some(m);
                        spin_polls = 0;
                    }
                    if spin_polls >= SPIN_LIMIT {
                        spinning = true;
                        spin_polls = 0;
                        let mut r = self.rec.lock().unwrap();
                        r.spins += 1;
                        if r.spins > 50 {
                            drop(r);
                            drop(wg);
                            self.finish(Verdict::Violation(Violation::new("livelock", "poll horizon exceeded", "busy loop that no environment event ends".to_string())));
                            finishing = true;
                            continue;
                        }
                        r.log.push(format!("[{}] SPIN: {SPIN_LIMIT} task polls without quiescence or observable activity - treated as a quiescent point", STEP.with(|s| s.get())));
                    }
                }
            } else {
                spin_polls = 0;
            }
            let quiescent = !ran || spinning;
            let evs = world.enabled(quiescent);
            let n_alts = if quiescent { evs.len() } else { evs.len() + 1 };
            if quiescent && evs.is_empty() {
                // quiescent-state oracle, then drain or finish
                if let Err(v) = world.check(true) {
                    drop(wg);
                    self.finish(Verdict::Violation(v));
                    finishing = true;
                    continue;
                }
                if world.drain() {
                    STEP.with(|s| s.set(s.get() + 1));
                    self.rec.lock().unwrap().events += 1;
                    if let Err(v) = world.check(false) {
                        drop(wg);
                        self.finish(Verdict::Violation(v));
                        finishing = true;
                    }
                    continue;
                }
                let v = match world.finish() {
                    Ok(o) => Verdict::Ok(o),
                    Err(v) => Verdict::Violation(v),
                };
                drop(wg);
                self.finish(v);
                finishing = true;
                continue;
            }
            if n_alts <= 1 && !quiescent {
                // only "continue" possible: not a choice point
                continue;
            }
            if quiescent {
                if let Err(v) = world.check(true) {
                    drop(wg);
                    self.finish(Verdict::Violation(v));
                    finishing = true;
                    continue;
                }
            }
            let mut c = if next_choice < self.choices.len() { self.choices[next_choice] } else { 0 };
            if let Some(script) = &self.script {
                let mut q = script.borrow_mut();
                c = 0;
                if let Some(want) = q.front().cloned() {
                    let (inject, name) = match want.strip_prefix('!') {
                        Some(n) => (true, n.to_string()),
                        None => (false, want.clone()),
                    };
                    let pos = evs.iter().position(|e| format!("{e:?}") == name);
                    if quiescent {
                        match pos {
                            Some(i) if !inject => {
                                c = i as u16;
                                q.pop_front();
                            }
                            _ => {
                                drop(q);
                                drop(wg);
                                self.finish(Verdict::Machinery(format!("script event {want} not enabled at quiescent point; enabled: {evs:?}")));
                                finishing = true;
                                continue;
                            }
                        }
                    } else if inject {
                        if let Some(i) = pos {
                            c = i as u16 + 1;
                            q.pop_front();
                        }
                    }
                } else if quiescent {
                    // script exhausted: stop here (drain + final oracle)
                    c = u16::MAX;
                }
            }
            if c == u16::MAX {
                if world.drain() {
                    continue;
                }
                let v = match world.finish() {
                    Ok(o) => Verdict::Ok(o),
                    Err(v) => Verdict::Violation(v),
                };
                drop(wg);
                self.finish(v);
                finishing = true;
                continue;
            }
            next_choice += 1;
            {
                let mut r = self.rec.lock().unwrap();
                r.points.push(Point { n_alts: n_alts as u16, running: !quiescent });
                r.choices.push(c);
            }
            if (c as usize) >= n_alts {
                drop(wg);
                self.finish(Verdict::Machinery(format!(
                    "replay divergence: choice {c} out of range ({n_alts} alternatives) at point {}",
                    next_choice - 1
                )));
                finishing = true;
                continue;
            }
            let ev = if quiescent {
                Some(evs[c as usize])
            } else if c == 0 {
                None
            } else {
                Some(evs[c as usize - 1])
            };
            if let Some(ev) = ev {
                STEP.with(|s| s.set(s.get() + 1));
                {
                    let mut r = self.rec.lock().unwrap();
                    r.events += 1;
                    let lbl = format!("{}{:?}", if quiescent { "" } else { "!" }, ev);
                    r.log.push(format!("[{}] EV {}", step(), lbl));
                    r.labels.push(lbl);
                }
                world.apply(ev);
                if let Err(v) = world.check(false) {
                    drop(wg);
                    self.finish(Verdict::Violation(v));
                    finishing = true;
                    continue;
                }
            }
            self.rec.lock().unwrap().polls = polls;
        }
    }
}

/// Body of one execution on the current thread. Returns true if it unwound (panicked).
fn exec_here<S: Scenario>(cfg: &S::Cfg, choices: &[u16], script: Option<Vec<String>>, max_polls: u64, rec: &Arc<Mutex<ExecRecord>>) -> bool {
    IN_EXEC.with(|c| c.set(true));
    REC.with(|r| *r.borrow_mut() = Some(rec.clone()));
    HEART.with(|h| {
        *h.exec.lock().unwrap() = Some((rec.clone(), format!("{cfg:?}"), S::livelock_is_violation()));
        h.tick.fetch_add(1, Ordering::Relaxed);
        h.busy.store(true, Ordering::Relaxed);
    });
    POLLS.with(|p| p.set(0));
    STEP.with(|p| p.set(0));
    let cfg2 = cfg.clone();
    let choices = choices.to_vec();
    let rec2 = rec.clone();
    let r = std::panic::catch_unwind(std::panic::AssertUnwindSafe(move || {
        let rt = Runtime::builder().event_interval(1).build(Box::new(NoNotify));
        let world: Rc<RefCell<Option<S>>> = Rc::new(RefCell::new(None));
        let root = Rc::new(RootState { done: Cell::new(false), torn_down: Cell::new(false), world_dropped: Cell::new(false), waker: RefCell::new(None) });
        let drv = Drv::<S> { world: world.clone(), root: root.clone(), choices, script: script.map(|v| RefCell::new(v.into())), max_polls, rec: rec2 };
        let w2 = world.clone();
        let r2 = root.clone();
        let fut = async move {
            bump_root_poll();
            let s = S::build(&cfg2).await;
            *w2.borrow_mut() = Some(s);
            RootWait(r2.clone()).await;
            // drop the world inside the runtime so destructors can spawn/encode
            let s = w2.borrow_mut().take();
            drop(s);
            // let the endpoints notice (peer gone), shut down and free their tasks before the runtime goes away
            r2.world_dropped.set(true);
            TeardownWait(r2).await;
            // Drop the wakers that keep the timer tasks alive while the runtime still exists: dropping a
            // task's last waker re-schedules it so that the executor drops its future; with the runtime
            // gone that would never happen and the task (with its buffers) would leak.
            unsafe { ntex_rt::remove_all_items() };
            ntex_util::time::vclock::reset();
        };
        rt.block_on(fut, &drv);
        if std::env::var("VERIF_LEAKDBG").is_ok() {
            eprintln!("alive after block_on: {}", alive_tasks());
        }
        drop(drv);
        drop(rt);
        if std::env::var("VERIF_LEAKDBG").is_ok() {
            eprintln!("alive after rt drop: {}", alive_tasks());
        }
    }));
    // return the thread to a pristine state (timers, io manager, virtual clock)
    let cleanup = std::panic::catch_unwind(|| {
        unsafe { ntex_rt::remove_all_items() };
        if std::env::var("VERIF_LEAKDBG").is_ok() {
            eprintln!("alive after remove_all_items: {}", alive_tasks());
        }
        ntex_util::time::vclock::reset();
        if std::env::var("VERIF_LEAKDBG").is_ok() {
            eprintln!("alive after vclock reset: {}", alive_tasks());
            dump_alive_tasks();
        }
    });
    REC.with(|r| *r.borrow_mut() = None);
    IN_EXEC.with(|c| c.set(false));
    HEART.with(|h| {
        h.busy.store(false, Ordering::Relaxed);
        *h.exec.lock().unwrap() = None;
    });
    EXECS_DONE.fetch_add(1, Ordering::Relaxed);
    r.is_err() || cleanup.is_err()
}

fn seal(rec: Arc<Mutex<ExecRecord>>, panicked: bool) -> ExecRecord {
    let mut out = rec.lock().map(|g| g.clone()).unwrap_or_else(|p| p.into_inner().clone());
    if panicked {
        let p = out.panic.clone().unwrap_or_else(|| "panic (location unknown)".into());
        // only a panic that is not already explained by a verdict becomes the verdict
        if !matches!(out.verdict, Some(Verdict::Violation(_))) {
            out.verdict = Some(Verdict::Violation(Violation::new("panic", panic_site(&p), format!("panicked at {p}"))));
        }
    } else if out.verdict.is_none() {
        out.verdict = Some(Verdict::Machinery("execution ended without a verdict".into()));
    }
    out
}

/// Run one execution of scenario `S` under `choices` on a fresh OS thread (reference isolation).
pub fn run_one<S: Scenario>(cfg: &S::Cfg, choices: &[u16], max_polls: u64) -> ExecRecord {
    global_init();
    let rec = Arc::new(Mutex::new(ExecRecord::default()));
    let rec2 = rec.clone();
    let cfg = cfg.clone();
    let choices = choices.to_vec();
    let h = std::thread::Builder::new()
        .stack_size(4 << 20)
        .spawn(move || exec_here::<S>(&cfg, &choices, None, max_polls, &rec2))
        .expect("spawn execution thread");
    let panicked = h.join().unwrap_or(true);
    seal(rec, panicked)
}

/// Run the schedule given by event labels (debugging, seeded demonstrations) on a fresh thread.
pub fn run_script<S: Scenario>(cfg: &S::Cfg, labels: &[String], max_polls: u64) -> ExecRecord {
    global_init();
    let rec = Arc::new(Mutex::new(ExecRecord::default()));
    let rec2 = rec.clone();
    let cfg = cfg.clone();
    let labels = labels.to_vec();
    let h = std::thread::Builder::new()
        .stack_size(4 << 20)
        .spawn(move || exec_here::<S>(&cfg, &[], Some(labels), max_polls, &rec2))
        .expect("spawn execution thread");
    let panicked = h.join().unwrap_or(true);
    seal(rec, panicked)
}

/// Run one execution on the *current* (reused) thread. `.1` = the thread must be retired.
pub fn run_reused<S: Scenario>(cfg: &S::Cfg, choices: &[u16], max_polls: u64) -> (ExecRecord, bool) {
    global_init();
    let rec = Arc::new(Mutex::new(ExecRecord::default()));
    let panicked = exec_here::<S>(cfg, choices, None, max_polls, &rec);
    (seal(rec, panicked), panicked)
}

/// Is thread reuse (with the cleanup in `exec_here`) observationally identical to a fresh thread
/// for this configuration? Compares full observation logs of a few schedules run both ways.
pub fn reuse_is_deterministic<S: Scenario>(cfg: &S::Cfg, max_polls: u64) -> bool {
    let cfg = cfg.clone();
    let fresh_root = run_one::<S>(&cfg, &[], max_polls);
    // a second schedule: deviate at the last choice point that has an alternative
    let mut alt: Vec<u16> = Vec::new();
    if let Some(i) = fresh_root.points.iter().rposition(|p| p.n_alts > 1) {
        alt = fresh_root.choices[..i].to_vec();
        alt.push(1);
    }
    let fresh_alt = run_one::<S>(&cfg, &alt, max_polls);
    let h = std::thread::Builder::new().stack_size(4 << 20).spawn(move || {
        let mut ok = true;
        for _ in 0..2 {
            let (a, _) = run_reused::<S>(&cfg, &alt, max_polls);
            let (r, _) = run_reused::<S>(&cfg, &[], max_polls);
            ok &= r.log == fresh_root.log && r.points == fresh_root.points && r.polls == fresh_root.polls;
            ok &= a.log == fresh_alt.log && a.points == fresh_alt.points && a.polls == fresh_alt.polls;
        }
        ok
    });
    h.map(|h| h.join().unwrap_or(false)).unwrap_or(false)
}

/// Reduce "file:line: msg" to "file: msg" (line numbers drift under harmless edits).
pub fn panic_site(p: &str) -> String {
    let mut parts = p.splitn(3, ':');
    let file = parts.next().unwrap_or("?");
    let _line = parts.next();
    let msg = parts.next().unwrap_or("").trim();
    let file = file.rsplit("/repo/").next().unwrap_or(file);
    format!("{file}: {msg}")
}

// ---------------------------------------------------------------------------
// exploration

#[derive(Clone, Debug)]
pub struct ExploreCfg {
    pub max_dev: u32,
    pub threads: usize,
    pub max_polls: u64,
    pub time_cap: Duration,
    pub max_execs: u64,
    pub stop_after_violations: usize,
    pub reuse_threads: bool,
}

impl Default for ExploreCfg {
    fn default() -> Self {
        ExploreCfg {
            max_dev: 1,
            threads: std::thread::available_parallelism().map(|n| n.get()).unwrap_or(8),
            max_polls: 20_000,
            time_cap: Duration::from_secs(600),
            max_execs: u64::MAX,
            stop_after_violations: 5,
            reuse_threads: true,
        }
    }
}

#[derive(Clone, Debug)]
pub struct FoundViolation {
    pub cfg: String,
    pub choices: Vec<u16>,
    pub labels: Vec<String>,
    pub violation: Violation,
    pub log: Vec<String>,
}

#[derive(Debug, Default)]
pub struct Stats {
    pub execs: u64,
    pub points: u64,
    pub transitions: u64,
    pub outcomes: HashSet<u64>,
    pub nontrivial_outcomes: HashSet<u64>,
    pub nontrivial_execs: u64,
    /// executions in which a busy loop was recognised (see Scenario::progress_marker)
    pub spin_execs: u64,
    pub spin_sample: Option<Vec<String>>,
    pub max_depth: usize,
    pub violations: Vec<FoundViolation>,
    pub violation_classes: BTreeMap<String, u64>,
    pub machinery_errors: Vec<String>,
    pub cap_hit: Option<String>,
    pub samples: Vec<Vec<String>>,
    pub isolation: Option<String>,
}

impl Stats {
    pub fn merge(&mut self, o: Stats) {
        self.execs += o.execs;
        self.points += o.points;
        self.transitions += o.transitions;
        self.outcomes.extend(o.outcomes);
        self.nontrivial_outcomes.extend(o.nontrivial_outcomes);
        self.nontrivial_execs += o.nontrivial_execs;
        self.spin_execs += o.spin_execs;
        if self.spin_sample.is_none() {
            self.spin_sample = o.spin_sample;
        }
        self.max_depth = self.max_depth.max(o.max_depth);
        for v in o.violations {
            if self.violations.len() < 50 {
                self.violations.push(v);
            }
        }
        for (k, n) in o.violation_classes {
            *self.violation_classes.entry(k).or_default() += n;
        }
        self.machinery_errors.extend(o.machinery_errors);
        if self.cap_hit.is_none() {
            self.cap_hit = o.cap_hit;
        }
        for s in o.samples {
            if self.samples.len() < 4 {
                self.samples.push(s);
            }
        }
    }
}

fn hash_str(s: &str) -> u64 {
    let mut h = DefaultHasher::new();
    s.hash(&mut h);
    h.finish()
}

struct Shared {
    stack: Mutex<(Vec<Vec<u16>>, usize)>, // (pending prefixes, active workers)
    cv: Condvar,
    stop: AtomicBool,
    execs: AtomicU64,
}

/// Deviation-bounded stateless DFS of scenario `S` under one configuration.
pub fn explore<S: Scenario>(cfg: &S::Cfg, ecfg: &ExploreCfg, deadline: Instant) -> Stats {
    global_init();
    let shared = Arc::new(Shared {
        stack: Mutex::new((vec![Vec::new()], 0)),
        cv: Condvar::new(),
        stop: AtomicBool::new(false),
        execs: AtomicU64::new(0),
    });
    let total = Arc::new(Mutex::new(Stats::default()));
    let reuse = ecfg.reuse_threads && reuse_is_deterministic::<S>(cfg, ecfg.max_polls);
    std::thread::scope(|sc| {
        for _ in 0..ecfg.threads.max(1) {
            let shared = shared.clone();
            let total = total.clone();
            sc.spawn(move || {
                // supervisor: a worker thread is retired after an execution panicked in it
                loop {
                    let shared = shared.clone();
                    let total = total.clone();
                    let cfg = cfg.clone();
                    let ecfg = ecfg.clone();
                    let h = std::thread::Builder::new().stack_size(4 << 20).spawn(move || {
                        worker::<S>(&cfg, &ecfg, deadline, &shared, &total, reuse)
                    });
                    match h.map(|h| h.join()) {
                        Ok(Ok(true)) => continue, // retired, start a fresh worker
                        _ => break,
                    }
                }
            });
        }
    });
    total.lock().unwrap().isolation = Some(if reuse { "reused worker threads (self-check: identical to fresh threads)".into() } else { "fresh OS thread per execution".into() });
    Arc::try_unwrap(total).ok().unwrap().into_inner().unwrap()
}

/// Worker loop; returns true when the thread must be retired (an execution panicked in it).
fn worker<S: Scenario>(cfg: &S::Cfg, ecfg: &ExploreCfg, deadline: Instant, shared: &Arc<Shared>, total: &Arc<Mutex<Stats>>, reuse: bool) -> bool {
    let mut local = Stats::default();
    let mut retire = false;
    loop {
        let prefix = {
            let mut g = shared.stack.lock().unwrap();
            loop {
                if shared.stop.load(Ordering::Relaxed) {
                    break None;
                }
                if let Some(p) = g.0.pop() {
                    g.1 += 1;
                    break Some(p);
                }
                if g.1 == 0 {
                    break None;
                }
                g = shared.cv.wait(g).unwrap();
            }
        };
        let Some(prefix) = prefix else {
            shared.cv.notify_all();
            break;
        };
        let rec = if reuse {
            let (rec, dirty) = run_reused::<S>(cfg, &prefix, ecfg.max_polls);
            retire = dirty;
            rec
        } else {
            run_one::<S>(cfg, &prefix, ecfg.max_polls)
        };
        let n = shared.execs.fetch_add(1, Ordering::Relaxed) + 1;
        local.execs += 1;
        local.points += rec.points.len() as u64;
        local.transitions += rec.polls + rec.events;
        local.max_depth = local.max_depth.max(rec.points.len());
        if rec.spins > 0 {
            local.spin_execs += 1;
            if local.spin_sample.is_none() {
                local.spin_sample = Some(rec.labels.clone());
            }
        }
        let mut children: Vec<Vec<u16>> = Vec::new();
        let mut is_violation = false;
        match &rec.verdict {
            Some(Verdict::Ok(o)) => {
                let h = hash_str(&o.obs);
                local.outcomes.insert(h);
                if o.nontrivial {
                    local.nontrivial_execs += 1;
                    local.nontrivial_outcomes.insert(h);
                }
                if local.samples.len() < 2 && (o.nontrivial || local.execs < 3) {
                    local.samples.push(rec.labels.clone());
                }
            }
            Some(Verdict::Violation(v)) => {
                is_violation = true;
                let key = format!("{}|{}", v.clause, v.witness);
                let cnt = local.violation_classes.entry(key).or_default();
                *cnt += 1;
                if *cnt <= 1 && local.violations.len() < 50 {
                    local.violations.push(FoundViolation {
                        cfg: format!("{cfg:?}"),
                        choices: rec.choices.clone(),
                        labels: rec.labels.clone(),
                        violation: v.clone(),
                        log: rec.log.clone(),
                    });
                }
            }
            Some(Verdict::Machinery(m)) => {
                if local.machinery_errors.len() < 10 {
                    local.machinery_errors.push(format!("{m} (cfg {cfg:?} choices {:?})", rec.choices));
                }
            }
            None => {}
        }
        if rec.choices.len() < prefix.len() && !is_violation {
            local.machinery_errors.push(format!(
                "replay divergence: prefix {:?} longer than execution {:?} (cfg {cfg:?})",
                prefix, rec.choices
            ));
        }
        // children: deviate at every point after the prefix
        let mut devs: u32 = 0;
        for (i, p) in rec.points.iter().enumerate() {
            let c = rec.choices[i];
            if i >= prefix.len() {
                for alt in 1..p.n_alts {
                    let cost = devs + if p.running { 1 } else { S::quiescent_alt_cost() };
                    if cost <= ecfg.max_dev {
                        let mut child = rec.choices[..i].to_vec();
                        child.push(alt);
                        children.push(child);
                    }
                }
            }
            if p.running && c != 0 {
                devs += 1;
            } else if !p.running && c != 0 {
                devs += S::quiescent_alt_cost();
            }
        }
        let mut over = n >= ecfg.max_execs || Instant::now() >= deadline;
        if n % 4096 == 0 {
            // RSS cap inside the engine: a runaway exploration must end as a reported cap, not as an OOM kill
            let rss_kb = std::fs::read_to_string("/proc/self/statm").ok().and_then(|s| s.split_whitespace().nth(1).and_then(|x| x.parse::<u64>().ok())).unwrap_or(0) * 4;
            if rss_kb > 24 * 1024 * 1024 {
                local.cap_hit = Some(format!("resident set {} MB exceeded the 24 GB engine cap after {n} executions", rss_kb / 1024));
                over = true;
            }
        }
        {
            let mut g = shared.stack.lock().unwrap();
            g.1 -= 1;
            if over {
                if !children.is_empty() || !g.0.is_empty() {
                    local.cap_hit = Some(format!("stopped after {n} executions (time/exec cap) with work pending"));
                }
                shared.stop.store(true, Ordering::Relaxed);
            } else {
                // reverse so that the simplest alternative is popped first
                children.reverse();
                g.0.extend(children);
            }
        }
        shared.cv.notify_all();
        if retire {
            break;
        }
    }
    total.lock().unwrap().merge(local);
    retire
}
