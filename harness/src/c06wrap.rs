//! C06: packet identifiers across the 65535 -> 1 wrap-around (one long deterministic history per role).
use std::future::Future;
use std::pin::Pin;

use crate::check::{Check, Tier};
use crate::outbound::*;
use crate::refmqtt::{self as rf, Pkt};
use crate::simnet::*;
use crate::world::*;

pub struct Wrap {
    conn: Conn,
    app: App,
    total: u32,
    started: bool,
    seen: usize,
    acked: u32,
    outstanding: Vec<u16>,
    ids: Vec<u16>,
    err: Option<String>,
}

#[derive(Clone, Debug)]
pub struct WrapCfg {
    pub ep: EpCfg,
    pub total: u32,
}

async fn sender_v5(sink: ntex_mqtt::v5::MqttSink, n: u32, app: App) {
    for _ in 0..n {
        let r = sink.publish(bs("t")).send_at_least_once(by(b"w")).await;
        if let Err(e) = r {
            app.borrow_mut()[0].results.push(format!("err:{e:?}"));
            break;
        }
    }
    app.borrow_mut()[0].done = true;
}

async fn sender_v3(sink: ntex_mqtt::v3::MqttSink, n: u32, app: App) {
    for _ in 0..n {
        let r = sink.publish(bs("t")).send_at_least_once(by(b"w")).await;
        if let Err(e) = r {
            app.borrow_mut()[0].results.push(format!("err:{e:?}"));
            break;
        }
    }
    app.borrow_mut()[0].done = true;
}

impl Scenario for Wrap {
    type Cfg = WrapCfg;
    type Ev = u8;
    fn build(cfg: &WrapCfg) -> Pin<Box<dyn Future<Output = Self>>> {
        let cfg = cfg.clone();
        Box::pin(async move {
            let ocfg = OutCfg { ep: cfg.ep.clone(), cap: 3, senders: vec![], cancels: 0, batch: false, bp: 0, peer: PeerMode::Correct, judge: 0, prologue: 0, peer_max_packet: 0, inbound: 0, may_close: false, inbound_faults: false, cancel_inflight: false };
            let conn = start_endpoint(&cfg.ep, connect_props_for(&ocfg), true).await;
            let app: App = std::rc::Rc::new(std::cell::RefCell::new(vec![SenderSt::default(), SenderSt::default(), SenderSt::default()]));
            Wrap { conn, app, total: cfg.total, started: false, seen: 0, acked: 0, outstanding: vec![], ids: vec![], err: None }
        })
    }
    fn enabled(&self, q: bool) -> Vec<u8> {
        // a single deterministic schedule: start, then acknowledge the oldest outstanding publish at every quiescent point
        if !q || self.err.is_some() {
            return vec![];
        }
        if !self.started {
            if self.conn.sink().is_some() { vec![0] } else { vec![] }
        } else if !self.outstanding.is_empty() {
            vec![1]
        } else {
            vec![]
        }
    }
    fn apply(&mut self, ev: u8) {
        if ev == 0 {
            self.started = true;
            // three concurrent loop senders so that the window (3) is always full
            let per = self.total / 3;
            for j in 0..3 {
                let app = self.app.clone();
                match self.conn.sink().unwrap() {
                    Sink::V5(s) => {
                        let a2 = app.clone();
                        ntex_rt::spawn(async move {
                            sender_v5(s, per, a2.clone()).await;
                            a2.borrow_mut()[j].done = true;
                        });
                    }
                    Sink::V3(s) => {
                        let a2 = app.clone();
                        ntex_rt::spawn(async move {
                            sender_v3(s, per, a2.clone()).await;
                            a2.borrow_mut()[j].done = true;
                        });
                    }
                }
            }
        } else {
            let id = self.outstanding.remove(0);
            self.acked += 1;
            self.conn.send(&rf::ack(4, id));
        }
    }
    fn check(&mut self, _q: bool) -> Result<(), Violation> {
        self.conn.pump();
        while self.seen < self.conn.out.len() {
            if let Pkt::Publish { pid: Some(id), qos: 1, .. } = &self.conn.out[self.seen].1 {
                if *id == 0 {
                    self.err = Some("packet id 0 on the wire".into());
                }
                if self.outstanding.contains(id) {
                    self.err = Some(format!("packet id {id} written while a send with the same id is outstanding"));
                }
                self.outstanding.push(*id);
                if self.ids.len() < 8 || *id > 65530 || *id < 4 {
                    self.ids.push(*id);
                }
            }
            self.seen += 1;
        }
        // keep memory bounded: the parsed packets are not needed any more
        if self.conn.out.len() > 4096 {
            self.conn.out.clear();
            self.seen = 0;
        }
        if self.outstanding.len() > 3 {
            self.err = Some(format!("{} publishes outstanding with window 3", self.outstanding.len()));
        }
        if let Some(e) = &self.err {
            return Err(Violation::new("id-wraparound", format!("{}", self.conn.cfg.label()), format!("{e}; acked {} ids near the wrap {:?}", self.acked, self.ids)));
        }
        Ok(())
    }
    fn finish(&mut self) -> Result<Outcome, Violation> {
        let stops = self.conn.log.stops();
        let a = self.app.borrow();
        let failed: Vec<&String> = a.iter().flat_map(|s| s.results.iter()).collect();
        if !stops.is_empty() || !failed.is_empty() || self.acked < (self.total / 3) * 3 {
            return Err(Violation::new(
                "id-wraparound",
                format!("{} incomplete", self.conn.cfg.label()),
                format!("history of {} acknowledged sends ended after {} with stops {stops:?} failures {failed:?}", self.total, self.acked),
            ));
        }
        Ok(Outcome { obs: format!("acked={} ids={:?}", self.acked, self.ids), nontrivial: self.acked > 65535 })
    }
}

pub fn wraparound(ck: &mut Check, tier: Tier) {
    let ecfg = ExploreCfg { max_dev: 0, max_polls: 50_000_000, threads: 4, ..Default::default() };
    let mut i = 200;
    for (ver, role) in crate::c05::roles() {
        let total = if tier == Tier::Quick { 66_000 } else { 140_000 };
        let cfg = WrapCfg { ep: ep_for(EpCfg::new(ver, role), 3, false), total };
        ck.explore::<Wrap>("id-wraparound", i, &cfg, &ecfg);
        i += 1;
    }
}
