//! C09: encoder emits exactly one frame with a truthful length, within the peer's maximum
//! packet size, shortening only Reason String / User Properties; failed encodes leave nothing.
use std::sync::Mutex;
use std::sync::atomic::{AtomicU64, Ordering};
use std::time::Duration;

use ntex_bytes::{ByteString, BytesMut};
use ntex_codec::Decoder;
use ntex_mqtt::{QoS, v3, v5};
use serde_json::json;

use crate::c02::{FindMap, fold};
use crate::check::{Check, Finding, Tier};
use crate::genpkt::*;
use crate::libconv::*;
use crate::refmqtt::{self as rf, PVal, Pkt, Props, Ver};

fn fnd(clause: &str, witness: String, detail: String, input: serde_json::Value) -> Finding {
    Finding { clause: clause.into(), witness, detail, replay: json!({"engine": "enum", "check": "c09", "input": input}) }
}

fn kind(p: &Pkt) -> &'static str {
    crate::c02::pkt_kind(p.type_nibble() << 4)
}

/// split a property list into (diagnostic = reason string + user properties, everything else)
fn split_diag(p: &Props) -> (Option<String>, Vec<(String, String)>, Props) {
    let mut rs = None;
    let mut up = Vec::new();
    let mut rest = Vec::new();
    for (id, v) in p {
        match (id, v) {
            (0x1F, PVal::Str(s)) => rs = Some(s.clone()),
            (0x26, PVal::Pair(k, v)) => up.push((k.clone(), v.clone())),
            _ => rest.push((*id, v.clone())),
        }
    }
    (rs, up, rest)
}

fn props_of(p: &Pkt) -> Props {
    match rf::canon(p) {
        Pkt::Connect { props, .. }
        | Pkt::ConnAck { props, .. }
        | Pkt::Publish { props, .. }
        | Pkt::Subscribe { props, .. }
        | Pkt::SubAck { props, .. }
        | Pkt::Unsubscribe { props, .. }
        | Pkt::UnsubAck { props, .. } => props,
        Pkt::Ack { props, .. } | Pkt::Disconnect { props, .. } | Pkt::Auth { props, .. } => props.unwrap_or_default(),
        _ => Vec::new(),
    }
}

fn strip_diag(p: &Pkt) -> Pkt {
    let keep = |props: &Props| -> Props { props.iter().filter(|(i, _)| *i != 0x1F && *i != 0x26).cloned().collect() };
    match rf::canon(p) {
        Pkt::ConnAck { session_present, code, props } => Pkt::ConnAck { session_present, code, props: keep(&props) },
        Pkt::Ack { typ, pid, code, props } => Pkt::Ack { typ, pid, code, props: props.map(|p| keep(&p)) },
        Pkt::SubAck { pid, props, codes } => Pkt::SubAck { pid, props: keep(&props), codes },
        Pkt::UnsubAck { pid, props, codes } => Pkt::UnsubAck { pid, props: keep(&props), codes },
        Pkt::Disconnect { code, props } => Pkt::Disconnect { code, props: props.map(|p| keep(&p)) },
        Pkt::Auth { code, props } => Pkt::Auth { code, props: props.map(|p| keep(&p)) },
        other => other,
    }
}

/// Packet kinds for which the spec allows dropping Reason String / User Properties to fit.
fn may_shorten(p: &Pkt) -> bool {
    matches!(p, Pkt::ConnAck { .. } | Pkt::Ack { .. } | Pkt::SubAck { .. } | Pkt::UnsubAck { .. } | Pkt::Disconnect { .. } | Pkt::Auth { .. })
}

/// Slack granted to the library's conservative size estimate before "dropped although it fits" is reported.
const FIT_SLACK: usize = 20;

pub fn check_v5(enc: &v5::codec::Encoded, payload_len: usize, limit: u32, no_problem_info: bool, out: &mut Vec<Finding>) {
    use v5::codec::Encoded;
    let want = match enc {
        Encoded::Packet(p) => v5_to_ref(p),
        Encoded::Publish(p, _) => v5_publish_to_ref(p, &vec![0xAB; payload_len]),
        Encoded::PayloadChunk(_) => return,
    };
    let k = kind(&want);
    let inp = || json!({"ver": 5, "limit": limit, "no_problem_info": no_problem_info, "value": format!("{enc:?}").chars().take(1500).collect::<String>()});
    let codec = v5::codec::Codec::new();
    if limit != 0 {
        // (the setter is library code too: a panic in it is a finding, not the end of the check)
        if let Err(p) = std::panic::catch_unwind(std::panic::AssertUnwindSafe(|| codec.set_max_outbound_size(limit))) {
            out.push(fnd("panic", "v5 Codec::set_max_outbound_size".to_string(), format!("setting the outbound limit {limit} panicked: {}", crate::libconv::panic_msg(p)), inp()));
            return;
        }
    }
    if no_problem_info {
        // the public way to switch problem information off: decode a CONNECT that declines it
        let mut c = rf::connect(Ver::V5, "x", 0, vec![(0x17, PVal::Byte(0))]);
        if let Pkt::Connect { clean, .. } = &mut c {
            *clean = true;
        }
        let mut src = BytesMut::copy_from_slice(&rf::encode(Ver::V5, &c));
        let announced__ = src.to_vec();
        crate::check::b_enter("Codec::decode", &announced__);
        let _ = codec.decode(&mut src);
        crate::check::b_leave();
    }
    let full_len = std::panic::catch_unwind(|| rf::encode(Ver::V5, &rf::canon(&want)).len()).unwrap_or(usize::MAX / 2);
    match enc_v5(&codec, enc.clone()) {
        EncOut::Panic(m) => {
            let site = m.split(" at ").next().unwrap_or(&m).to_string();
            out.push(fnd("panic", format!("v5 {k} encode: {site}"), format!("encode panicked with limit {limit}: {m}"), inp()));
        }
        EncOut::Err(e, left) => {
            if !left.is_empty() {
                out.push(fnd(
                    "failed-encode-leaves-bytes",
                    format!("v5 {k}: {}", e.split('(').next().unwrap_or(&e)),
                    format!("encode returned Err({e}) but left {} bytes in the output: {}", left.len(), rf::hex(&left)),
                    inp(),
                ));
            }
            // a packet that fits comfortably, carrying nothing oversized, must not be refused
            if limit != 0 && e.contains("OverMaxPacketSize") && may_shorten(&want) {
                let min_len = std::panic::catch_unwind(|| rf::encode(Ver::V5, &strip_diag(&want)).len()).unwrap_or(usize::MAX / 2);
                if min_len + FIT_SLACK <= limit as usize {
                    out.push(fnd(
                        "refuses-fitting",
                        format!("v5 {k}"),
                        format!("packet needs {min_len} bytes without diagnostics, limit {limit}, yet encode failed with {e}"),
                        inp(),
                    ));
                }
            }
        }
        EncOut::Ok(bytes) => {
            // exactly one frame, truthful Remaining Length
            let got = match rf::decode(Ver::V5, &bytes) {
                Ok((p, n)) if n == bytes.len() => p,
                other => {
                    out.push(fnd(
                        "not-one-frame",
                        format!("v5 {k}"),
                        format!("output {} does not parse as exactly one frame: {other:?}", rf::hex(&bytes)),
                        inp(),
                    ));
                    return;
                }
            };
            if limit != 0 && bytes.len() > limit as usize {
                out.push(fnd(
                    "exceeds-limit",
                    format!("v5 {k}"),
                    format!("frame of {} bytes written with Maximum Packet Size {limit}", bytes.len()),
                    inp(),
                ));
            }
            // size the library reports when decoding it back
            let c2 = v5::codec::Codec::new();
            let mut src = BytesMut::copy_from_slice(&bytes);
            let (_, _, rl) = rf::frame(&bytes).unwrap();
            crate::check::b_enter("v5 Codec::decode (of the library's own output)", &bytes);
            let back = c2.decode(&mut src);
            crate::check::b_leave();
            match back {
                Ok(Some(v5::codec::Decoded::Packet(_, sz))) | Ok(Some(v5::codec::Decoded::Publish(_, _, sz))) => {
                    if sz as usize != rl {
                        out.push(fnd("size", format!("v5 {k}"), format!("reported size {sz}, Remaining Length {rl}"), inp()));
                    }
                }
                other => out.push(fnd("not-one-frame", format!("v5 {k}"), format!("library cannot decode its own output: {other:?}"), inp())),
            }
            // content: equal except dropped diagnostics
            let (wrs, wup, wrest) = split_diag(&props_of(&want));
            let (grs, gup, grest) = split_diag(&props_of(&got));
            let strip_on_npi = no_problem_info && matches!(want, Pkt::Ack { .. } | Pkt::SubAck { .. } | Pkt::UnsubAck { .. } | Pkt::Auth { .. });
            if no_problem_info && matches!(want, Pkt::Subscribe { .. } | Pkt::Unsubscribe { .. }) {
                // the library also strips user properties from SUBSCRIBE/UNSUBSCRIBE once a CONNECT declining
                // problem information was decoded; an endpoint in that position (a server) never sends these
                // packets, and the statement only speaks about acknowledgements: not judged.
                return;
            }
            if strip_diag(&want) != strip_diag(&got) || wrest != grest {
                out.push(fnd(
                    "field-changed",
                    format!("v5 {k}"),
                    format!("non-diagnostic fields differ: wrote {:?} from {:?}", strip_diag(&got), strip_diag(&want)),
                    inp(),
                ));
            }
            if strip_on_npi {
                if grs.is_some() || !gup.is_empty() {
                    out.push(fnd(
                        "problem-info",
                        format!("v5 {k}"),
                        format!("peer declined problem information but the packet carries reason string {grs:?} / user properties {gup:?}"),
                        inp(),
                    ));
                }
            } else {
                let prefix_ok = gup.len() <= wup.len() && gup[..] == wup[..gup.len()];
                let rs_ok = grs.is_none() || grs == wrs;
                if !prefix_ok || !rs_ok {
                    out.push(fnd(
                        "diagnostics-mangled",
                        format!("v5 {k}"),
                        format!("reason string {grs:?} (from {wrs:?}), user properties {gup:?} (from {wup:?})"),
                        inp(),
                    ));
                }
                let dropped = gup.len() < wup.len() || (wrs.is_some() && grs.is_none());
                if dropped {
                    if !may_shorten(&want) {
                        out.push(fnd("drops-nondiagnostic", format!("v5 {k}"), "properties dropped from a packet that may not be shortened".to_string(), inp()));
                    } else if limit == 0 || full_len + FIT_SLACK <= limit as usize {
                        out.push(fnd(
                            "drops-although-fits",
                            format!("v5 {k}"),
                            format!("full packet is {full_len} bytes, limit {limit}, but wrote {} bytes without {:?}/{} user properties", bytes.len(), wrs, wup.len() - gup.len()),
                            inp(),
                        ));
                    }
                }
            }
        }
    }
}

pub fn check_v3(enc: &v3::codec::Encoded, payload_len: usize, max_size: u32, out: &mut Vec<Finding>) {
    use v3::codec::Encoded;
    let want = match enc {
        Encoded::Packet(p) => v3_to_ref(p),
        Encoded::Publish(p, _) => v3_publish_to_ref(p, &vec![0xAB; payload_len]),
        Encoded::PayloadChunk(_) => return,
    };
    let k = kind(&want);
    let inp = || json!({"ver": 3, "limit": max_size, "value": format!("{enc:?}").chars().take(1500).collect::<String>()});
    let codec = v3::codec::Codec::new();
    if let Err(p) = std::panic::catch_unwind(std::panic::AssertUnwindSafe(|| codec.set_max_size(max_size))) {
        out.push(fnd("panic", "v3 Codec::set_max_size".to_string(), format!("setting the limit {max_size} panicked: {}", crate::libconv::panic_msg(p)), inp()));
        return;
    }
    match enc_v3(&codec, enc.clone()) {
        EncOut::Panic(m) => out.push(fnd("panic", format!("v3 {k} encode"), format!("encode panicked: {m}"), inp())),
        EncOut::Err(e, left) => {
            if !left.is_empty() {
                out.push(fnd(
                    "failed-encode-leaves-bytes",
                    format!("v3 {k}: {}", e.split('(').next().unwrap_or(&e)),
                    format!("encode returned Err({e}) but left {} bytes in the output: {}", left.len(), rf::hex(&left)),
                    inp(),
                ));
            }
        }
        EncOut::Ok(bytes) => {
            let blank = |p: &Pkt| match canon_v3(p) {
                Pkt::Publish { dup, qos, retain, topic, pid, props, payload } => {
                    Pkt::Publish { dup, qos, retain, topic, pid, props, payload: vec![0; payload.len()] }
                }
                o => o,
            };
            match rf::decode(Ver::V3, &bytes) {
                Ok((p, n)) if n == bytes.len() && blank(&p) == blank(&want) => {}
                other => out.push(fnd("not-one-frame", format!("v3 {k}"), format!("output {} parses as {other:?}", rf::hex(&bytes)), inp())),
            }
            let (_, _, rl) = rf::frame(&bytes).unwrap();
            if let Encoded::Publish(..) = enc {
                if max_size != 0 && rl as u32 > max_size {
                    out.push(fnd("exceeds-limit", format!("v3 {k}"), format!("Remaining Length {rl} with max size {max_size}"), inp()));
                }
            }
        }
    }
}

fn rs_len(n: usize) -> Option<ByteString> {
    Some(ByteString::from("r".repeat(n)))
}

fn up_sized(n: usize, sz: usize) -> Vec<(ByteString, ByteString)> {
    // n >= 100 selects a list of properties of different sizes (a later one may fit where an earlier one does not)
    let mixed: &[&[usize]] = &[&[1, 12], &[12, 1], &[1, 12, 1], &[0, 20, 3], &[7, 2, 7, 2]];
    if n >= 100 {
        return mixed[(n - 100) % mixed.len()].iter().enumerate().map(|(i, s)| (ByteString::from(format!("{}", i % 10).repeat(*s)), ByteString::from("v".repeat(*s)))).collect();
    }
    (0..n).map(|i| (ByteString::from(format!("{}", i % 10).repeat(sz)), ByteString::from("v".repeat(sz)))).collect()
}

/// v5 values weighted towards packets that can be shortened.
pub fn values(full: bool) -> Vec<(v5::codec::Encoded, usize)> {
    use v5::codec as c;
    let mut v: Vec<(c::Encoded, usize)> = Vec::new();
    let rs_lens_q: &[Option<usize>] = &[None, Some(0), Some(1), Some(2), Some(3), Some(10), Some(127), Some(128)];
    let rs_lens_t: &[Option<usize>] = &[None, Some(0), Some(1), Some(2), Some(3), Some(5), Some(10), Some(20), Some(64), Some(127), Some(128), Some(300)];
    // reason strings that put the property section exactly on / next to the variable-byte-integer boundaries
    // 127|128 and 16383|16384 (section = 3 + length): the Property Length prefix changes width there
    // (seeded change C09_r7: one too small at exactly 16383)
    let boundary: &[usize] = &[123, 124, 125, 16379, 16380, 16381];
    let mut rs_all: Vec<Option<usize>> = (if full { rs_lens_t } else { rs_lens_q }).to_vec();
    rs_all.extend(boundary.iter().map(|b| Some(*b)));
    let rs_lens = &rs_all;
    let up_cfgs: Vec<(usize, usize)> = {
        let mut u = vec![(0, 0)];
        for n in 1..=4 {
            for sz in [0usize, 1, 5] {
                u.push((n, sz));
            }
        }
        // mixed sizes
        for m in 0..5 {
            u.push((100 + m, 0));
        }
        u
    };
    for rl in rs_lens {
        for (n, sz) in &up_cfgs {
            if !full && *n == 3 {
                continue;
            }
            if rl.is_some_and(|l| boundary.contains(&l)) && !matches!((*n, *sz), (0, 0) | (1, 1)) {
                continue;
            }
            let rs = rl.and_then(rs_len);
            let up = up_sized(*n, *sz);
            let pk = |p: c::Packet| (c::Encoded::Packet(p), 0usize);
            v.push(pk(c::Packet::PublishAck(c::PublishAck { packet_id: nz16(1), reason_code: c::PublishAckReason::Success, properties: up.clone(), reason_string: rs.clone() })));
            v.push(pk(c::Packet::PublishReceived(c::PublishAck { packet_id: nz16(2), reason_code: c::PublishAckReason::QuotaExceeded, properties: up.clone(), reason_string: rs.clone() })));
            v.push(pk(c::Packet::PublishRelease(c::PublishAck2 { packet_id: nz16(3), reason_code: c::PublishAck2Reason::Success, properties: up.clone(), reason_string: rs.clone() })));
            v.push(pk(c::Packet::PublishComplete(c::PublishAck2 { packet_id: nz16(4), reason_code: c::PublishAck2Reason::PacketIdNotFound, properties: up.clone(), reason_string: rs.clone() })));
            for ncodes in [0usize, 1, 3] {
                v.push(pk(c::Packet::SubscribeAck(c::SubscribeAck {
                    packet_id: nz16(5),
                    properties: up.clone(),
                    reason_string: rs.clone(),
                    status: vec![c::SubscribeAckReason::GrantedQos1; ncodes],
                })));
                v.push(pk(c::Packet::UnsubscribeAck(c::UnsubscribeAck {
                    packet_id: nz16(6),
                    properties: up.clone(),
                    reason_string: rs.clone(),
                    status: vec![c::UnsubscribeAckReason::NoSubscriptionExisted; ncodes],
                })));
            }
            for m in [0u32, 1, 3] {
                v.push(pk(c::Packet::Disconnect(c::Disconnect {
                    reason_code: c::DisconnectReasonCode::ServerBusy,
                    session_expiry_interval_secs: if m & 1 != 0 { Some(9) } else { None },
                    server_reference: if m & 2 != 0 { Some(bs("ref")) } else { None },
                    reason_string: rs.clone(),
                    user_properties: up.clone(),
                })));
                v.push(pk(c::Packet::Auth(c::Auth {
                    reason_code: c::AuthReasonCode::ContinueAuth,
                    auth_method: if m & 1 != 0 { Some(bs("m")) } else { None },
                    auth_data: if m & 2 != 0 { Some(by(b"dd")) } else { None },
                    reason_string: rs.clone(),
                    user_properties: up.clone(),
                })));
            }
            for mask in [0u32, 0x3ffff & !(1 << 15) & !(1 << 16), 0x21] {
                let mut ca = connack_with(mask, 0, 0);
                ca.reason_string = rs.clone();
                ca.user_properties = up.clone();
                v.push(pk(c::Packet::ConnectAck(Box::new(ca))));
            }
        }
    }
    // packets that must never be shortened
    for n in 0..3 {
        for ps in [0usize, 1, 40, 200] {
            let mut p = publish_with(0x2f, QoS::AtLeastOnce, false, false, ps as u32, bs("topic/name"));
            p.properties.user_properties = up_sized(n, 5);
            v.push((c::Encoded::Publish(p, Some(long_bytes(ps))), ps));
        }
        v.push((
            c::Encoded::Packet(c::Packet::Subscribe(c::Subscribe {
                packet_id: nz16(9),
                id: Some(nz32(200)),
                user_properties: up_sized(n, 5),
                topic_filters: vec![(bs("a/b/#"), c::SubscriptionOptions::default())],
            })),
            0,
        ));
        v.push((
            c::Encoded::Packet(c::Packet::Unsubscribe(c::Unsubscribe { packet_id: nz16(9), user_properties: up_sized(n, 5), topic_filters: vec![bs("a/b/#")] })),
            0,
        ));
        v.push((c::Encoded::Packet(c::Packet::Connect(Box::new(connect_with(0x7ff | (n as u32) << 13, None)))), 0));
    }
    // CONNECT with a Last Will: two property sections with a length prefix each; one of them on a variable-byte-integer
    // boundary while the other stays small, and both (seeded change C09_r10 sized the will's prefix from the CONNECT
    // section's length, so the Remaining Length was off by one)
    for n in [120usize, 124, 125, 126, 127, 128, 129, 130] {
        let mut w = crate::genpkt::will_with(0);
        w.content_type = Some(crate::genpkt::long_str(n));
        v.push((c::Encoded::Packet(c::Packet::Connect(Box::new(connect_with(0, Some(w.clone()))))), 0));
        let mut cn = connect_with(0, Some(crate::genpkt::will_with(0)));
        cn.auth_method = Some(crate::genpkt::long_str(n));
        v.push((c::Encoded::Packet(c::Packet::Connect(Box::new(cn.clone()))), 0));
        cn.last_will = Some(w);
        v.push((c::Encoded::Packet(c::Packet::Connect(Box::new(cn))), 0));
    }
    v.push((c::Encoded::Packet(c::Packet::PingRequest), 0));
    v.push((c::Encoded::Packet(c::Packet::PingResponse), 0));
    v
}

/// values whose encoding must fail (over-long fields): the failure must leave no bytes
pub fn failing_values() -> Vec<(v5::codec::Encoded, usize)> {
    use v5::codec as c;
    let big = ByteString::from("x".repeat(70_000));
    let mut v: Vec<(c::Encoded, usize)> = Vec::new();
    v.push((c::Encoded::Packet(c::Packet::Disconnect(c::Disconnect { reason_string: Some(big.clone()), ..Default::default() })), 0));
    v.push((c::Encoded::Packet(c::Packet::PublishAck(c::PublishAck { reason_string: Some(big.clone()), ..Default::default() })), 0));
    v.push((c::Encoded::Packet(c::Packet::PublishAck(c::PublishAck { properties: vec![(bs("k"), big.clone())], ..Default::default() })), 0));
    v.push((c::Encoded::Packet(c::Packet::Auth(c::Auth { auth_method: Some(big.clone()), ..Default::default() })), 0));
    v.push((c::Encoded::Packet(c::Packet::Subscribe(c::Subscribe { packet_id: nz16(1), id: None, user_properties: vec![], topic_filters: vec![(bs("ok"), c::SubscriptionOptions::default()), (big.clone(), c::SubscriptionOptions::default())] })), 0));
    v.push((c::Encoded::Packet(c::Packet::Unsubscribe(c::Unsubscribe { packet_id: nz16(1), user_properties: vec![(bs("k"), big.clone())], topic_filters: vec![bs("t")] })), 0));
    let mut ca = connack_with(0, 0, 0);
    ca.response_info = Some(big.clone());
    v.push((c::Encoded::Packet(c::Packet::ConnectAck(Box::new(ca))), 0));
    let mut co = connect_with(0, None);
    co.username = Some(big.clone());
    v.push((c::Encoded::Packet(c::Packet::Connect(Box::new(co))), 0));
    let p = publish_with(0, QoS::AtMostOnce, false, false, 3, big.clone());
    v.push((c::Encoded::Publish(p, Some(by(b"abc"))), 3));
    let mut p = publish_with(0, QoS::AtLeastOnce, false, false, 3, bs("t"));
    p.properties.user_properties = vec![(big.clone(), bs("v"))];
    v.push((c::Encoded::Publish(p, Some(by(b"abc"))), 3));
    let mut p = publish_with(0, QoS::AtMostOnce, false, false, 3, bs("t"));
    p.packet_id = Some(nz16(5)); // packet id on QoS 0
    v.push((c::Encoded::Publish(p, Some(by(b"abc"))), 3));
    let mut p = publish_with(0, QoS::AtLeastOnce, false, false, 3, bs("t"));
    p.packet_id = None; // missing packet id
    v.push((c::Encoded::Publish(p, Some(by(b"abc"))), 3));
    v
}

pub fn failing_values_v3() -> Vec<(v3::codec::Encoded, usize)> {
    use v3::codec as c;
    let big = ByteString::from("x".repeat(70_000));
    let mut v: Vec<(c::Encoded, usize)> = Vec::new();
    let p = c::Publish { dup: false, retain: false, qos: QoS::AtMostOnce, topic: big.clone(), packet_id: None, payload_size: 1 };
    v.push((c::Encoded::Publish(p, Some(by(b"a"))), 1));
    let p = c::Publish { dup: false, retain: false, qos: QoS::AtMostOnce, topic: bs("t"), packet_id: Some(nz16(1)), payload_size: 1 };
    v.push((c::Encoded::Publish(p, Some(by(b"a"))), 1));
    let p = c::Publish { dup: false, retain: false, qos: QoS::AtLeastOnce, topic: bs("t"), packet_id: None, payload_size: 1 };
    v.push((c::Encoded::Publish(p, Some(by(b"a"))), 1));
    v.push((c::Encoded::Packet(c::Packet::Subscribe { packet_id: nz16(1), topic_filters: vec![(bs("ok"), QoS::AtMostOnce), (big.clone(), QoS::AtMostOnce)] }), 0));
    v.push((c::Encoded::Packet(c::Packet::Unsubscribe { packet_id: nz16(1), topic_filters: vec![big.clone()] }), 0));
    v.push((
        c::Encoded::Packet(c::Packet::Connect(Box::new(c::Connect {
            clean_session: true,
            keep_alive: 0,
            last_will: None,
            client_id: bs("c"),
            username: Some(big.clone()),
            password: None,
        }))),
        0,
    ));
    v
}

pub fn limits(full: bool) -> Vec<u32> {
    let mut l: Vec<u32> = (0..=if full { 1200 } else { 160 }).collect(); // 0 = no limit
    if full {
        l.extend(1201..=1220);
        l.extend(16380..=16390);
        l.extend(2_097_150..=2_097_160);
    } else {
        l.extend([200, 255, 256, 300, 16383, 16384, 16385, 2_097_151, 2_097_152]);
    }
    l.extend([(1 << 28) - 1, 1 << 28, u32::MAX]);
    l
}

pub fn run(tier: Tier) -> i32 {
    let mut ck = Check::new("C09", tier, Duration::from_secs(if tier == Tier::Quick { 55 } else { 900 }));
    let full = tier == Tier::Thorough;
    if std::env::var("VERIF_LOUD").is_err() {
        std::panic::set_hook(Box::new(|_| {}));
    }
    let vals = values(full);
    let lims = limits(full);
    let findings: Mutex<FindMap> = Mutex::new(FindMap::new());
    let evals = AtomicU64::new(0);
    let shortened = AtomicU64::new(0);
    let nthreads = std::thread::available_parallelism().map(|n| n.get()).unwrap_or(8);
    let next = AtomicU64::new(0);
    std::thread::scope(|s| {
        for _ in 0..nthreads {
            s.spawn(|| {
                let mut out = Vec::new();
                let mut local = FindMap::new();
                loop {
                    let i = next.fetch_add(1, Ordering::Relaxed) as usize;
                    if i >= vals.len() {
                        break;
                    }
                    let (enc, pl) = &vals[i];
                    let full_len = match enc {
                        v5::codec::Encoded::Packet(p) => rf::encode(Ver::V5, &rf::canon(&v5_to_ref(p))).len(),
                        _ => 0,
                    };
                    for lim in &lims {
                        for npi in [false, true] {
                            check_v5(enc, *pl, *lim, npi, &mut out);
                            evals.fetch_add(1, Ordering::Relaxed);
                            if *lim != 0 && (*lim as usize) < full_len {
                                shortened.fetch_add(1, Ordering::Relaxed);
                            }
                            fold(&mut local, &mut out);
                        }
                    }
                }
                let mut g = findings.lock().unwrap();
                for (k, (n, f)) in local {
                    g.entry(k).and_modify(|e| e.0 += n).or_insert((n, f));
                }
            });
        }
    });
    // failing encodes and v3
    let mut out = Vec::new();
    let mut local = FindMap::new();
    for (enc, pl) in failing_values() {
        for lim in [0u32, 50, 1000] {
            check_v5(&enc, pl, lim, false, &mut out);
            evals.fetch_add(1, Ordering::Relaxed);
        }
    }
    for (enc, pl) in failing_values_v3() {
        for lim in [0u32, 50] {
            check_v3(&enc, pl, lim, &mut out);
            evals.fetch_add(1, Ordering::Relaxed);
        }
    }
    let mut v3n = 0u64;
    gen_v3(&mut |enc, pl| {
        for ms in [0u32, 1, 8, 200] {
            check_v3(&enc, pl.as_ref().map_or(0, |p| p.len()), ms, &mut out);
            v3n += 1;
        }
    });
    evals.fetch_add(v3n, Ordering::Relaxed);
    fold(&mut local, &mut out);
    let _ = std::panic::take_hook();
    ck.evaluations = evals.load(Ordering::Relaxed);
    ck.states = (vals.len() * lims.len() * 2) as u64;
    ck.transitions = ck.evaluations;
    ck.distinct_nontrivial = shortened.load(Ordering::Relaxed);
    ck.rule = format!(
        "{} v5 packet values (acks, SUBACK/UNSUBACK, DISCONNECT, AUTH, CONNACK with reason strings of length none/0/1/2/3/10/127/128 and 0..4 user properties of sizes 0/1/5 and five lists of mixed sizes; PUBLISH/SUBSCRIBE/UNSUBSCRIBE/CONNECT/PING as must-not-shorten controls) x {} outbound limits (every value 0..=64, boundary grid up to u32::MAX) x request-problem-information on/off; 12 v5 + 6 v3 values whose encoding must fail; every v3 generator value x max_size {{0,1,8,200}}. distinct_nontrivial = (value, limit) pairs in which the limit is below the full packet length, i.e. shortening or refusal is forced",
        vals.len(),
        lims.len()
    );
    ck.samples = vec![
        json!({"packet": "PUBACK id=1 reason_string len 10, 2 user properties (1,1)", "limits": "0..=64"}),
        json!({"packet": "DISCONNECT ServerBusy session_expiry server_reference reason_string len 127", "limit": 100}),
        json!({"packet": "DISCONNECT reason_string 70000 bytes", "expect": "Err and no bytes appended"}),
    ];
    ck.assumptions = vec![
        "Maximum Packet Size counts the whole packet including fixed header (MQTT 5 3.1.2.11.4)".into(),
        format!("the encoder may be conservative: dropping diagnostics is only reported when the full packet is at least {FIT_SLACK} bytes below the limit"),
    ];
    {
        let mut g = findings.lock().unwrap();
        for (k, (n, f)) in local {
            g.entry(k).and_modify(|e| e.0 += n).or_insert((n, f));
        }
    }
    for (_, (n, f)) in findings.into_inner().unwrap() {
        ck.add_finding_n(f, n);
    }
    ck.finish()
}
