//! C12: inbound concurrency limits hold and never wedge the connection.
use std::time::Duration;

use crate::check::{Check, Tier};
use crate::inbound::*;
use crate::inbound_oracles::{handler_records, healthy};
use crate::refmqtt::{PVal, Pkt, Ver};
use crate::simnet::{ExploreCfg, Violation};
use crate::world::*;

fn viol(s: &In, clause: &str, wit: String, msg: String) -> Violation {
    Violation::new(clause, format!("{} {}", s.cfg.ep.label(), wit), format!("{msg}; {}", s.detail()))
}

/// histories in which a PUBLISH was delivered in pieces are a class of their own (known finding C12-3)
fn streamed(s: &In) -> &'static str {
    if s.sent.iter().any(|x| matches!(x.t, T::PubSplit { .. } | T::PubSplit3 { .. })) { " with a streamed publish" } else { "" }
}

fn v5x(s: &In) -> bool {
    s.conn.ver() == Ver::V5
}

fn limits(s: &In) -> (usize, usize) {
    // v5 server: the limit is what the CONNACK advertised - the application's own value when it set one in the
    // handshake acknowledgement, whatever the server-wide configuration says
    let n = match (s.cfg.ep.ver, s.cfg.ep.role, s.cfg.ep.hs_receive_max) {
        (Ver::V5, Role::Server, Some(adv)) => adv,
        _ => s.cfg.ep.max_receive,
    };
    (n as usize, s.cfg.ep.max_receive_size)
}

/// handlers entered and neither exited nor dropped, with the size of their packets
fn executing(s: &In) -> Vec<(usize, usize)> {
    let hs = handler_records(s);
    // MQTT 5 Receive Maximum only counts QoS 1/2 publishes
    let v5 = s.conn.ver() == Ver::V5;
    hs.iter()
        .filter(|h| h.exit.is_none() && !h.dropped && (!v5 || h.qos > 0))
        .map(|h| {
            // packet size = fixed header excluded (library's notion): topic(2+1) + [pid 2] + [v5 props 1] + payload
            let pkt = 3 + if h.qos > 0 { 2 } else { 0 } + if s.conn.ver() == Ver::V5 { 1 } else { 0 } + h.size;
            (h.k, pkt)
        })
        .collect()
}

pub fn step_check(s: &In) -> Result<(), Violation> {
    let (max_n, max_sz) = limits(s);
    let ex = executing(s);
    // the count limit applies to the v3 server middleware and to the v5 endpoints' receive maximum
    if max_n != 0 && ex.len() > max_n {
        return Err(viol(
            s,
            "too-many-handlers",
            if s.cfg.cork {
                "max_receive with a burst in one read".to_string()
            } else if streamed(s).is_empty() {
                format!("max_receive={max_n}")
            } else {
                format!("max_receive{}", streamed(s))
            },
            format!("{} publish handlers executing at once with max_receive {max_n}", ex.len()),
        ));
    }
    if max_sz != 0 && s.cfg.ep.role == Role::Server {
        let hs = handler_records(s);
        let all: Vec<usize> = hs
            .iter()
            .filter(|h| h.exit.is_none() && !h.dropped)
            .map(|h| 3 + if h.qos > 0 { 2 } else { 0 } + if v5x(s) { 1 } else { 0 } + h.size)
            .collect();
        let total: usize = all.iter().sum();
        let largest = all.iter().copied().max().unwrap_or(0);
        if total > max_sz + largest {
            return Err(viol(
                s,
                "too-many-bytes",
                if streamed(s).is_empty() { format!("max_receive_size={max_sz}") } else { format!("max_receive_size{}", streamed(s)) },
                format!("executing handlers hold {total} packet bytes with max_receive_size {max_sz} (largest packet {largest})"),
            ));
        }
    }
    Ok(())
}

/// "When handlers finish, reading resumes": at a quiescent point of a healthy connection a complete PUBLISH
/// that was delivered must have reached its handler whenever the limits leave room for it - fewer handlers
/// executing than max_receive and strictly fewer bytes in flight than max_receive_size (strictly: the
/// statement does not say on which side of the limit equality falls). Servers only (the pausing
/// middleware); histories with a publish delivered in pieces are left to the drain oracle.
pub fn stall_check(s: &In) -> Result<(), Violation> {
    if s.cfg.ep.role != Role::Server || !healthy(s) || !streamed(s).is_empty() || !s.corked.is_empty() || !s.window_open {
        return Ok(());
    }
    // a SUBSCRIBE / UNSUBSCRIBE still inside the (gated) protocol service holds later packets back by design:
    // that is not one of the receive limits
    if s.conn.pgates.executing() > 0 || !s.conn.pgates.waiting().is_empty() {
        return Ok(());
    }
    let (max_n, max_sz) = limits(s);
    let v5 = v5x(s);
    let hs = handler_records(s);
    let running: Vec<usize> = hs.iter().filter(|h| h.exit.is_none() && !h.dropped).map(|h| 3 + if h.qos > 0 { 2 } else { 0 } + if v5 { 1 } else { 0 } + h.size).collect();
    let total: usize = running.iter().sum();
    // v5: the count is enforced by refusing, not by pausing
    let room_n = v5 || max_n == 0 || running.len() < max_n;
    let room_sz = max_sz == 0 || total < max_sz;
    if !(room_n && room_sz) {
        return Ok(());
    }
    for (i, snt) in s.sent.iter().enumerate() {
        let Some(Pkt::Publish { payload, .. }) = &snt.pkt else { continue };
        if snt.complete_step.is_none() {
            continue;
        }
        if !hs.iter().any(|h| h.payload.first() == payload.first() && h.size == payload.len()) {
            return Err(viol(
                s,
                "needless-stall",
                format!("max_receive={max_n} max_receive_size={}", if max_sz == 0 { "0" } else if max_sz < 1000 { "small" } else { "large" }),
                format!("PUBLISH #{i} was delivered but is not being handled although only {} handlers ({total} bytes) are executing", running.len()),
            ));
        }
    }
    Ok(())
}

pub fn final_check(s: &In) -> Result<(), Violation> {
    step_check(s)?;
    let v5 = s.conn.ver() == Ver::V5;
    let (max_n, _) = limits(s);
    let stops = s.conn.log.stops();
    let quota = stops.iter().any(|x| x.contains("3_3_4_7") || x.contains("3_3_4_9") || x.contains("ReceiveMaximum"));
    let disc93 = s.conn.out.iter().any(|(_, p)| matches!(p, Pkt::Disconnect { code: Some(0x93), .. }));
    if v5 && max_n != 0 {
        // peer view: unacknowledged = QoS>0 publishes sent minus final acks seen before each send
        let mut within = true;
        for snt in &s.sent {
            let Some(Pkt::Publish { qos, .. }) = &snt.pkt else { continue };
            if *qos == 0 {
                continue;
            }
            let sent_before = s.sent.iter().filter(|x| x.step < snt.step && matches!(&x.pkt, Some(Pkt::Publish { qos, .. }) if *qos > 0)).count();
            let acked_before = s
                .conn
                .out
                .iter()
                .filter(|(st, p)| *st < snt.step && matches!(p, Pkt::Ack { typ: 4 | 7, .. } | Pkt::Ack { typ: 5, code: Some(0x80..), .. }))
                .count();
            if sent_before - acked_before.min(sent_before) >= max_n {
                within = false;
            }
        }
        if within && (quota || disc93) {
            return Err(viol(
                s,
                "refused-within-quota",
                format!("receive_max={max_n}"),
                format!("peer never had more than {max_n} unacknowledged QoS>0 publishes but was refused (stops {stops:?}, DISCONNECT 0x93 {disc93})"),
            ));
        }
        // certainly over: more handlers gated than the quota allows can never happen (checked above); if the
        // endpoint refused, it must say 0x93
        if quota && s.cfg.ep.role == Role::Server && !disc93 && !s.conn.peer_closed {
            return Err(viol(s, "quota-wrong-code", format!("receive_max={max_n}"), format!("receive maximum exceeded but no DISCONNECT 0x93 was written (stops {stops:?})")));
        }
    }
    // every packet of these histories is valid and every handler succeeds: the only thing that may end the
    // connection is the v5 receive-maximum rule. Anything else - e.g. a keep-alive timeout while reading was
    // paused by the limits - means packets the peer sent are never handled (seeded change C12_r6)
    // (a QoS 0 publish whose handler fails cannot be answered with a negative acknowledgement: the connection ends
    // with the application's error)
    let app_error = handler_records(s).iter().any(|h| matches!(h.exit, Some((_, GateOutcome::Err))) || (h.qos == 0 && matches!(h.exit, Some((_, GateOutcome::Nack(_))))));
    let explained = quota || (app_error && stops.iter().all(|x| x.starts_with("Stop:Error")));
    if !stops.is_empty() && !explained {
        return Err(viol(s, "connection-ended", format!("max_receive={max_n}"), format!("a peer that sent valid packets only and stayed within the limits was disconnected: {stops:?}")));
    }
    // liveness: all gates were opened by the drain; on a healthy connection every complete publish was handled
    if healthy(s) {
        let hs = handler_records(s);
        for (i, snt) in s.sent.iter().enumerate() {
            let Some(Pkt::Publish { payload, .. }) = &snt.pkt else { continue };
            if snt.complete_step.is_none() {
                continue;
            }
            let h = hs.iter().find(|h| h.payload.first() == payload.first() && h.size == payload.len());
            match h {
                None => {
                    return Err(viol(s, "wedged", format!("max_receive={max_n}"), format!("PUBLISH #{i} was never handled although every handler completed")));
                }
                Some(h) => {
                    if h.payload != *payload && h.payload_err.is_none() && h.exit.is_some() {
                        return Err(viol(s, "wedged", "payload".into(), format!("PUBLISH #{i}: handler read {} of {} payload bytes", h.payload.len(), payload.len())));
                    }
                    if h.exit.is_none() {
                        return Err(viol(s, "wedged", "handler stuck".into(), format!("handler of PUBLISH #{i} never completed (streamed payload not delivered?)")));
                    }
                }
            }
        }
    }
    Ok(())
}

pub fn configs(tier: Tier) -> Vec<InCfg> {
    let mut v = Vec::new();
    let q = |qos: u8, len: u16| T::Pub { qos, id: 0, len, topic: 0, alias: 0 };
    for (ver, role) in [(Ver::V3, Role::Server), (Ver::V5, Role::Server), (Ver::V5, Role::Client)] {
        let ns: &[u16] = if tier == Tier::Quick { &[1, 2] } else { &[0, 1, 2, 3, 4] };
        for &n in ns {
            let sizes: &[usize] = if role == Role::Server { &[0, 30, 65535] } else { &[65535] };
            for &sz in sizes {
                if tier == Tier::Quick && sz == 0 && n == 2 {
                    continue;
                }
                let mut ep = EpCfg::new(ver, role);
                ep.max_receive = n;
                ep.max_receive_size = sz;
                ep.handler_auto = false;
                ep.min_chunk_size = 4;
                if ver == Ver::V5 && role == Role::Server {
                    ep.hs_receive_max = if n == 0 { None } else { Some(n) };
                }
                // one configuration per role with a keep-alive of 2 s: in the drain phase several keep-alive periods
                // pass while gated handlers keep the window shut
                if n == 1 && sz == 65535 {
                    ep.client_keepalive = 2;
                }
                let mut alphabet = vec![q(1, 5), q(1, 14), q(0, 5), T::PubSplit { qos: 1, id: 0, len: 12 }, q(2, 26)];
                if sz == 30 {
                    // a publish of exactly the byte limit (library's size = packet without fixed header)
                    alphabet.push(q(1, if ver == Ver::V5 { 24 } else { 25 }));
                    // a streamed publish that alone exceeds the byte limit (the one packet of slack): its remaining
                    // chunks must still be read
                    alphabet.push(T::PubSplit { qos: 1, id: 0, len: 40 });
                }
                if n == 1 && sz == 65535 {
                    // a publish in three writes: two payload chunks follow the announced part while the publish itself
                    // holds the only slot - chunks must keep flowing (mutation-sweep survivor: after the first chunk the
                    // middleware applied the count limit to the following ones and the payload never completed)
                    alphabet.push(T::PubSplit3 { qos: 1, id: 0, len: 16 });
                }
                if ver == Ver::V5 && n == 1 && sz == 65535 {
                    // the peer completes its QoS 2 exchanges (PUBREL of the oldest id that has its PUBREC): the PUBCOMP
                    // gives the quota slot back (mutation-sweep survivor: the PUBREL path forgot to)
                    alphabet.push(T::PubRel(0));
                }
                v.push(InCfg {
                    ep,
                    connect_props: vec![],
                    alphabet,
                    prologue: vec![],
                    max_len: if tier == Tier::Quick { 3 } else { 4 },
                    // v5 server, Receive Maximum 1: also handler errors mapped to a negative acknowledgement - a QoS 2
                    // publish refused with PUBREC >= 0x80 is finished and must give its quota slot back (seeded change
                    // C19_r6 released the packet id but not the slot)
                    // (... whether the refusal comes out of the error mapping or is returned by a handler that succeeds with an
                    // acknowledgement carrying an error code - seeded change C12_r13 only gave the slot back for the former)
                    outcomes: if ver == Ver::V5 && role == Role::Server && n == 1 && sz == 65535 { vec![GateOutcome::Ok, GateOutcome::Nack(0x87), GateOutcome::OkCode(0x87)] } else { vec![GateOutcome::Ok] },
                    poutcomes: vec![GateOutcome::Ok],
                    cork: false,
                    judge: J_C12,
                    app_sends: vec![],
                    skip_connect: false,
                    known: vec![],
                    bp: 0,
                });
            }
        }
    }
    // v5 server: the application advertises its own Receive Maximum in the handshake acknowledgement, different from
    // the server-wide max_receive (larger than it; and with the server-wide value 0 = unlimited): the advertised value
    // is the limit, in both directions (seeded change C12_r9 enforced the smaller of the two, and nothing at all with 0)
    for (cfg_n, adv) in [(1u16, 2u16), (0, 1), (3, 1)] {
        let mut ep = EpCfg::new(Ver::V5, Role::Server);
        ep.max_receive = cfg_n;
        ep.hs_receive_max = Some(adv);
        ep.handler_auto = false;
        v.push(InCfg {
            ep,
            connect_props: vec![],
            alphabet: vec![q(1, 5), q(2, 26), q(0, 5)],
            prologue: vec![],
            max_len: if tier == Tier::Quick { 3 } else { 4 },
            outcomes: vec![GateOutcome::Ok],
            poutcomes: vec![GateOutcome::Ok],
            cork: false,
            judge: J_C12,
            app_sends: vec![],
            skip_connect: false,
            known: vec![],
            bp: 0,
        });
    }
    // bursts: several publishes arriving in one read (corked writes), v3 server count limit
    for &n in &[1u16, 2] {
        let mut ep = EpCfg::new(Ver::V3, Role::Server);
        ep.max_receive = n;
        ep.handler_auto = false;
        v.push(InCfg {
            ep,
            connect_props: vec![],
            alphabet: vec![q(1, 5), q(0, 5)],
            prologue: vec![],
            max_len: if tier == Tier::Quick { 4 } else { 5 },
            outcomes: vec![GateOutcome::Ok],
            poutcomes: vec![GateOutcome::Ok],
            cork: true,
            judge: J_C12,
            app_sends: vec![],
            skip_connect: false,
            known: vec![],
            bp: 0,
        });
    }
    // v5 server: SUBSCRIBE / UNSUBSCRIBE being handled do not count against Receive Maximum
    for &n in if tier == Tier::Quick { &[1u16][..] } else { &[1u16, 2][..] } {
        let mut ep = EpCfg::new(Ver::V5, Role::Server);
        ep.max_receive = n;
        ep.handler_auto = false;
        ep.proto_auto = false;
        ep.hs_receive_max = Some(n);
        v.push(InCfg {
            ep,
            connect_props: vec![],
            alphabet: vec![q(1, 5), T::Sub(0), T::Unsub(0), q(2, 26)],
            prologue: vec![],
            max_len: if tier == Tier::Quick { 3 } else { 4 },
            outcomes: vec![GateOutcome::Ok],
            poutcomes: vec![GateOutcome::Ok],
            cork: false,
            judge: J_C12,
            app_sends: vec![],
            skip_connect: false,
            known: vec![],
            bp: 0,
        });
    }
    let _ = PVal::Byte(0);
    v
}

pub fn run(tier: Tier) -> i32 {
    let mut ck = Check::new("C12", tier, Duration::from_secs(if tier == Tier::Quick { 50 } else { 1800 }));
    let ecfg = ExploreCfg { max_dev: 1, max_execs: if tier == Tier::Quick { 1_500_000 } else { 10_000_000 }, ..Default::default() };
    for (i, c) in configs(tier).iter().enumerate() {
        ck.explore::<In>("inbound", i, c, &ecfg);
    }
    ck.rule = "v3 server (default in-flight middleware), v5 server (Receive Maximum + size middleware), v5 client (receive maximum): max_receive in {1,2} (quick) / {0,1,2,3,4} (thorough) x max_receive_size in {0, 30 bytes, 64 KiB}; bursts of up to 3 (quick) / 4 (thorough) publishes over {q1 5 B, q1 14 B, q0 5 B, q1 12 B split in two writes, q2 26 B, with the 30-byte limit also a 40 B split publish and one of exactly 30 packet bytes} against gated handlers, deliveries and completions in every order with <= 1 injection while runnable; invariants after every step: executing handlers <= max_receive, their packet bytes <= max_receive_size + largest packet; v5: a peer within Receive Maximum is never answered 0x93, also while SUBSCRIBE / UNSUBSCRIBE requests are being handled (gated protocol service); at every quiescent point (servers, no publish delivered in pieces): a delivered publish is being handled whenever fewer handlers than max_receive and strictly fewer bytes than max_receive_size are executing; drain: all gates opened => every complete publish handled with its full payload; v5 server also with an application-chosen Receive Maximum in the handshake acknowledgement that differs from the server-wide one (the advertised value is the limit); Receive-Maximum-1 configurations also complete their QoS 2 exchanges (PUBREL of the oldest id that has its PUBREC) and receive a 16-byte publish in three writes (two chunks behind the announced part)".into();
    ck.assumptions = vec!["FIFO task order of ntex-rt; nondeterminism = timing of environment events (DESIGN 2.4)".into()];
    ck.finish()
}
