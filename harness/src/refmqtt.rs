//! Independent, deliberately boring reference codec for MQTT 3.1.1 and 5.0,
//! transcribed from the OASIS specifications (not from ntex-mqtt): own
//! constants, own property table, own reason-code sets. Used as the harness
//! peer in Engine A and as the oracle in Engine B.
#![allow(dead_code)]

#[derive(Clone, Copy, Debug, PartialEq, Eq, Hash)]
pub enum Ver {
    V3,
    V5,
}

#[derive(Clone, Debug, PartialEq, Eq, Hash, PartialOrd, Ord)]
pub enum PVal {
    Byte(u8),
    U16(u16),
    U32(u32),
    VarInt(u32),
    Str(String),
    Bin(Vec<u8>),
    Pair(String, String),
}

#[derive(Clone, Copy, Debug, PartialEq, Eq)]
pub enum PTy {
    Byte,
    U16,
    U32,
    VarInt,
    Str,
    Bin,
    Pair,
}

pub type Props = Vec<(u8, PVal)>;

/// Where a property list appears.
#[derive(Clone, Copy, Debug, PartialEq, Eq)]
pub enum Ctx {
    Connect,
    Will,
    ConnAck,
    Publish,
    PubAck, // PUBACK, PUBREC, PUBREL, PUBCOMP
    Subscribe,
    SubAck, // SUBACK, UNSUBACK
    Unsubscribe,
    Disconnect,
    Auth,
}

/// MQTT 5 property table (spec §2.2.2.2): id -> (wire type, contexts allowed, may repeat)
pub fn prop_info(id: u8) -> Option<(PTy, &'static [Ctx], bool)> {
    use Ctx::*;
    Some(match id {
        0x01 => (PTy::Byte, &[Publish, Will], false),
        0x02 => (PTy::U32, &[Publish, Will], false),
        0x03 => (PTy::Str, &[Publish, Will], false),
        0x08 => (PTy::Str, &[Publish, Will], false),
        0x09 => (PTy::Bin, &[Publish, Will], false),
        0x0B => (PTy::VarInt, &[Publish, Subscribe], true), // repeatable in PUBLISH only
        0x11 => (PTy::U32, &[Connect, ConnAck, Disconnect], false),
        0x12 => (PTy::Str, &[ConnAck], false),
        0x13 => (PTy::U16, &[ConnAck], false),
        0x15 => (PTy::Str, &[Connect, ConnAck, Auth], false),
        0x16 => (PTy::Bin, &[Connect, ConnAck, Auth], false),
        0x17 => (PTy::Byte, &[Connect], false),
        0x18 => (PTy::U32, &[Will], false),
        0x19 => (PTy::Byte, &[Connect], false),
        0x1A => (PTy::Str, &[ConnAck], false),
        0x1C => (PTy::Str, &[ConnAck, Disconnect], false),
        0x1F => (PTy::Str, &[ConnAck, PubAck, SubAck, Disconnect, Auth], false),
        0x21 => (PTy::U16, &[Connect, ConnAck], false),
        0x22 => (PTy::U16, &[Connect, ConnAck], false),
        0x23 => (PTy::U16, &[Publish], false),
        0x24 => (PTy::Byte, &[ConnAck], false),
        0x25 => (PTy::Byte, &[ConnAck], false),
        0x26 => {
            (PTy::Pair, &[Connect, Will, ConnAck, Publish, PubAck, Subscribe, SubAck, Unsubscribe, Disconnect, Auth], true)
        }
        0x27 => (PTy::U32, &[Connect, ConnAck], false),
        0x28 => (PTy::Byte, &[ConnAck], false),
        0x29 => (PTy::Byte, &[ConnAck], false),
        0x2A => (PTy::Byte, &[ConnAck], false),
        _ => return None,
    })
}

pub const ALL_PROP_IDS: [u8; 27] = [
    0x01, 0x02, 0x03, 0x08, 0x09, 0x0B, 0x11, 0x12, 0x13, 0x15, 0x16, 0x17, 0x18, 0x19, 0x1A, 0x1C,
    0x1F, 0x21, 0x22, 0x23, 0x24, 0x25, 0x26, 0x27, 0x28, 0x29, 0x2A,
];

pub const RC_CONNACK: &[u8] = &[
    0x00, 0x80, 0x81, 0x82, 0x83, 0x84, 0x85, 0x86, 0x87, 0x88, 0x89, 0x8A, 0x8C, 0x90, 0x95, 0x97,
    0x99, 0x9A, 0x9B, 0x9C, 0x9D, 0x9F,
];
pub const RC_PUBACK: &[u8] = &[0x00, 0x10, 0x80, 0x83, 0x87, 0x90, 0x91, 0x97, 0x99];
pub const RC_PUBREL: &[u8] = &[0x00, 0x92];
pub const RC_SUBACK: &[u8] =
    &[0x00, 0x01, 0x02, 0x80, 0x83, 0x87, 0x8F, 0x91, 0x97, 0x9E, 0xA1, 0xA2];
pub const RC_UNSUBACK: &[u8] = &[0x00, 0x11, 0x80, 0x83, 0x87, 0x8F, 0x91];
/// §3.14.2.1 plus 0x8C, which table 2.4 (§2.4) assigns to CONNACK *and* DISCONNECT.
pub const RC_DISCONNECT: &[u8] = &[
    0x00, 0x04, 0x80, 0x81, 0x82, 0x83, 0x87, 0x89, 0x8B, 0x8C, 0x8D, 0x8E, 0x8F, 0x90, 0x93, 0x94,
    0x95, 0x96, 0x97, 0x98, 0x99, 0x9A, 0x9B, 0x9C, 0x9D, 0x9E, 0x9F, 0xA0, 0xA1, 0xA2,
];
pub const RC_AUTH: &[u8] = &[0x00, 0x18, 0x19];
pub const RC_V3_CONNACK: &[u8] = &[0, 1, 2, 3, 4, 5];

#[derive(Clone, Debug, PartialEq, Eq, Default)]
pub struct Will {
    pub qos: u8,
    pub retain: bool,
    pub props: Props,
    pub topic: String,
    pub payload: Vec<u8>,
}

#[derive(Clone, Debug, PartialEq, Eq)]
pub enum Pkt {
    Connect {
        name: Vec<u8>,
        level: u8,
        clean: bool,
        keep_alive: u16,
        props: Props,
        client_id: String,
        will: Option<Will>,
        username: Option<String>,
        password: Option<Vec<u8>>,
    },
    ConnAck { session_present: bool, code: u8, props: Props },
    Publish { dup: bool, qos: u8, retain: bool, topic: String, pid: Option<u16>, props: Props, payload: Vec<u8> },
    /// typ = 4 PUBACK, 5 PUBREC, 6 PUBREL, 7 PUBCOMP; code/props None = absent on the wire
    Ack { typ: u8, pid: u16, code: Option<u8>, props: Option<Props> },
    Subscribe { pid: u16, props: Props, filters: Vec<(String, u8)> },
    SubAck { pid: u16, props: Props, codes: Vec<u8> },
    Unsubscribe { pid: u16, props: Props, filters: Vec<String> },
    UnsubAck { pid: u16, props: Props, codes: Vec<u8> },
    PingReq,
    PingResp,
    Disconnect { code: Option<u8>, props: Option<Props> },
    Auth { code: Option<u8>, props: Option<Props> },
}

impl Pkt {
    pub fn type_nibble(&self) -> u8 {
        match self {
            Pkt::Connect { .. } => 1,
            Pkt::ConnAck { .. } => 2,
            Pkt::Publish { .. } => 3,
            Pkt::Ack { typ, .. } => *typ,
            Pkt::Subscribe { .. } => 8,
            Pkt::SubAck { .. } => 9,
            Pkt::Unsubscribe { .. } => 10,
            Pkt::UnsubAck { .. } => 11,
            Pkt::PingReq => 12,
            Pkt::PingResp => 13,
            Pkt::Disconnect { .. } => 14,
            Pkt::Auth { .. } => 15,
        }
    }
    pub fn short(&self) -> String {
        match self {
            Pkt::Connect { level, .. } => format!("CONNECT(v{level})"),
            Pkt::ConnAck { code, .. } => format!("CONNACK({code:#x})"),
            Pkt::Publish { qos, pid, topic, payload, .. } => {
                format!("PUBLISH(q{qos},{},{topic:?},{}B)", pid.unwrap_or(0), payload.len())
            }
            Pkt::Ack { typ, pid, code, .. } => {
                let n = ["PUBACK", "PUBREC", "PUBREL", "PUBCOMP"][(*typ - 4) as usize];
                match code {
                    Some(c) if *c != 0 => format!("{n}({pid},{c:#x})"),
                    _ => format!("{n}({pid})"),
                }
            }
            Pkt::Subscribe { pid, .. } => format!("SUBSCRIBE({pid})"),
            Pkt::SubAck { pid, codes, .. } => format!("SUBACK({pid},{codes:x?})"),
            Pkt::Unsubscribe { pid, .. } => format!("UNSUBSCRIBE({pid})"),
            Pkt::UnsubAck { pid, codes, .. } => format!("UNSUBACK({pid},{codes:x?})"),
            Pkt::PingReq => "PINGREQ".into(),
            Pkt::PingResp => "PINGRESP".into(),
            Pkt::Disconnect { code, .. } => format!("DISCONNECT({:#x})", code.unwrap_or(0)),
            Pkt::Auth { code, .. } => format!("AUTH({:#x})", code.unwrap_or(0)),
        }
    }
}

// ---------------------------------------------------------------------------
// encoding

pub fn put_varint(out: &mut Vec<u8>, mut v: u32) {
    assert!(v < (1 << 28));
    loop {
        let mut b = (v % 128) as u8;
        v /= 128;
        if v > 0 {
            b |= 0x80;
        }
        out.push(b);
        if v == 0 {
            break;
        }
    }
}

pub fn varint_len(v: u32) -> usize {
    if v < 128 {
        1
    } else if v < 16384 {
        2
    } else if v < 2_097_152 {
        3
    } else {
        4
    }
}

fn put_u16(out: &mut Vec<u8>, v: u16) {
    out.push((v >> 8) as u8);
    out.push((v & 0xff) as u8);
}
fn put_u32(out: &mut Vec<u8>, v: u32) {
    out.extend_from_slice(&[(v >> 24) as u8, (v >> 16) as u8, (v >> 8) as u8, v as u8]);
}
fn put_bin(out: &mut Vec<u8>, b: &[u8]) {
    assert!(b.len() <= 65535);
    put_u16(out, b.len() as u16);
    out.extend_from_slice(b);
}
fn put_str(out: &mut Vec<u8>, s: &str) {
    put_bin(out, s.as_bytes());
}

pub fn enc_props_body(props: &Props) -> Vec<u8> {
    let mut b = Vec::new();
    for (id, v) in props {
        b.push(*id);
        match v {
            PVal::Byte(x) => b.push(*x),
            PVal::U16(x) => put_u16(&mut b, *x),
            PVal::U32(x) => put_u32(&mut b, *x),
            PVal::VarInt(x) => put_varint(&mut b, *x),
            PVal::Str(s) => put_str(&mut b, s),
            PVal::Bin(x) => put_bin(&mut b, x),
            PVal::Pair(k, v) => {
                put_str(&mut b, k);
                put_str(&mut b, v);
            }
        }
    }
    b
}

fn put_props(out: &mut Vec<u8>, props: &Props) {
    let b = enc_props_body(props);
    put_varint(out, b.len() as u32);
    out.extend_from_slice(&b);
}

/// Encode one packet. Panics on values that cannot be represented (caller's bug).
pub fn encode(ver: Ver, p: &Pkt) -> Vec<u8> {
    let v5 = ver == Ver::V5;
    let mut body = Vec::new();
    let mut first = p.type_nibble() << 4;
    match p {
        Pkt::Connect { name, level, clean, keep_alive, props, client_id, will, username, password } => {
            put_bin(&mut body, name);
            body.push(*level);
            let mut fl = 0u8;
            if *clean {
                fl |= 0x02;
            }
            if let Some(w) = will {
                fl |= 0x04 | (w.qos << 3);
                if w.retain {
                    fl |= 0x20;
                }
            }
            if password.is_some() {
                fl |= 0x40;
            }
            if username.is_some() {
                fl |= 0x80;
            }
            body.push(fl);
            put_u16(&mut body, *keep_alive);
            if v5 {
                put_props(&mut body, props);
            }
            put_str(&mut body, client_id);
            if let Some(w) = will {
                if v5 {
                    put_props(&mut body, &w.props);
                }
                put_str(&mut body, &w.topic);
                put_bin(&mut body, &w.payload);
            }
            if let Some(u) = username {
                put_str(&mut body, u);
            }
            if let Some(pw) = password {
                put_bin(&mut body, pw);
            }
        }
        Pkt::ConnAck { session_present, code, props } => {
            body.push(u8::from(*session_present));
            body.push(*code);
            if v5 {
                put_props(&mut body, props);
            }
        }
        Pkt::Publish { dup, qos, retain, topic, pid, props, payload } => {
            first |= (u8::from(*dup) << 3) | (qos << 1) | u8::from(*retain);
            put_str(&mut body, topic);
            if *qos > 0 {
                put_u16(&mut body, pid.expect("pid"));
            }
            if v5 {
                put_props(&mut body, props);
            }
            body.extend_from_slice(payload);
        }
        Pkt::Ack { typ, pid, code, props } => {
            if *typ == 6 {
                first |= 0x02;
            }
            put_u16(&mut body, *pid);
            if v5 {
                if let Some(c) = code {
                    body.push(*c);
                    if let Some(pr) = props {
                        put_props(&mut body, pr);
                    }
                }
            }
        }
        Pkt::Subscribe { pid, props, filters } => {
            first |= 0x02;
            put_u16(&mut body, *pid);
            if v5 {
                put_props(&mut body, props);
            }
            for (f, o) in filters {
                put_str(&mut body, f);
                body.push(*o);
            }
        }
        Pkt::SubAck { pid, props, codes } => {
            put_u16(&mut body, *pid);
            if v5 {
                put_props(&mut body, props);
            }
            body.extend_from_slice(codes);
        }
        Pkt::Unsubscribe { pid, props, filters } => {
            first |= 0x02;
            put_u16(&mut body, *pid);
            if v5 {
                put_props(&mut body, props);
            }
            for f in filters {
                put_str(&mut body, f);
            }
        }
        Pkt::UnsubAck { pid, props, codes } => {
            put_u16(&mut body, *pid);
            if v5 {
                put_props(&mut body, props);
                body.extend_from_slice(codes);
            }
        }
        Pkt::PingReq | Pkt::PingResp => {}
        Pkt::Disconnect { code, props } | Pkt::Auth { code, props } => {
            if v5 {
                if let Some(c) = code {
                    body.push(*c);
                    if let Some(pr) = props {
                        put_props(&mut body, pr);
                    }
                }
            }
        }
    }
    let mut out = Vec::with_capacity(body.len() + 5);
    out.push(first);
    put_varint(&mut out, body.len() as u32);
    out.extend_from_slice(&body);
    out
}

// ---------------------------------------------------------------------------
// decoding (strict)

/// Why a frame is not a valid packet. `class` names the malformation classes
/// the C02 statement lists; `Other` = malformed in a way the statement does not list.
#[derive(Clone, Copy, Debug, PartialEq, Eq, Hash, PartialOrd, Ord)]
pub enum Mal {
    /// inner length or count contradicts Remaining Length
    Length,
    UnknownProperty,
    UnknownReasonCode,
    DuplicateProperty,
    ZeroPacketId,
    Qos3,
    Utf8,
    /// anything else the spec forbids (flag nibble, reserved bits, empty lists, ...)
    Other,
}

#[derive(Clone, Debug, PartialEq, Eq)]
pub enum DecErr {
    /// need more bytes to see a whole frame
    Incomplete,
    /// Remaining Length varint itself is malformed (5th continuation byte)
    BadVarint,
    Malformed(Mal, &'static str),
}

struct Rd<'a> {
    b: &'a [u8],
    i: usize,
}

type R<T> = Result<T, DecErr>;

fn mal<T>(m: Mal, why: &'static str) -> R<T> {
    Err(DecErr::Malformed(m, why))
}

impl<'a> Rd<'a> {
    fn left(&self) -> usize {
        self.b.len() - self.i
    }
    fn u8(&mut self) -> R<u8> {
        if self.left() < 1 {
            return mal(Mal::Length, "byte past end");
        }
        self.i += 1;
        Ok(self.b[self.i - 1])
    }
    fn u16(&mut self) -> R<u16> {
        if self.left() < 2 {
            return mal(Mal::Length, "u16 past end");
        }
        self.i += 2;
        Ok(u16::from_be_bytes([self.b[self.i - 2], self.b[self.i - 1]]))
    }
    fn u32(&mut self) -> R<u32> {
        if self.left() < 4 {
            return mal(Mal::Length, "u32 past end");
        }
        self.i += 4;
        Ok(u32::from_be_bytes([self.b[self.i - 4], self.b[self.i - 3], self.b[self.i - 2], self.b[self.i - 1]]))
    }
    fn varint(&mut self) -> R<u32> {
        let mut v = 0u32;
        for k in 0..4 {
            if self.left() < 1 {
                return mal(Mal::Length, "varint past end");
            }
            let b = self.b[self.i];
            self.i += 1;
            v |= u32::from(b & 0x7f) << (7 * k);
            if b & 0x80 == 0 {
                return Ok(v);
            }
        }
        mal(Mal::Length, "varint too long")
    }
    fn bin(&mut self) -> R<Vec<u8>> {
        let n = self.u16()? as usize;
        if self.left() < n {
            return mal(Mal::Length, "binary past end");
        }
        self.i += n;
        Ok(self.b[self.i - n..self.i].to_vec())
    }
    fn str(&mut self) -> R<String> {
        let b = self.bin()?;
        String::from_utf8(b).or_else(|_| mal(Mal::Utf8, "invalid utf-8"))
    }
    fn pid(&mut self) -> R<u16> {
        let p = self.u16()?;
        if p == 0 {
            return mal(Mal::ZeroPacketId, "packet id 0");
        }
        Ok(p)
    }
    fn props(&mut self, ctx: Ctx) -> R<Props> {
        let n = self.varint()? as usize;
        if self.left() < n {
            return mal(Mal::Length, "property length past end");
        }
        let mut r = Rd { b: &self.b[self.i..self.i + n], i: 0 };
        self.i += n;
        let mut out: Props = Vec::new();
        while r.left() > 0 {
            let id = r.u8()?;
            let Some((ty, ctxs, repeat)) = prop_info(id) else {
                return mal(Mal::UnknownProperty, "unknown property id");
            };
            if !ctxs.contains(&ctx) {
                return mal(Mal::UnknownProperty, "property not allowed in this packet");
            }
            let repeat_ok = repeat && !(id == 0x0B && ctx == Ctx::Subscribe);
            if !repeat_ok && out.iter().any(|(i, _)| *i == id) {
                return mal(Mal::DuplicateProperty, "property repeated");
            }
            let v = match ty {
                PTy::Byte => PVal::Byte(r.u8()?),
                PTy::U16 => PVal::U16(r.u16()?),
                PTy::U32 => PVal::U32(r.u32()?),
                PTy::VarInt => PVal::VarInt(r.varint()?),
                PTy::Str => PVal::Str(r.str()?),
                PTy::Bin => PVal::Bin(r.bin()?),
                PTy::Pair => {
                    let k = r.str()?;
                    let v = r.str()?;
                    PVal::Pair(k, v)
                }
            };
            out.push((id, v));
        }
        Ok(out)
    }
}

/// Frame the packet at the start of `buf`: (first byte, header length, remaining length).
pub fn frame(buf: &[u8]) -> Result<(u8, usize, usize), DecErr> {
    if buf.is_empty() {
        return Err(DecErr::Incomplete);
    }
    let mut v = 0usize;
    for k in 0..4 {
        if buf.len() < 2 + k {
            return Err(DecErr::Incomplete);
        }
        let b = buf[1 + k];
        v |= usize::from(b & 0x7f) << (7 * k);
        if b & 0x80 == 0 {
            return Ok((buf[0], 2 + k, v));
        }
    }
    Err(DecErr::BadVarint)
}

fn check_rc(set: &[u8], c: u8) -> R<u8> {
    if set.contains(&c) { Ok(c) } else { mal(Mal::UnknownReasonCode, "reason code not defined for packet") }
}

/// Decode the packet at the start of `buf`. Returns (packet, bytes consumed).
pub fn decode(ver: Ver, buf: &[u8]) -> Result<(Pkt, usize), DecErr> {
    let (first, hl, rl) = frame(buf)?;
    if buf.len() < hl + rl {
        return Err(DecErr::Incomplete);
    }
    let p = decode_body(ver, first, &buf[hl..hl + rl])?;
    Ok((p, hl + rl))
}

pub fn decode_body(ver: Ver, first: u8, body: &[u8]) -> Result<Pkt, DecErr> {
    let v5 = ver == Ver::V5;
    let typ = first >> 4;
    let fl = first & 0x0f;
    let mut r = Rd { b: body, i: 0 };
    let want_flags = match typ {
        3 => fl,
        6 | 8 | 10 => 2,
        _ => 0,
    };
    if fl != want_flags {
        return mal(Mal::Other, "reserved fixed-header flags");
    }
    let pkt = match typ {
        1 => {
            let name = r.bin()?;
            let level = r.u8()?;
            if name != b"MQTT" {
                return mal(Mal::Other, "protocol name");
            }
            if level != if v5 { 5 } else { 4 } {
                return mal(Mal::Other, "protocol level");
            }
            let f = r.u8()?;
            if f & 1 != 0 {
                return mal(Mal::Other, "connect reserved flag");
            }
            let keep_alive = r.u16()?;
            let props = if v5 { r.props(Ctx::Connect)? } else { Vec::new() };
            let client_id = r.str()?;
            let will_qos = (f >> 3) & 3;
            let will = if f & 0x04 != 0 {
                if will_qos == 3 {
                    return mal(Mal::Qos3, "will qos 3");
                }
                let wprops = if v5 { r.props(Ctx::Will)? } else { Vec::new() };
                let topic = r.str()?;
                let payload = r.bin()?;
                Some(Will { qos: will_qos, retain: f & 0x20 != 0, props: wprops, topic, payload })
            } else {
                if will_qos != 0 || f & 0x20 != 0 {
                    return mal(Mal::Other, "will qos/retain without will flag");
                }
                None
            };
            let username = if f & 0x80 != 0 { Some(r.str()?) } else { None };
            let password = if f & 0x40 != 0 { Some(r.bin()?) } else { None };
            Pkt::Connect { name, level, clean: f & 2 != 0, keep_alive, props, client_id, will, username, password }
        }
        2 => {
            let af = r.u8()?;
            if af & 0xfe != 0 {
                return mal(Mal::Other, "connack reserved flags");
            }
            let code = r.u8()?;
            if !v5 && !RC_V3_CONNACK.contains(&code) {
                // 3.1.1 return codes 6-255 are "reserved for future use": not demanded to be rejected
                return mal(Mal::Other, "reserved v3 connack return code");
            }
            let code = check_rc(if v5 { RC_CONNACK } else { RC_V3_CONNACK }, code)?;
            let props = if v5 { r.props(Ctx::ConnAck)? } else { Vec::new() };
            Pkt::ConnAck { session_present: af & 1 != 0, code, props }
        }
        3 => {
            let qos = (fl >> 1) & 3;
            if qos == 3 {
                return mal(Mal::Qos3, "publish qos 3");
            }
            let topic = r.str()?;
            let pid = if qos > 0 { Some(r.pid()?) } else { None };
            let props = if v5 { r.props(Ctx::Publish)? } else { Vec::new() };
            if props.iter().any(|(i, v)| *i == 0x0B && *v == PVal::VarInt(0)) {
                return mal(Mal::Other, "subscription identifier 0");
            }
            if props.iter().any(|(i, v)| *i == 0x23 && *v == PVal::U16(0)) {
                return mal(Mal::Other, "topic alias 0");
            }
            let payload = r.b[r.i..].to_vec();
            r.i = r.b.len();
            Pkt::Publish { dup: fl & 8 != 0, qos, retain: fl & 1 != 0, topic, pid, props, payload }
        }
        4..=7 => {
            let pid = r.pid()?;
            if !v5 {
                Pkt::Ack { typ, pid, code: None, props: None }
            } else if r.left() == 0 {
                Pkt::Ack { typ, pid, code: None, props: None }
            } else {
                let c = r.u8()?;
                let c = check_rc(if typ == 4 || typ == 5 { RC_PUBACK } else { RC_PUBREL }, c)?;
                if r.left() == 0 {
                    Pkt::Ack { typ, pid, code: Some(c), props: None }
                } else {
                    let pr = r.props(Ctx::PubAck)?;
                    Pkt::Ack { typ, pid, code: Some(c), props: Some(pr) }
                }
            }
        }
        8 => {
            let pid = r.pid()?;
            let props = if v5 { r.props(Ctx::Subscribe)? } else { Vec::new() };
            if props.iter().any(|(i, v)| *i == 0x0B && *v == PVal::VarInt(0)) {
                return mal(Mal::Other, "subscription identifier 0");
            }
            let mut filters = Vec::new();
            while r.left() > 0 {
                let f = r.str()?;
                let o = r.u8()?;
                if o & 3 == 3 {
                    return mal(Mal::Qos3, "subscribe qos 3");
                }
                if v5 {
                    if o & 0xc0 != 0 || (o >> 4) & 3 == 3 {
                        return mal(Mal::Other, "subscription options reserved");
                    }
                } else if o & 0xfc != 0 {
                    return mal(Mal::Other, "subscribe qos reserved bits");
                }
                filters.push((f, o));
            }
            if filters.is_empty() {
                return mal(Mal::Other, "subscribe without filters");
            }
            Pkt::Subscribe { pid, props, filters }
        }
        9 => {
            let pid = r.pid()?;
            let props = if v5 { r.props(Ctx::SubAck)? } else { Vec::new() };
            let mut codes = Vec::new();
            while r.left() > 0 {
                let c = r.u8()?;
                if v5 {
                    check_rc(RC_SUBACK, c)?;
                } else if ![0, 1, 2, 0x80].contains(&c) {
                    return mal(Mal::UnknownReasonCode, "suback return code");
                }
                codes.push(c);
            }
            Pkt::SubAck { pid, props, codes }
        }
        10 => {
            let pid = r.pid()?;
            let props = if v5 { r.props(Ctx::Unsubscribe)? } else { Vec::new() };
            let mut filters = Vec::new();
            while r.left() > 0 {
                filters.push(r.str()?);
            }
            if filters.is_empty() {
                return mal(Mal::Other, "unsubscribe without filters");
            }
            Pkt::Unsubscribe { pid, props, filters }
        }
        11 => {
            let pid = r.pid()?;
            let props = if v5 { r.props(Ctx::SubAck)? } else { Vec::new() };
            let mut codes = Vec::new();
            if v5 {
                while r.left() > 0 {
                    codes.push(check_rc(RC_UNSUBACK, r.u8()?)?);
                }
            }
            Pkt::UnsubAck { pid, props, codes }
        }
        12 => Pkt::PingReq,
        13 => Pkt::PingResp,
        14 | 15 => {
            if typ == 15 && !v5 {
                return mal(Mal::Other, "AUTH in v3");
            }
            let (code, props) = if !v5 || r.left() == 0 {
                (None, None)
            } else {
                let c = check_rc(if typ == 14 { RC_DISCONNECT } else { RC_AUTH }, r.u8()?)?;
                if r.left() == 0 {
                    (Some(c), None)
                } else {
                    let pr = r.props(if typ == 14 { Ctx::Disconnect } else { Ctx::Auth })?;
                    (Some(c), Some(pr))
                }
            };
            if typ == 14 { Pkt::Disconnect { code, props } } else { Pkt::Auth { code, props } }
        }
        _ => return mal(Mal::Other, "reserved packet type 0"),
    };
    if r.left() != 0 {
        return mal(Mal::Length, "trailing bytes inside frame");
    }
    Ok(pkt)
}

/// Parse a whole byte stream strictly. Err((packets so far, offset, error)).
pub fn parse_stream(ver: Ver, mut buf: &[u8]) -> Result<Vec<Pkt>, (Vec<Pkt>, usize, DecErr)> {
    let mut out = Vec::new();
    let mut off = 0;
    while !buf.is_empty() {
        match decode(ver, buf) {
            Ok((p, n)) => {
                out.push(p);
                buf = &buf[n..];
                off += n;
            }
            Err(e) => return Err((out, off, e)),
        }
    }
    Ok(out)
}

// ---------------------------------------------------------------------------
// canonical forms for comparison

/// Spec default of a property: a property carrying this value means the same as its absence.
fn is_default(ctx: Ctx, id: u8, v: &PVal) -> bool {
    match (id, v) {
        (0x01, PVal::Byte(0)) => ctx == Ctx::Publish, // will keeps Option<bool> in the library
        (0x11, PVal::U32(0)) => ctx == Ctx::Connect,
        (0x17, PVal::Byte(1)) => true,
        (0x19, PVal::Byte(0)) => true,
        (0x21, PVal::U16(65535)) => true,
        (0x22, PVal::U16(0)) => true,
        (0x24, PVal::Byte(2)) => true,
        (0x25, PVal::Byte(1)) | (0x28, PVal::Byte(1)) | (0x29, PVal::Byte(1)) | (0x2A, PVal::Byte(1)) => true,
        _ => false,
    }
}

/// Order-insensitive canonical form: defaults dropped, non-repeatable properties
/// sorted by id, repeatable ones kept in wire order after them.
pub fn canon_props(ctx: Ctx, p: &Props) -> Props {
    let mut single: Props = p
        .iter()
        .filter(|(i, v)| *i != 0x26 && *i != 0x0B && !is_default(ctx, *i, v))
        .cloned()
        .collect();
    single.sort();
    let rep: Props = p.iter().filter(|(i, _)| *i == 0x26 || *i == 0x0B).cloned().collect();
    // keep relative order inside each repeatable id, sub-ids first
    let mut out = single;
    out.extend(rep.iter().filter(|(i, _)| *i == 0x0B).cloned());
    out.extend(rep.iter().filter(|(i, _)| *i == 0x26).cloned());
    out
}

/// Canonical packet: absent reason code == 0x00, absent property list == empty, props canonical.
pub fn canon(p: &Pkt) -> Pkt {
    match p {
        Pkt::Connect { name, level, clean, keep_alive, props, client_id, will, username, password } => {
            Pkt::Connect {
                name: name.clone(),
                level: *level,
                clean: *clean,
                keep_alive: *keep_alive,
                props: canon_props(Ctx::Connect, props),
                client_id: client_id.clone(),
                will: will.as_ref().map(|w| Will { props: canon_props(Ctx::Will, &w.props), ..w.clone() }),
                username: username.clone(),
                password: password.clone(),
            }
        }
        Pkt::ConnAck { session_present, code, props } => Pkt::ConnAck {
            session_present: *session_present,
            code: *code,
            props: canon_props(Ctx::ConnAck, props),
        },
        Pkt::Publish { dup, qos, retain, topic, pid, props, payload } => Pkt::Publish {
            dup: *dup,
            qos: *qos,
            retain: *retain,
            topic: topic.clone(),
            pid: *pid,
            props: canon_props(Ctx::Publish, props),
            payload: payload.clone(),
        },
        Pkt::Ack { typ, pid, code, props } => Pkt::Ack {
            typ: *typ,
            pid: *pid,
            code: Some(code.unwrap_or(0)),
            props: Some(canon_props(Ctx::PubAck, props.as_ref().unwrap_or(&Vec::new()))),
        },
        Pkt::Subscribe { pid, props, filters } => {
            Pkt::Subscribe { pid: *pid, props: canon_props(Ctx::Subscribe, props), filters: filters.clone() }
        }
        Pkt::SubAck { pid, props, codes } => {
            Pkt::SubAck { pid: *pid, props: canon_props(Ctx::SubAck, props), codes: codes.clone() }
        }
        Pkt::Unsubscribe { pid, props, filters } => {
            Pkt::Unsubscribe { pid: *pid, props: canon_props(Ctx::Unsubscribe, props), filters: filters.clone() }
        }
        Pkt::UnsubAck { pid, props, codes } => {
            Pkt::UnsubAck { pid: *pid, props: canon_props(Ctx::SubAck, props), codes: codes.clone() }
        }
        Pkt::PingReq => Pkt::PingReq,
        Pkt::PingResp => Pkt::PingResp,
        Pkt::Disconnect { code, props } => Pkt::Disconnect {
            code: Some(code.unwrap_or(0)),
            props: Some(canon_props(Ctx::Disconnect, props.as_ref().unwrap_or(&Vec::new()))),
        },
        Pkt::Auth { code, props } => Pkt::Auth {
            code: Some(code.unwrap_or(0)),
            props: Some(canon_props(Ctx::Auth, props.as_ref().unwrap_or(&Vec::new()))),
        },
    }
}

// convenience constructors used by the Engine A peer -------------------------

pub fn connect(ver: Ver, client_id: &str, keep_alive: u16, props: Props) -> Pkt {
    Pkt::Connect {
        name: b"MQTT".to_vec(),
        level: if ver == Ver::V5 { 5 } else { 4 },
        clean: true,
        keep_alive,
        props,
        client_id: client_id.into(),
        will: None,
        username: None,
        password: None,
    }
}

pub fn publish(qos: u8, pid: u16, topic: &str, payload: &[u8]) -> Pkt {
    Pkt::Publish {
        dup: false,
        qos,
        retain: false,
        topic: topic.into(),
        pid: if qos > 0 { Some(pid) } else { None },
        props: Vec::new(),
        payload: payload.to_vec(),
    }
}

pub fn ack(typ: u8, pid: u16) -> Pkt {
    Pkt::Ack { typ, pid, code: None, props: None }
}

pub fn hex(b: &[u8]) -> String {
    let mut s = String::with_capacity(b.len() * 2);
    for x in b.iter().take(96) {
        s.push_str(&format!("{x:02x}"));
    }
    if b.len() > 96 {
        s.push_str(&format!("..(+{})", b.len() - 96));
    }
    s
}
