//! C10 (codec part): decoding is independent of fragmentation; streamed payloads arrive intact.
use std::sync::Mutex;
use std::sync::atomic::{AtomicU64, Ordering};

use ntex_bytes::BytesMut;
use serde_json::json;

use crate::c02::{FindMap, all_cuts, fold, pieces};
use crate::check::Finding;
use crate::libconv::*;
use crate::refmqtt::{self as rf, Pkt, Ver};

fn fnd(clause: &str, witness: String, detail: String, input: serde_json::Value) -> Finding {
    Finding { clause: clause.into(), witness, detail, replay: json!({"engine": "enum", "check": "c10", "input": input}) }
}

fn vname(v: Ver) -> &'static str {
    if v == Ver::V3 { "v3" } else { "v5" }
}

/// A stream described compactly (payload bytes are generated, not stored in replay files).
#[derive(Clone, Debug)]
pub struct Stream {
    pub ver: Ver,
    pub desc: String,
    pub bytes: Vec<u8>,
    pub pkts: Vec<Pkt>,
}

pub fn payload(n: usize, tag: u8) -> Vec<u8> {
    (0..n).map(|i| (i as u8).wrapping_mul(31).wrapping_add(tag) | 0x80).collect()
}

pub fn mk_stream(ver: Ver, pkts: Vec<Pkt>) -> Stream {
    let mut bytes = Vec::new();
    let mut desc = Vec::new();
    for p in &pkts {
        bytes.extend_from_slice(&rf::encode(ver, p));
        desc.push(p.short());
    }
    Stream { ver, desc: desc.join(" "), bytes, pkts }
}

/// Run one fragmentation through a fresh library decoder and compare with the reference.
pub fn drive(s: &Stream, cuts: &[usize], min_chunk: u32, out: &mut Vec<Finding>) {
    crate::check::b_enter("Codec::decode (packet stream)", &s.bytes);
    drive_inner(s, cuts, min_chunk, out);
    crate::check::b_leave();
}

fn drive_inner(s: &Stream, cuts: &[usize], min_chunk: u32, out: &mut Vec<Finding>) {
    let l5;
    let l3;
    let lib: &dyn LibCodec = if s.ver == Ver::V5 {
        l5 = L5::new(0, min_chunk);
        &l5
    } else {
        l3 = L3::new(0, min_chunk);
        &l3
    };
    let inp = || json!({"decoder": vname(s.ver), "stream": s.desc, "len": s.bytes.len(), "cuts": if cuts.len() > 40 { json!(format!("{} cuts, first {:?}", cuts.len(), &cuts[..8])) } else { json!(cuts) }, "min_chunk": min_chunk});
    let mut src = BytesMut::new();
    // reassembled packets
    let mut got: Vec<Pkt> = Vec::new();
    // current streamed publish: (announcement, declared size, collected payload, piece sizes)
    let mut cur: Option<(Pkt, usize, Vec<u8>, Vec<usize>)> = None;
    let finish = |p: Pkt, data: Vec<u8>| -> Pkt {
        if let Pkt::Publish { dup, qos, retain, topic, pid, props, .. } = p {
            Pkt::Publish { dup, qos, retain, topic, pid, props, payload: data }
        } else {
            p
        }
    };
    for piece in pieces(&s.bytes, cuts) {
        src.extend_from_slice(piece);
        loop {
            match lib.decode_one(&mut src) {
                DecOut::NeedMore => break,
                DecOut::Panic(m) => {
                    out.push(fnd("panic", format!("{} decoder", vname(s.ver)), format!("panicked: {m}"), inp()));
                    return;
                }
                DecOut::Err(e) => {
                    out.push(fnd("valid-stream-rejected", format!("{} decoder", vname(s.ver)), format!("valid stream rejected with {e} after {} packets", got.len()), inp()));
                    return;
                }
                DecOut::Item(Item::Packet(p, _)) => {
                    if cur.is_some() {
                        out.push(fnd("payload-leak", format!("{} decoder: packet inside a payload", vname(s.ver)), format!("{p:?} decoded while a PUBLISH payload was incomplete"), inp()));
                        return;
                    }
                    got.push(p);
                }
                DecOut::Item(Item::Publish(p, declared, _)) => {
                    if cur.is_some() {
                        out.push(fnd("payload-leak", format!("{} decoder: PUBLISH inside a payload", vname(s.ver)), "second PUBLISH announced before the first payload ended".into(), inp()));
                        return;
                    }
                    let first = if let Pkt::Publish { payload, .. } = &p { payload.clone() } else { vec![] };
                    if first.len() == declared as usize {
                        got.push(p);
                    } else if first.len() > declared as usize {
                        out.push(fnd("payload-size", format!("{} decoder: first piece larger than declared", vname(s.ver)), format!("declared {declared}, first piece {}", first.len()), inp()));
                        return;
                    } else {
                        if !first.is_empty() && min_chunk != 0 && (first.len() as u32) < min_chunk {
                            out.push(fnd(
                                "min-chunk",
                                format!("{} decoder: non-final piece below minimum", vname(s.ver)),
                                format!("first piece of {} bytes with min_chunk_size {min_chunk} (declared {declared})", first.len()),
                                inp(),
                            ));
                        }
                        let l = first.len();
                        cur = Some((p, declared as usize, first, vec![l]));
                    }
                }
                DecOut::Item(Item::Chunk(b, eof)) => {
                    let Some((p, declared, mut data, mut sizes)) = cur.take() else {
                        out.push(fnd("payload-leak", format!("{} decoder: payload piece outside PUBLISH", vname(s.ver)), format!("piece of {} bytes", b.len()), inp()));
                        return;
                    };
                    if b.is_empty() && !eof {
                        // a caller that decodes until need-more would never finish (and this loop would grow `sizes` for ever)
                        out.push(fnd("no-progress", format!("{} decoder: empty payload piece that is not the end", vname(s.ver)), format!("decode handed out an empty, non-final payload piece without consuming input (declared {declared}, got {} so far)", data.len()), inp()));
                        return;
                    }
                    data.extend_from_slice(&b);
                    sizes.push(b.len());
                    if data.len() > declared {
                        out.push(fnd("payload-size", format!("{} decoder: pieces exceed declared size", vname(s.ver)), format!("declared {declared}, got {}", data.len()), inp()));
                        return;
                    }
                    if eof {
                        if data.len() != declared {
                            out.push(fnd("payload-size", format!("{} decoder: final piece before declared size", vname(s.ver)), format!("declared {declared}, got {} pieces {sizes:?}", data.len()), inp()));
                            return;
                        }
                        got.push(finish(p, data));
                    } else {
                        if data.len() == declared {
                            out.push(fnd("final-flag", format!("{} decoder: last piece not marked final", vname(s.ver)), format!("pieces {sizes:?} reach the declared size {declared} without a final mark"), inp()));
                            return;
                        }
                        if !b.is_empty() && min_chunk != 0 && (b.len() as u32) < min_chunk {
                            out.push(fnd(
                                "min-chunk",
                                format!("{} decoder: non-final piece below minimum", vname(s.ver)),
                                format!("piece of {} bytes with min_chunk_size {min_chunk}; pieces {sizes:?} declared {declared}", b.len()),
                                inp(),
                            ));
                        }
                        cur = Some((p, declared, data, sizes));
                    }
                }
            }
        }
    }
    if cur.is_some() || !src.is_empty() {
        out.push(fnd(
            "incomplete",
            format!("{} decoder: stream not fully decoded", vname(s.ver)),
            format!("{} bytes left, payload open: {}, packets {}", src.len(), cur.is_some(), got.len()),
            inp(),
        ));
        return;
    }
    let canon = |p: &Pkt| if s.ver == Ver::V3 { canon_v3(p) } else { rf::canon(p) };
    let g: Vec<Pkt> = got.iter().map(canon).collect();
    let w: Vec<Pkt> = s.pkts.iter().map(canon).collect();
    if g != w {
        let i = g.iter().zip(w.iter()).position(|(a, b)| a != b).unwrap_or(g.len().min(w.len()));
        out.push(fnd(
            "sequence",
            format!("{} decoder: packet sequence depends on fragmentation", vname(s.ver)),
            format!("packet #{i}: got {:?} want {:?} ({} vs {} packets)", g.get(i).map(|p| p.short()), w.get(i).map(|p| p.short()), g.len(), w.len()),
            inp(),
        ));
    }
}

pub fn cut_sets(n: usize, full: bool) -> Vec<Vec<usize>> {
    if n <= if full { 14 } else { 11 } {
        return all_cuts(n);
    }
    let mut out: Vec<Vec<usize>> = vec![vec![]];
    // byte at a time and fixed chunk sizes
    let sizes: Vec<usize> = if n <= 70_000 { (1..=64).collect() } else { vec![1, 7, 64, 1000, 32768, 65536] };
    for c in sizes {
        out.push((1..n).filter(|i| i % c == 0).collect());
    }
    if n <= if full { 220 } else { 90 } {
        for a in 1..n {
            out.push(vec![a]);
            for b in a + 1..n {
                out.push(vec![a, b]);
            }
        }
    } else if n <= 70_000 {
        let step = if full { 1 } else { 7 };
        for a in (1..n).step_by(step) {
            out.push(vec![a]);
        }
        // two cuts around the header / end
        for a in 1..12.min(n) {
            for b in [n - 3, n - 2, n - 1] {
                if b > a {
                    out.push(vec![a, b]);
                }
            }
        }
    } else {
        for a in (1..16).chain(n - 8..n) {
            out.push(vec![a]);
        }
    }
    out
}

pub fn streams(ver: Ver, full: bool) -> Vec<Stream> {
    let mut v = Vec::new();
    let ping = Pkt::PingReq;
    let puback = rf::ack(4, 9);
    let sub = Pkt::Subscribe { pid: 3, props: vec![], filters: vec![("a/#".into(), 1)] };
    let pubq = |qos: u8, n: usize, tag: u8| {
        let mut p = rf::publish(qos, 7, "t", &payload(n, tag));
        if ver == Ver::V5 && tag % 2 == 1 {
            if let Pkt::Publish { props, .. } = &mut p {
                props.push((0x26, rf::PVal::Pair("k".into(), "v".into())));
            }
        }
        p
    };
    // short streams (exhaustive fragmentation)
    for n in 0..6usize {
        v.push(mk_stream(ver, vec![pubq(0, n, 0)]));
        v.push(mk_stream(ver, vec![pubq(0, n, 0), ping.clone()]));
        v.push(mk_stream(ver, vec![ping.clone(), pubq(1, n, 2)]));
    }
    v.push(mk_stream(ver, vec![pubq(0, 1, 0), pubq(0, 2, 4), ping.clone()]));
    v.push(mk_stream(ver, vec![puback.clone(), pubq(1, 3, 0), puback.clone()]));
    v.push(mk_stream(ver, vec![ping.clone(), ping.clone(), puback.clone()]));
    v.push(mk_stream(ver, vec![pubq(2, 2, 1), ping.clone()]));
    // payload sizes around min_chunk values and varint boundaries
    let mut sizes = vec![0usize, 1, 3, 4, 5, 9, 127, 128, 1023, 1024, 1025, 2049];
    if full {
        sizes.extend([16383, 16384, 32767, 32768, 32769, 65537]);
    } else {
        sizes.extend([16383, 16384]);
    }
    for n in sizes {
        v.push(mk_stream(ver, vec![pubq(1, n, 8), ping.clone()]));
        if n < 3000 {
            v.push(mk_stream(ver, vec![sub.clone(), pubq(0, n, 3), pubq(1, n / 2, 5), puback.clone()]));
        }
    }
    v.push(mk_stream(ver, vec![pubq(0, 300 * 1024, 6), ping.clone()]));
    // v5: a PUBLISH whose property section is long enough for its length to take two (three) variable-byte-integer
    // bytes - a read boundary may fall between them (seeded change C10_r12 reported a length cut short as malformed
    // instead of asking for more data); likewise a Remaining Length of two and three bytes is covered by the sizes above
    if ver == Ver::V5 {
        let mut lens = vec![120usize, 126, 127, 128, 200];
        if full {
            lens.push(16_390);
        }
        for n in lens {
            for qos in [0u8, 1] {
                let mut p = rf::publish(qos, 7, "t", &payload(5, 1));
                if let Pkt::Publish { props, .. } = &mut p {
                    props.push((0x03, rf::PVal::Str("c".repeat(n))));
                    props.push((0x26, rf::PVal::Pair("k".into(), "v".into())));
                }
                v.push(mk_stream(ver, vec![ping.clone(), p, puback.clone()]));
            }
        }
    }
    v
}

pub struct CodecPart {
    pub evals: u64,
    pub streams: u64,
    pub fragmentations: u64,
    pub findings: FindMap,
    pub samples: Vec<serde_json::Value>,
    pub capped: bool,
}

pub fn run_codec_part(full: bool, deadline: std::time::Instant) -> CodecPart {
    let findings: Mutex<FindMap> = Mutex::new(FindMap::new());
    let evals = AtomicU64::new(0);
    let frags = AtomicU64::new(0);
    let capped = std::sync::atomic::AtomicBool::new(false);
    let mut work: Vec<(Stream, Vec<Vec<usize>>)> = Vec::new();
    let mut samples = Vec::new();
    for ver in [Ver::V3, Ver::V5] {
        for s in streams(ver, full) {
            let cs = cut_sets(s.bytes.len(), full);
            if samples.len() < 4 && s.bytes.len() > 8 {
                samples.push(json!({"decoder": vname(ver), "stream": s.desc, "bytes": s.bytes.len(), "fragmentations": cs.len()}));
            }
            work.push((s, cs));
        }
    }
    let nstreams = work.len() as u64;
    // flatten into (stream index, cut index range) jobs
    let mut jobs: Vec<(usize, usize, usize)> = Vec::new();
    for (i, (s, cs)) in work.iter().enumerate() {
        let grain = (2_000_000 / (s.bytes.len() + 16)).clamp(1, 4096);
        let mut a = 0;
        while a < cs.len() {
            jobs.push((i, a, (a + grain).min(cs.len())));
            a += grain;
        }
    }
    let next = AtomicU64::new(0);
    let nthreads = std::thread::available_parallelism().map(|n| n.get()).unwrap_or(8);
    std::thread::scope(|sc| {
        for _ in 0..nthreads {
            sc.spawn(|| {
                let mut out = Vec::new();
                let mut local = FindMap::new();
                loop {
                    let j = next.fetch_add(1, Ordering::Relaxed) as usize;
                    if j >= jobs.len() {
                        break;
                    }
                    if std::time::Instant::now() >= deadline {
                        capped.store(true, Ordering::Relaxed);
                        break;
                    }
                    let (i, a, b) = jobs[j];
                    let (s, cs) = &work[i];
                    for cuts in &cs[a..b] {
                        frags.fetch_add(1, Ordering::Relaxed);
                        for mc in [0u32, 1, 4, 1024, 32768] {
                            drive(s, cuts, mc, &mut out);
                            evals.fetch_add(1, Ordering::Relaxed);
                        }
                        if !out.is_empty() {
                            fold(&mut local, &mut out);
                        }
                    }
                }
                let mut g = findings.lock().unwrap();
                for (k, (n, f)) in local {
                    g.entry(k).and_modify(|e| e.0 += n).or_insert((n, f));
                }
            });
        }
    });
    CodecPart {
        evals: evals.load(Ordering::Relaxed),
        streams: nstreams,
        fragmentations: frags.load(Ordering::Relaxed),
        findings: findings.into_inner().unwrap(),
        samples,
        capped: capped.load(Ordering::Relaxed),
    }
}

pub fn run(tier: crate::check::Tier) -> i32 {
    use crate::check::{Check, Tier};
    let full = tier == Tier::Thorough;
    let mut ck = Check::new("C10", tier, std::time::Duration::from_secs(if full { 1500 } else { 55 }));
    if std::env::var("VERIF_LOUD").is_err() {
        std::panic::set_hook(Box::new(|_| {}));
    }
    let codec_deadline = ck.start + std::time::Duration::from_secs(if full { 900 } else { 30 });
    let cp = run_codec_part(full, codec_deadline);
    let _ = std::panic::take_hook();
    ck.evaluations += cp.evals;
    ck.states += cp.fragmentations;
    ck.transitions += cp.evals;
    ck.distinct_nontrivial += cp.fragmentations;
    if cp.capped {
        ck.exhaustive = false;
        ck.caps.push("codec part: time cap reached before all fragmentations were run".into());
    }
    ck.samples.extend(cp.samples);
    ck.extra.insert("codec_streams".into(), json!(cp.streams));
    ck.extra.insert("codec_fragmentations".into(), json!(cp.fragmentations));
    for (_, (n, f)) in cp.findings {
        ck.add_finding_n(f, n);
    }
    crate::c10conn::run_conn_part(&mut ck, full);
    ck.rule = "codec part: streams of 1-4 valid packets (PUBLISH payload sizes 0..5, around 4/1024/32768 and the 127/128, 16383/16384 varint boundaries, one 300 KiB) for both decoders; all 2^(n-1) fragmentations for streams up to 11 (quick) / 14 (thorough) bytes, otherwise no cut, every fixed chunk size 1..64, every single cut and (short streams) every pair of cuts; x min_chunk_size {0,1,4,1024,32768}; oracle = reference parse of the unfragmented stream. connection part: see per_config. distinct_nontrivial = distinct (stream, fragmentation) pairs + distinct connection-level outcomes".into();
    ck.assumptions.push("payload content pattern is irrelevant to fragmentation handling (bytes >= 0x80 so they cannot be mistaken for short packet headers)".into());
    ck.finish()
}
