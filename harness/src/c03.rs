//! C03 (handled once, acknowledged per QoS) and C04 (response order) over the inbound scenario.
use std::time::Duration;

use crate::check::{Check, Tier};
use crate::inbound::*;
use crate::refmqtt::Ver;
use crate::simnet::ExploreCfg;
use crate::world::{EpCfg, GateOutcome, Role};

fn stream_len(tier: Tier, long: bool) -> u8 {
    (if tier == Tier::Quick { 2 } else { 3 }) + long as u8
}

pub fn c03_configs(tier: Tier) -> Vec<InCfg> {
    let mut v = Vec::new();
    for (ver, role) in crate::c05::roles() {
        for router in [false, true] {
            if role == Role::Server && router {
                continue;
            }
            let mut ep = EpCfg::new(ver, role);
            ep.router = router;
            ep.proto_auto = true;
            let mut alphabet = vec![
                T::Pub { qos: 0, id: 0, len: 1, topic: 0, alias: 0 },
                T::Pub { qos: 1, id: 0, len: 1, topic: 0, alias: 0 },
                T::Pub { qos: 2, id: 0, len: 1, topic: 0, alias: 0 },
                T::PubSplit { qos: 1, id: 0, len: 6 },
                T::PubRel(0),
            ];
            if role == Role::Server {
                alphabet.push(T::Ping);
                alphabet.push(T::Sub(0));
            }
            let outcomes = if ver == Ver::V5 { vec![GateOutcome::Ok, GateOutcome::Err, GateOutcome::Nack(0x87)] } else { vec![GateOutcome::Ok, GateOutcome::Err] };
            if !router {
                // synchronous handlers: complete within the call (ready on first poll)
                let mut sync_ep = ep.clone();
                sync_ep.handler_auto = true;
                v.push(InCfg {
                    ep: sync_ep,
                    connect_props: vec![],
                    alphabet: alphabet.clone(),
                    prologue: vec![],
                    max_len: if tier == Tier::Quick { 3 } else { 4 },
                    outcomes: vec![GateOutcome::Ok],
                    poutcomes: vec![GateOutcome::Ok],
                    cork: true,
                    judge: J_C03,
                    app_sends: vec![],
                    skip_connect: false,
                    known: vec![],
                    bp: 0,
                });
            }
            // payload really streamed: with the default min_chunk_size a small payload is buffered by the
            // decoder until it is complete, so a publish delivered in pieces never reached the handler as a
            // stream (seeded change C03_r4). Here the first piece is announced at once and the handler reads
            // the rest while other handlers complete / fail.
            let mut stream_ep = ep.clone();
            stream_ep.min_chunk_size = 1;
            let stream_alphabet = vec![
                T::Pub { qos: 1, id: 0, len: 1, topic: 0, alias: 0 },
                T::Pub { qos: 2, id: 0, len: 1, topic: 0, alias: 0 },
                T::PubSplit { qos: 1, id: 0, len: 6 },
                T::PubSplit3 { qos: 2, id: 0, len: 8 },
            ];
            v.push(InCfg {
                ep,
                connect_props: vec![],
                alphabet,
                prologue: vec![],
                max_len: if tier == Tier::Quick { 3 } else { 4 },
                outcomes: outcomes.clone(),
                poutcomes: vec![GateOutcome::Ok],
                cork: false,
                judge: J_C03,
                app_sends: vec![],
                skip_connect: false,
                known: vec![],
                bp: 0,
            });
            // v5: "exactly the topic that was sent" also when it was sent as a Topic Alias - bound, re-bound to another
            // topic, used (seeded change C03_r9: the v5 client kept the first binding of an alias for ever). QoS 1
            // publishes with gated handlers, so the alias table is consulted while earlier handlers are still
            // running; the resolved topic (and, behind the client's router, the resource) is judged by the C17 monitor
            if ver == Ver::V5 {
                let mut aep = stream_ep.clone();
                aep.min_chunk_size = EpCfg::new(ver, role).min_chunk_size;
                aep.max_topic_alias = 2;
                let p = |topic: u8, alias: u16| T::Pub { qos: 1, id: 0, len: 1, topic, alias };
                v.push(InCfg {
                    ep: aep,
                    connect_props: vec![],
                    alphabet: vec![p(1, 1), p(2, 1), p(3, 1), p(2, 2), p(1, 0)],
                    prologue: vec![],
                    max_len: if tier == Tier::Quick { 3 } else { 4 },
                    outcomes: vec![GateOutcome::Ok],
                    poutcomes: vec![GateOutcome::Ok],
                    cork: false,
                    judge: J_C03 | J_C17,
                    app_sends: vec![],
                    skip_connect: false,
                    known: vec![],
                    bp: 0,
                });
            }
            // explored twice: one packet fewer with injections while runnable, full length at quiescence only
            // (run_c03 picks the deviation bound by max_len)
            for long in [false, true] {
                v.push(InCfg {
                    ep: stream_ep.clone(),
                    connect_props: vec![],
                    alphabet: stream_alphabet.clone(),
                    prologue: vec![],
                    max_len: stream_len(tier, long),
                    outcomes: outcomes.clone(),
                    poutcomes: vec![GateOutcome::Ok],
                    cork: false,
                    judge: J_C03,
                    app_sends: vec![],
                    skip_connect: false,
                    known: vec![],
                    bp: 0,
                });
            }
        }
    }
    v
}

pub fn c04_configs(tier: Tier) -> Vec<InCfg> {
    let mut v = Vec::new();
    for ver in [Ver::V3, Ver::V5] {
        // last two variants: write back-pressure episodes - the peer stops / resumes reading at any quiescent
        // point, the write buffer's high watermark is passed after two responses / after one
        for (hauto, pauto, cork, bp) in [(false, false, false, 0u8), (false, true, false, 0), (true, false, false, 0), (false, false, true, 0), (false, true, false, 1), (false, false, false, 2)] {
            let mut ep = EpCfg::new(ver, Role::Server);
            ep.handler_auto = hauto;
            ep.proto_auto = pauto;
            if bp > 0 {
                // one episode with the watermark at two responses, or two episodes with it at one response
                ep.write_buf = Some(if bp == 1 { (8, 2, 8) } else { (4, 1, 4) });
            }
            let mut alphabet = vec![
                T::Pub { qos: 1, id: 0, len: 1, topic: 0, alias: 0 },
                T::Pub { qos: 2, id: 0, len: 1, topic: 0, alias: 0 },
                T::PubRel(0),
                T::Ping,
                T::Sub(0),
                T::Unsub(0),
            ];
            if ver == Ver::V5 {
                alphabet.push(T::Auth);
            }
            if bp == 0 && !cork {
                // requests that produce no response packet (QoS 0 publish) between requests that do: their
                // queue slot is released without a write and the responses parked behind it must still be
                // drained (seeded change C04_r4). Smaller alphabet, same length.
                let mut ep0 = ep.clone();
                ep0.tag = "EP";
                if !hauto && pauto {
                    ep0.min_chunk_size = 1;
                }
                v.push(InCfg {
                    ep: ep0,
                    connect_props: vec![],
                    alphabet: vec![
                        T::Pub { qos: 0, id: 0, len: 1, topic: 0, alias: 0 },
                        T::Pub { qos: 1, id: 0, len: 1, topic: 0, alias: 0 },
                        T::Ping,
                        T::Sub(0),
                        // a publish in three writes: with payload streaming on its chunks are requests of their own
                        // (no response), so more queue slots are used up per packet - the response queue's ring
                        // buffer wraps within the length bound (seeded change C04_r7)
                    ]
                    .into_iter()
                    .chain(if !hauto && pauto { Some(T::PubSplit3 { qos: 1, id: 0, len: 8 }) } else { None })
                    .collect(),
                    prologue: vec![],
                    max_len: if tier == Tier::Quick { if !hauto && pauto { 3 } else { 4 } } else { 5 },
                    // v5: a handler error the application maps to a negative acknowledgement is a response like any
                    // other and keeps its place in the order (seeded change C04_r6 wrote it straight to the sink)
                    outcomes: if ver == Ver::V5 && !hauto { vec![GateOutcome::Ok, GateOutcome::Nack(0x87)] } else { vec![GateOutcome::Ok] },
                    poutcomes: vec![GateOutcome::Ok],
                    cork,
                    judge: J_C04,
                    app_sends: vec![],
                    skip_connect: false,
                    known: vec![],
                    bp,
                });
            }
            if bp == 0 && !cork && !hauto && pauto {
                // the application's publish service is not ready for a while (its own back-pressure): the dispatcher
                // stops reading, responses of handlers that complete meanwhile still leave in order, and what arrived
                // during the pause is handled afterwards
                let mut eph = ep.clone();
                eph.tag = "EP";
                eph.ready_gate = true;
                eph.holds = 1;
                v.push(InCfg {
                    ep: eph,
                    connect_props: vec![],
                    alphabet: vec![T::Pub { qos: 0, id: 0, len: 1, topic: 0, alias: 0 }, T::Pub { qos: 1, id: 0, len: 1, topic: 0, alias: 0 }, T::Ping, T::Sub(0)],
                    prologue: vec![],
                    max_len: if tier == Tier::Quick { 3 } else { 4 },
                    outcomes: vec![GateOutcome::Ok],
                    poutcomes: vec![GateOutcome::Ok],
                    cork,
                    judge: J_C04,
                    app_sends: vec![],
                    skip_connect: false,
                    known: vec![],
                    bp,
                });
            }
            if bp == 0 && !cork && !hauto && ver == Ver::V5 {
                // a response the encoder must refuse: the peer's Maximum Packet Size is 40 bytes and the SUBACK of a
                // 40-filter SUBSCRIBE does not fit. The connection must end; it must not go on with that response
                // silently missing (mutation-sweep survivor: the encoder error of a drained response was dropped)
                let mut epx = ep.clone();
                // (v5 only: the v3 handshake's max_packet_size also limits what the server accepts, so the 40-filter
                // SUBSCRIBE itself would be refused)
                let connect_props = vec![(0x27, crate::refmqtt::PVal::U32(40))];
                let _ = &mut epx;
                v.push(InCfg {
                    ep: epx,
                    connect_props,
                    alphabet: vec![T::Pub { qos: 1, id: 0, len: 1, topic: 0, alias: 0 }, T::SubMany(0), T::Ping],
                    prologue: vec![],
                    max_len: if tier == Tier::Quick { 3 } else { 4 },
                    outcomes: vec![GateOutcome::Ok],
                    poutcomes: vec![GateOutcome::Ok],
                    cork,
                    judge: J_C04,
                    app_sends: vec![],
                    skip_connect: false,
                    known: vec![],
                    bp,
                });
            }
            v.push(InCfg {
                ep,
                connect_props: vec![],
                alphabet,
                prologue: vec![],
                max_len: if tier == Tier::Quick { if cork || bp > 0 { 3 } else { 4 } } else { 5 },
                outcomes: vec![GateOutcome::Ok],
                poutcomes: vec![GateOutcome::Ok],
                cork,
                judge: J_C04,
                app_sends: vec![],
                skip_connect: false,
                known: vec![],
                bp,
            });
        }
    }
    v
}

pub fn run_c03(tier: Tier) -> i32 {
    let mut ck = Check::new("C03", tier, Duration::from_secs(if tier == Tier::Quick { 50 } else { 1500 }));
    let ecfg = ExploreCfg { max_dev: if tier == Tier::Quick { 1 } else { 2 }, max_execs: if tier == Tier::Quick { 1_500_000 } else { 20_000_000 }, ..Default::default() };
    let known: Vec<String> = ck.known.iter().filter(|k| k.status == "known").map(|k| format!("{}|{}", k.clause, k.witness)).collect();
    for (i, c) in c03_configs(tier).iter_mut().enumerate() {
        c.known = known.clone();
        if c.ep.min_chunk_size == 1 && c.max_len == stream_len(tier, true) {
            ck.explore::<In>("inbound", i, c, &ExploreCfg { max_dev: 0, ..ecfg.clone() });
        } else {
            ck.explore::<In>("inbound", i, c, &ecfg);
        }
    }
    ck.rule = format!(
        "per role (v3/v5 server, v3/v5 client with protocol-service handler and with topic router): every sequence of up to {} inbound packets over {{PUBLISH q0/q1/q2, PUBLISH q1 delivered in two writes, PUBREL of the oldest unreleased QoS 2 id, PINGREQ, SUBSCRIBE}} interleaved in every order with handler completions whose outcome (ok / error / (v5) error mapped to a negative ack) the explorer chooses, {} injection(s) while tasks are runnable; monitor over handler log + positioned wire output; per role also with payload streaming on (min_chunk_size 1, alphabet {{PUBLISH q1/q2, PUBLISH q1 in two writes, PUBLISH q2 in three writes}}: the handler reads its payload while other handlers complete or fail; one packet fewer with injections, full length at quiescence only) - a payload read error on a connection that stays up is a violation. distinct_nontrivial = distinct final observations with >= 2 inbound packets",
        if tier == Tier::Quick { 3 } else { 4 },
        ecfg.max_dev
    );
    ck.assumptions = vec!["FIFO task order of ntex-rt; nondeterminism = timing of environment events (DESIGN 2.4)".into()];
    ck.finish()
}

pub fn run_c04(tier: Tier) -> i32 {
    let mut ck = Check::new("C04", tier, Duration::from_secs(if tier == Tier::Quick { 50 } else { 1500 }));
    let ecfg = ExploreCfg { max_dev: if tier == Tier::Quick { 1 } else { 2 }, max_execs: if tier == Tier::Quick { 1_500_000 } else { 20_000_000 }, ..Default::default() };
    let cfgs = c04_configs(tier);
    let n = cfgs.len();
    for (i, c) in cfgs.iter().enumerate() {
        if tier == Tier::Quick {
            // full length at quiescence only, one request shorter with one injection while runnable
            // (configuration indices n.. are the shortened variants, see `trace`)
            ck.explore::<In>("inbound", i, c, &ExploreCfg { max_dev: 0, ..ecfg.clone() });
            let mut short = c.clone();
            short.max_len = c.max_len.saturating_sub(1).max(2);
            ck.explore::<In>("inbound", n + i, &short, &ecfg);
        } else {
            ck.explore::<In>("inbound", i, c, &ecfg);
        }
    }
    ck.rule = format!(
        "v3 and v5 server: every sequence of up to {} requests over {{PUBLISH q1, PUBLISH q2, PUBREL, PINGREQ, SUBSCRIBE, UNSUBSCRIBE, (v5) AUTH}} with distinct packet ids (and, without back-pressure, over {{PUBLISH q0 - a request without a response packet -, PUBLISH q1, PINGREQ, SUBSCRIBE}}, and (v5) over {{PUBLISH q1, PINGREQ, a 40-filter SUBSCRIBE whose SUBACK exceeds the peer's 40-byte maximum packet size and cannot be encoded}}); publish handler and protocol service each immediately-ready or gated; arrivals one per read or corked into arbitrary groups; handler completions in every order (v5, small alphabet: also with handler errors mapped to negative acknowledgements); one variant (small alphabet) in which the application's publish service is not ready for a while (Hold / Unhold at any quiescent point: the dispatcher's reading pause); two variants with write back-pressure episodes (the peer stops / resumes reading at any quiescent point, 1 episode with an 8-byte or 2 episodes with a 4-byte high watermark of the write buffer, so that the dispatcher's back-pressure state is entered after two / one buffered responses); {} injection(s) while tasks are runnable (quick: full length without injection, one request fewer with one). Oracle after every step: handler-produced responses on the wire are a prefix of the request order; at the end of healthy runs they are exactly the request order",
        if tier == Tier::Quick { 4 } else { 5 },
        ecfg.max_dev
    );
    ck.assumptions = vec!["FIFO task order of ntex-rt; nondeterminism = timing of environment events (DESIGN 2.4)".into()];
    ck.finish()
}

pub fn trace(prop: &str, tier: Tier, idx: usize, choices: &[u16], script: Option<Vec<String>>, max_polls: u64) -> crate::simnet::ExecRecord {
    let cfgs = match prop {
        "C04" => {
            let mut v = c04_configs(tier);
            let shorts: Vec<InCfg> = v
                .iter()
                .map(|c| {
                    let mut s = c.clone();
                    s.max_len = c.max_len.saturating_sub(1).max(2);
                    s
                })
                .collect();
            v.extend(shorts);
            v
        }
        "C11" => crate::c11::configs(tier),
        "C12" => crate::c12::configs(tier),
        "C16" => crate::c16::configs(tier),
        "C17" => crate::c17::configs(tier),
        _ => c03_configs(tier),
    };
    let mut c = cfgs[idx].clone();
    // like the check itself: monitors keep judging past known findings
    let prop_static: &'static str = match prop {
        "C04" => "C04",
        "C11" => "C11",
        "C12" => "C12",
        "C16" => "C16",
        "C17" => "C17",
        _ => "C03",
    };
    c.known = crate::check::load_known(prop_static).iter().filter(|k| k.status == "known").map(|k| format!("{}|{}", k.clause, k.witness)).collect();
    let c = &c;
    println!("config #{idx}: {} alphabet={:?}", c.ep.label(), c.alphabet);
    match script {
        Some(sc) => crate::simnet::run_script::<In>(c, &sc, max_polls),
        None => crate::simnet::run_one::<In>(c, choices, max_polls),
    }
}

pub fn bench_leak() {
    let cfgs = c04_configs(Tier::Quick);
    let c = &cfgs[4];
    let rss = || std::fs::read_to_string("/proc/self/statm").ok().and_then(|s| s.split_whitespace().nth(1).and_then(|x| x.parse::<u64>().ok())).unwrap_or(0) * 4;
    let h = {
        let c = c.clone();
        std::thread::spawn(move || {
            let r0 = rss();
            let n: usize = std::env::var("LEAK_N").ok().and_then(|s| s.parse().ok()).unwrap_or(20000);
            for i in 0..n {
                let (_r, _) = crate::simnet::run_reused::<In>(&c, &[], 20_000);
                if i % 5000 == 4999 {
                    let mi = unsafe { libc::mallinfo2() };
                    println!("  wheel timers {} delays {}", ntex_util::time::vclock::wheel_timers(), ntex_util::time::vclock::pending_delays());
                    println!("after {} execs: rss {} KB (+{} KB) alive tasks {} malloc in-use {} KB free {} KB", i + 1, rss(), rss() - r0, crate::simnet::alive_tasks(), mi.uordblks / 1024, mi.fordblks / 1024);
                }
            }
        })
    };
    h.join().unwrap();
}
