//! Oracles over the inbound scenario (one monitor per property clause set).
#![allow(dead_code)]
use crate::inbound::*;
use crate::refmqtt::{Pkt, Ver};
use crate::simnet::{Outcome, Violation, step};
use crate::world::*;

fn viol(s: &In, clause: &str, wit: String, msg: String) -> Violation {
    Violation::new(clause, format!("{} {}", s.cfg.ep.label(), wit), format!("{msg}; {}", s.detail()))
}

pub struct HRec {
    pub k: usize,
    pub enter_step: u64,
    pub qos: u8,
    pub pid: u16,
    pub topic: String,
    pub dup: bool,
    pub retain: bool,
    pub size: usize,
    pub props: String,
    pub payload: Vec<u8>,
    pub payload_err: Option<String>,
    pub exit: Option<(u64, GateOutcome)>,
    pub dropped: bool,
}

pub fn handler_records(s: &In) -> Vec<HRec> {
    let mut v: Vec<HRec> = Vec::new();
    for (st, r) in s.conn.log.snapshot() {
        match r {
            Rec::HEnter { k, qos, pid, topic, dup, retain, size, props } => v.push(HRec {
                k,
                enter_step: st,
                qos,
                pid,
                topic,
                dup,
                retain,
                size,
                props,
                payload: vec![],
                payload_err: None,
                exit: None,
                dropped: false,
            }),
            Rec::HPayload { k, bytes, err } => {
                if let Some(h) = v.iter_mut().find(|h| h.k == k) {
                    h.payload.extend_from_slice(&bytes);
                    if err.is_some() {
                        h.payload_err = err;
                    }
                }
            }
            Rec::HExit { k, outcome } => {
                if let Some(h) = v.iter_mut().find(|h| h.k == k) {
                    h.exit = Some((st, outcome));
                }
            }
            Rec::HDrop { k } => {
                if let Some(h) = v.iter_mut().find(|h| h.k == k) {
                    h.dropped = true;
                }
            }
            _ => {}
        }
    }
    v
}

/// responses the application's handlers owe, in request order: (type nibble, pid)
fn expected_responses(s: &In) -> Vec<(u8, u16)> {
    let v5 = s.conn.ver() == Ver::V5;
    let mut e = Vec::new();
    for snt in &s.sent {
        if snt.complete_step.is_none() {
            continue;
        }
        match &snt.pkt {
            Some(Pkt::Publish { qos: 1, pid: Some(p), .. }) => e.push((4, *p)),
            Some(Pkt::Publish { qos: 2, pid: Some(p), .. }) => e.push((5, *p)),
            Some(Pkt::Ack { typ: 6, pid, .. }) => e.push((7, *pid)),
            Some(Pkt::Subscribe { pid, .. }) => e.push((9, *pid)),
            Some(Pkt::Unsubscribe { pid, .. }) => e.push((11, *pid)),
            Some(Pkt::PingReq) => e.push((13, 0)),
            Some(Pkt::Auth { .. }) if v5 => e.push((15, 0)),
            _ => {}
        }
    }
    e
}

fn actual_responses(s: &In) -> Vec<(u8, u16, u64)> {
    s.conn
        .out
        .iter()
        .filter_map(|(st, p)| match p {
            Pkt::Ack { typ, pid, .. } if *typ != 6 => Some((*typ, *pid, *st)),
            Pkt::SubAck { pid, .. } => Some((9, *pid, *st)),
            Pkt::UnsubAck { pid, .. } => Some((11, *pid, *st)),
            Pkt::PingResp => Some((13, 0, *st)),
            Pkt::Auth { .. } => Some((15, 0, *st)),
            _ => None,
        })
        .collect()
}

pub fn healthy(s: &In) -> bool {
    s.conn.log.stops().is_empty() && !s.conn.done()
}

pub fn step_check(s: &mut In) -> Result<(), Violation> {
    if s.cfg.judge & J_C04 != 0 {
        c04_prefix(s)?;
    }
    if s.cfg.judge & J_C03 != 0 {
        c03_monitor(s, false)?;
    }
    if s.cfg.judge & J_C12 != 0 {
        crate::c12::step_check(s)?;
    }
    Ok(())
}

fn c04_prefix(s: &In) -> Result<(), Violation> {
    let mut e = expected_responses(s);
    let a = actual_responses(s);
    // a response that cannot be encoded (SUBACK of a 40-filter SUBSCRIBE against a small outbound limit) ends the
    // connection; until the Stop is through, responses parked behind it may still be written: it is skipped in the
    // order check when absent, and demanded like any other on a connection that stays healthy (final check)
    let unencodable: Vec<u16> = s.sent.iter().filter(|x| matches!(x.t, T::SubMany(_))).filter_map(|x| if let Some(Pkt::Subscribe { pid, .. }) = &x.pkt { Some(*pid) } else { None }).collect();
    e.retain(|(t, p)| !(*t == 9 && unencodable.contains(p) && !a.iter().any(|x| x.0 == 9 && x.1 == *p)));
    for (i, (t, p, _)) in a.iter().enumerate() {
        if i >= e.len() || e[i] != (*t, *p) {
            return Err(viol(
                s,
                "response-order",
                format!("response #{i} out of request order"),
                format!("responses on the wire {:?} are not a prefix of the request order {:?}", a.iter().map(|x| (x.0, x.1)).collect::<Vec<_>>(), e),
            ));
        }
    }
    Ok(())
}

fn c03_monitor(s: &In, at_end: bool) -> Result<(), Violation> {
    let mut found: Vec<Violation> = Vec::new();
    c03_collect(s, at_end, &mut found);
    // report an unknown violation in preference to a known finding
    let is_known = |v: &Violation| s.cfg.known.contains(&format!("{}|{}", v.clause, v.witness));
    if let Some(i) = found.iter().position(|v| !is_known(v)) {
        return Err(found.swap_remove(i));
    }
    match found.into_iter().next() {
        // known findings are reported once, at the end of the execution
        Some(v) if at_end => Err(v),
        _ => Ok(()),
    }
}

fn c03_collect(s: &In, at_end: bool, found: &mut Vec<Violation>) {
    let ver = s.conn.ver();
    let hs = handler_records(s);
    let out = &s.conn.out;
    let stops = s.conn.log.stops();
    for snt in &s.sent {
        let Some(Pkt::Publish { qos, pid, topic, dup, retain, payload, props }) = &snt.pkt else { continue };
        if matches!(snt.t, T::PubPartial { .. }) {
            continue;
        }
        let id = pid.unwrap_or(0);
        // handler invocations for this packet: by packet id (qos>0) or payload tag
        let mine: Vec<&HRec> = hs
            .iter()
            .filter(|h| if *qos > 0 { h.pid == id && h.qos == *qos } else { h.qos == 0 && h.size == payload.len() && (h.payload.first() == payload.first() || h.payload.is_empty()) && h.enter_step >= snt.step })
            .collect();
        let mine: Vec<&HRec> = if *qos == 0 { mine.into_iter().take(1).collect() } else { mine };
        if mine.len() > 1 {
            found.push(viol(s, "handled-twice", format!("q{qos}"), format!("PUBLISH id {id} reached the handler {} times", mine.len())));
        }
        if let Some(h) = mine.first() {
            let props_ok = ver == Ver::V3 || props.is_empty() == h.props.is_empty() || !props.is_empty();
            // (a publish that carries a Topic Alias is judged against the resolved topic by the C17 monitor, which the
            // alias configurations of C03 run as well)
            let aliased = props.iter().any(|(id, _)| *id == 0x23);
            // (behind the client's router the harness prefixes the topic with the resource that was chosen: "A:a")
            let seen = if s.cfg.ep.router { h.topic.split_once(':').map(|x| x.1).unwrap_or(&h.topic) } else { &h.topic };
            if (!aliased && seen != topic.as_str()) || h.dup != *dup || h.retain != *retain || h.size != payload.len() || !props_ok {
                found.push(viol(s, "fields", format!("q{qos}"), format!("handler saw topic={} dup={} retain={} size={} for sent {:?}", h.topic, h.dup, h.retain, h.size, snt.pkt.as_ref().unwrap().short())));
            }
            if (h.exit.is_some() || at_end) && h.payload_err.is_none() && s.cfg.ep.read_mode == ReadMode::All && snt.complete_step.is_some() && h.payload != *payload && h.exit.is_some() {
                found.push(viol(s, "payload", format!("q{qos}"), format!("handler read {:?} but {:?} was sent", h.payload, payload)));
            }
            // a reader may only see an error when the connection ends; on a connection that is still healthy at
            // the end of the run the handler of a completely delivered publish must have received its bytes
            // (seeded change C03_r4: the failure of an earlier handler poisoned the stream of a later publish)
            if at_end && healthy(s) && snt.complete_step.is_some() && s.cfg.ep.read_mode == ReadMode::All {
                if let Some(e) = &h.payload_err {
                    found.push(viol(s, "payload-error", format!("q{qos}"), format!("handler of PUBLISH id {id} got a payload read error ({e}) on a connection that stays up; sent {:?}", payload)));
                }
            }
        }
        if *qos == 0 {
            continue;
        }
        // acknowledgements for this id after the packet was sent
        let acks: Vec<(u8, Option<u8>, u64)> = out
            .iter()
            .filter_map(|(st, p)| match p {
                Pkt::Ack { typ, pid, code, .. } if *pid == id && *typ != 6 && *st >= snt.step => Some((*typ, *code, *st)),
                _ => None,
            })
            .collect();
        let ok_exit = mine.first().and_then(|h| h.exit).filter(|(_, o)| *o == GateOutcome::Ok).map(|(st, _)| st);
        let any_exit = mine.first().and_then(|h| h.exit);
        let first_type = if *qos == 1 { 4 } else { 5 };
        let firsts: Vec<&(u8, Option<u8>, u64)> = acks.iter().filter(|a| a.0 == 4 || a.0 == 5).collect();
        if firsts.len() > 1 {
            found.push(viol(s, "ack-duplicated", format!("q{qos}"), format!("{} PUBACK/PUBREC packets for id {id}", firsts.len())));
        }
        if let Some(a) = firsts.first() {
            let success = a.1.unwrap_or(0) < 0x80;
            if a.0 != first_type {
                found.push(viol(
                    s,
                    "wrong-ack-type",
                    format!("q{qos} answered with {}", if a.0 == 4 { "PUBACK" } else { "PUBREC" }),
                    format!("QoS {qos} PUBLISH id {id} was answered with packet type {}", a.0),
                ));
            }
            if success {
                match ok_exit {
                    Some(st) if st <= a.2 => {}
                    _ => {
                        found.push(viol(
                            s,
                            "ack-before-completion",
                            format!("q{qos}"),
                            format!("success acknowledgement for id {id} at step {} but handler outcome is {:?}", a.2, any_exit),
                        ));
                    }
                }
            } else if let Some((_, GateOutcome::Nack(c))) = any_exit {
                if a.1 != Some(c) {
                    found.push(viol(s, "nack-code", format!("q{qos}"), format!("handler mapped its error to {c:#x} but the ack carries {:?}", a.1)));
                }
            }
        }
        // PUBCOMP only after PUBREC and after the matching PUBREL was delivered
        let comps: Vec<&(u8, Option<u8>, u64)> = acks.iter().filter(|a| a.0 == 7 && a.1.unwrap_or(0) < 0x80).collect();
        let rel = s.sent.iter().find(|r| matches!(&r.pkt, Some(Pkt::Ack { typ: 6, pid, .. }) if *pid == id) && r.step >= snt.step);
        if comps.len() > 1 {
            found.push(viol(s, "ack-duplicated", "pubcomp".into(), format!("{} PUBCOMP packets for id {id}", comps.len())));
        }
        if let Some(c) = comps.first() {
            let rec_ok = firsts.first().is_some_and(|a| a.0 == 5 && a.2 <= c.2);
            let rel_ok = rel.is_some_and(|r| r.complete_step.is_some_and(|st| st <= c.2));
            if *qos != 2 || !rec_ok || !rel_ok {
                found.push(viol(s, "pubcomp-unsolicited", format!("q{qos}"), format!("PUBCOMP for id {id} at step {} without PUBREC+PUBREL before it", c.2)));
            }
        }
        if at_end && healthy(s) {
            if let Some((_, GateOutcome::Ok)) = any_exit {
                if firsts.is_empty() {
                    found.push(viol(s, "ack-missing", format!("q{qos}"), format!("handler for id {id} completed but no acknowledgement was written")));
                }
                if *qos == 2 && rel.is_some_and(|r| r.complete_step.is_some()) && comps.is_empty() {
                    found.push(viol(s, "ack-missing", "pubcomp".into(), format!("PUBREL for id {id} was delivered but no PUBCOMP was written")));
                }
            }
            if mine.is_empty() && snt.complete_step.is_some() {
                found.push(viol(s, "not-handled", format!("q{qos}"), format!("PUBLISH id {id} never reached the handler on a healthy connection")));
            }
        }
        // failing handler
        if let Some((_, GateOutcome::Err)) = any_exit {
            if firsts.iter().any(|a| a.1.unwrap_or(0) < 0x80) {
                found.push(viol(s, "ack-after-error", format!("q{qos}"), format!("handler failed for id {id} but a success acknowledgement was written")));
            }
            let observable = s.cfg.ep.role == Role::Server || !s.cfg.ep.router;
            if at_end && observable && stops.iter().filter(|x| x.starts_with("Stop:Error")).count() != 1 {
                found.push(viol(s, "error-not-reported", format!("q{qos}"), format!("handler failed for id {id}; control service saw {stops:?}")));
            }
        }
        if let Some((_, GateOutcome::Nack(c))) = any_exit {
            if firsts.iter().any(|a| a.1.unwrap_or(0) < 0x80) {
                found.push(viol(s, "ack-after-error", format!("q{qos} nack"), format!("handler mapped an error for id {id} but a success acknowledgement was written")));
            }
            // "v5: the negative acknowledgement the application mapped the error to": when nothing else can have ended
            // the connection (no handler failed with an unmapped error, no QoS 0 handler failed at all), the mapped
            // acknowledgement must be written and the connection must go on (mutation-sweep survivor: the mapping
            // was skipped and the connection ended with the application's error)
            let other_cause = hs.iter().any(|h| matches!(h.exit, Some((_, GateOutcome::Err))) || (h.qos == 0 && matches!(h.exit, Some((_, GateOutcome::Nack(_))))));
            if at_end && !other_cause {
                if !healthy(s) {
                    found.push(viol(s, "nack-ended-connection", format!("q{qos}"), format!("handler mapped its error for id {id} to {c:#x} and nothing else failed, yet the connection ended: {stops:?}")));
                } else if !firsts.iter().any(|a| a.1 == Some(c)) {
                    found.push(viol(s, "nack-missing", format!("q{qos}"), format!("handler mapped its error for id {id} to {c:#x} but no such acknowledgement was written")));
                }
            }
        }
    }
    // QoS 0 never produces an acknowledgement: any ack must belong to a sent qos>0 id
    for (_, p) in out {
        if let Pkt::Ack { typ, pid, .. } = p {
            if *typ == 4 || *typ == 5 {
                let known = s.sent.iter().any(|x| matches!(&x.pkt, Some(Pkt::Publish { pid: Some(q), .. }) if q == pid));
                if !known {
                    found.push(viol(s, "ack-unsolicited", "unknown id".into(), format!("acknowledgement for id {pid} that no QoS>0 PUBLISH carried")));
                }
            }
        }
    }
}

pub fn drain(s: &mut In) -> bool {
    if s.conn.done() {
        return false;
    }
    if s.pending_rest() {
        let sn = s.sent.last_mut().unwrap();
        let rest = std::mem::take(&mut sn.rest);
        sn.complete_step = Some(step());
        s.conn.send_raw(&rest);
        return true;
    }
    if !s.corked.is_empty() {
        let b = std::mem::take(&mut s.corked);
        s.conn.send_raw(&b);
        return true;
    }
    if !s.window_open {
        s.window_open = true;
        s.conn.window(true);
        return true;
    }
    if s.held {
        s.held = false;
        crate::world::hold_readiness(false);
        return true;
    }
    if s.conn.gates.open_all(GateOutcome::Ok) {
        return true;
    }
    if s.conn.pgates.open_all(GateOutcome::Ok) {
        return true;
    }
    if s.cfg.judge & (J_C03 | J_C04) != 0 && healthy(s) {
        // release every QoS 2 publish whose PUBREC is on the wire
        let recs: Vec<u16> = s.conn.out.iter().filter_map(|(_, p)| if let Pkt::Ack { typ: 5, pid, code, .. } = p { if code.unwrap_or(0) < 0x80 { Some(*pid) } else { None } } else { None }).collect();
        let rels: Vec<u16> = s.sent.iter().filter_map(|x| if let Some(Pkt::Ack { typ: 6, pid, .. }) = &x.pkt { Some(*pid) } else { None }).collect();
        if let Some(id) = recs.iter().find(|r| !rels.contains(r)) {
            let p = crate::refmqtt::ack(6, *id);
            let b = crate::refmqtt::encode(s.conn.ver(), &p);
            s.sent.push(Sent { t: T::PubRel(*id), pkt: Some(p), step: step(), rest: vec![], complete_step: Some(step()), tag: 0, half: false });
            s.conn.send_raw(&b);
            return true;
        }
    }
    if s.cfg.judge & J_C16 != 0 && !s.probe_sent && s.conn.log.stops().is_empty() {
        s.probe_step = step();
        s.probe_sent = crate::c16::send_probe(s);
        return s.probe_sent;
    }
    false
}

pub fn final_check(s: &mut In) -> Result<Outcome, Violation> {
    if s.cfg.judge & J_C04 != 0 {
        c04_prefix(s)?;
        if healthy(s) {
            let e = expected_responses(s);
            let a = actual_responses(s);
            if a.len() != e.len() {
                return Err(viol(
                    s,
                    "response-lost",
                    "healthy connection".into(),
                    format!("requests expect responses {e:?} but the wire carries {:?}", a.iter().map(|x| (x.0, x.1)).collect::<Vec<_>>()),
                ));
            }
        }
    }
    if s.cfg.judge & J_C03 != 0 {
        c03_monitor(s, true)?;
    }
    if s.cfg.judge & J_C11 != 0 {
        crate::c11::final_check(s)?;
    }
    if s.cfg.judge & J_C12 != 0 {
        crate::c12::final_check(s)?;
    }
    if s.cfg.judge & J_C16 != 0 {
        crate::c16::final_check(s)?;
    }
    if s.cfg.judge & J_C17 != 0 {
        crate::c17::final_check(s)?;
    }
    // canonical observation: what was sent, what came back, handler order and outcomes, stops
    let hs = handler_records(s);
    let obs = format!(
        "sent={:?} out={:?} h={:?} stops={:?}",
        s.sent.iter().map(|x| format!("{:?}", x.t)).collect::<Vec<_>>(),
        s.conn.out_short(),
        hs.iter().map(|h| (h.pid, h.qos, h.exit.map(|e| e.1), h.dropped)).collect::<Vec<_>>(),
        s.conn.log.stops()
    );
    // non-trivial: at least two handlers were executing at the same time, or a handler outlived a later request
    let overlapped = hs.iter().any(|h| hs.iter().any(|g| g.k != h.k && g.enter_step > h.enter_step && h.exit.is_none_or(|e| e.0 > g.enter_step)));
    Ok(Outcome { obs, nontrivial: overlapped || s.sent.len() >= 2 })
}
