//! C16: no sequence of well-formed peer packets can panic or hang an endpoint.
use std::time::Duration;

use crate::check::{Check, Tier};
use crate::inbound::*;
use crate::outbound::SK;
use crate::refmqtt::{self as rf, Pkt, Ver};
use crate::simnet::{ExploreCfg, Violation, step};
use crate::world::*;

fn viol(s: &In, clause: &str, wit: String, msg: String) -> Violation {
    Violation::new(clause, format!("{} {}", s.cfg.ep.label(), wit), format!("{msg}; {}", s.detail()))
}

pub const PROBE_TAG: u8 = 0xEE;

/// Is the endpoint still serving? Server: PINGREQ must be answered. Client: a QoS 0 PUBLISH must reach the handler.
pub fn send_probe(s: &mut In) -> bool {
    // a frame that was deliberately left incomplete swallows whatever follows: nothing to probe
    if s.sent.iter().any(|x| matches!(x.t, T::PubPartial { .. })) {
        return false;
    }
    let ver = s.conn.ver();
    if s.cfg.ep.role == Role::Server {
        let b = rf::encode(ver, &Pkt::PingReq);
        s.conn.send_raw(&b);
    } else {
        let p = rf::publish(0, 0, "t", &[PROBE_TAG]);
        let b = rf::encode(ver, &p);
        s.conn.send_raw(&b);
    }
    true
}

pub fn final_check(s: &In) -> Result<(), Violation> {
    let stops = s.conn.log.stops();
    let kinds: Vec<String> = s.sent.iter().map(|x| format!("{:?}", x.t).split([' ', '(', '{']).next().unwrap_or("").to_string()).collect();
    // witness: the packet kinds of the sequence without repetition (order kept), coarse enough to be a class
    let mut uniq: Vec<String> = Vec::new();
    for k in &kinds {
        if !uniq.contains(k) {
            uniq.push(k.clone());
        }
    }
    let wit = uniq.join(",");
    // a routed client has no control service the harness could observe (ClientRouter only offers start()):
    // only "no panic, no hang, a live connection still answers" is judged there
    let observable = !(s.cfg.ep.role == Role::Client && s.cfg.ep.router);
    if !observable {
        if !s.conn.done() && s.probe_sent && s.conn.log.count(|r| matches!(r, Rec::HPayload { bytes, .. } if bytes.first() == Some(&PROBE_TAG))) == 0 {
            return Err(viol(s, "hang", wit, "connection is up but does not process a probe packet any more".into()));
        }
        let _ = step();
        return Ok(());
    }
    if stops.len() > 1 {
        return Err(viol(s, "stop-twice", wit, format!("control service received {} Stop notifications: {stops:?}", stops.len())));
    }
    if stops.is_empty() && !s.conn.done() {
        if s.probe_sent {
            let answered = if s.cfg.ep.role == Role::Server {
                s.conn.out.iter().any(|(st, p)| *st >= s.probe_step && matches!(p, Pkt::PingResp))
            } else {
                s.conn.log.count(|r| matches!(r, Rec::HPayload { bytes, .. } if bytes.first() == Some(&PROBE_TAG))) > 0
            };
            if !answered {
                return Err(viol(s, "hang", wit, "connection is up (no Stop) but does not process a probe packet any more".into()));
            }
        }
    } else if let Some(st) = stops.first() {
        // a connection ended by the peer's packets must say why: protocol error, unless a packet of the
        // sequence legitimately ends the connection (DISCONNECT; client role: PUBREL for an unknown id closes)
        let legit = s.sent.iter().any(|x| matches!(x.t, T::Disconnect | T::DisconnectExpiry) || (s.cfg.ep.role == Role::Client && matches!(x.t, T::PubRel(_))));
        if !legit && !st.starts_with("Stop:Proto") {
            return Err(viol(s, "wrong-stop-reason", wit, format!("well-formed packets ended the connection with {st} instead of a protocol error")));
        }
    } else if s.conn.done() && !s.cfg.skip_connect {
        // connection future finished without any Stop notification
        return Err(viol(s, "ended-without-stop", wit, "connection task completed but the control service never saw a Stop".into()));
    }
    let _ = step();
    Ok(())
}

pub fn alphabet(ver: Ver, role: Role) -> Vec<T> {
    let q = |qos: u8, id: u16| T::Pub { qos, id, len: 1, topic: 0, alias: 0 };
    let mut a = vec![
        q(0, 0),
        q(1, 0),
        q(1, 1),
        q(2, 0),
        T::PubSplit { qos: 1, id: 0, len: 6 },
        T::PubSplit3 { qos: 1, id: 0, len: 8 },
        T::PubPartial { qos: 1, id: 0, len: 6 },
        T::PubRel(1),
        T::PubRel(9),
        T::PubAck(1),
        T::PubAck(9),
        T::PubRec(1),
        T::PubRec(2),
        T::PubComp(1),
        T::PubComp(2),
        T::Sub(0),
        T::SubBad(0),
        T::Unsub(0),
        T::SubAck(1),
        T::UnsubAck(1),
        T::Ping,
        T::PingResp,
        T::Connect,
        T::ConnAck,
        T::Disconnect,
        T::PubRetain { qos: 1 },
        T::PubWild,
    ];
    if ver == Ver::V5 {
        a.push(T::Auth);
        a.push(T::DisconnectExpiry);
        a.push(T::SubId(0));
        a.push(T::Pub { qos: 0, id: 0, len: 1, topic: 3, alias: 1 });
        // empty topic with an alias above the Topic Alias Maximum (32): never bound, out of any table's range
        a.push(T::Pub { qos: 0, id: 0, len: 1, topic: 3, alias: 40 });
    }
    let _ = role;
    a
}

pub fn configs(tier: Tier) -> Vec<InCfg> {
    let mut v = Vec::new();
    for (ver, role) in crate::c05::roles() {
        // application states: idle / outstanding sends / two gated handlers / instead of the handshake / streaming an outbound publish
        // (clients also: a lone SUBSCRIBE / a lone UNSUBSCRIBE outstanding, so that every ack type of the
        // alphabet meets a request that is at the head of the in-flight queue)
        for state in 0..10 {
            let mut ep = EpCfg::new(ver, role);
            ep.handler_auto = state != 2;
            // state 8: the protocol service is gated - every PUBREL / SUBSCRIBE / PING ... suspends until the explorer
            // completes it, so later packets arrive while an earlier one is inside the application (seeded change C16_r5)
            ep.proto_auto = state != 8;
            let app_sends = if state == 1 {
                let mut a = vec![SK::Q1, SK::Q2Hold];
                if role == Role::Client {
                    a.push(SK::Sub);
                }
                a
            } else if state == 9 {
                // sends the application has given up waiting for (future dropped after the packet was written):
                // their acknowledgements still arrive (seeded change C16_r6: PUBREC for such a send panicked)
                vec![SK::Q1Abandon, SK::Q2Abandon]
            } else if state == 5 {
                vec![SK::Sub]
            } else if state == 6 {
                vec![SK::Unsub]
            } else if state == 4 {
                // an outbound publish is being streamed: header written, payload owed
                vec![SK::Stream { qos: 1, size: 6, plan: 1 }]
            } else {
                vec![]
            };
            let prologue = if state == 2 {
                vec![T::Pub { qos: 1, id: 7, len: 1, topic: 0, alias: 0 }, T::Pub { qos: 2, id: 8, len: 1, topic: 0, alias: 0 }]
            } else if state == 8 {
                // a QoS 2 publish already received and acknowledged with PUBREC: its PUBREL is a packet of the alphabet
                vec![T::Pub { qos: 2, id: 1, len: 1, topic: 0, alias: 0 }]
            } else {
                vec![]
            };
            if (state == 3 && role == Role::Client) || ((state == 5 || state == 6) && role == Role::Server) || (state == 7 && role == Role::Client) {
                continue;
            }
            if state == 2 || state == 7 {
                // payload pieces of a publish delivered in several writes reach the dispatcher as separate chunk items
                ep.min_chunk_size = 4;
            }
            if state == 7 {
                // servers: the receive window is full as soon as one publish is being handled (count 1, 10 bytes):
                // the remaining pieces of a publish delivered in two writes must get past the limiter
                ep.max_receive = 1;
                ep.max_receive_size = 10;
                if ver == Ver::V5 {
                    ep.hs_receive_max = Some(1);
                }
            }
            // clients: idle and gated-handler states also with the topic router in front of the handler
            if role == Role::Client && (state == 0 || state == 2) {
                let mut rep = ep.clone();
                rep.router = true;
                v.push(InCfg {
                    ep: rep,
                    connect_props: vec![],
                    alphabet: alphabet(ver, role),
                    prologue: prologue.clone(),
                    max_len: if tier == Tier::Quick { 3 } else { 4 },
                    outcomes: vec![GateOutcome::Ok],
                    poutcomes: vec![GateOutcome::Ok],
                    cork: false,
                    judge: J_C16,
                    app_sends: vec![],
                    skip_connect: false,
                    known: vec![],
                    bp: 0,
                });
            }
            let mut alpha = alphabet(ver, role);
            if state == 7 {
                // ... also when the first write already carries a payload piece of at least min_chunk_size bytes, so that
                // the publish is announced with part of its payload (seeded change C16_r12 took only a publish announced
                // with an empty buffer for a streamed one, and the chunks of any other were held back by the limits)
                alpha.push(T::PubSplit { qos: 1, id: 0, len: 12 });
            }
            v.push(InCfg {
                ep,
                connect_props: vec![],
                alphabet: alpha,
                prologue,
                max_len: if tier == Tier::Quick { 3 } else { 4 },
                outcomes: vec![GateOutcome::Ok],
                poutcomes: vec![GateOutcome::Ok],
                cork: false,
                judge: J_C16,
                app_sends,
                skip_connect: state == 3,
                known: vec![],
                bp: 0,
            });
        }
    }
    v
}

pub fn run(tier: Tier) -> i32 {
    let mut ck = Check::new("C16", tier, Duration::from_secs(if tier == Tier::Quick { 50 } else { 2400 }));
    let ecfg = ExploreCfg { max_dev: if tier == Tier::Quick { 0 } else { 1 }, max_execs: if tier == Tier::Quick { 600_000 } else { 30_000_000 }, ..Default::default() };
    for (i, c) in configs(tier).iter().enumerate() {
        ck.explore::<In>("inbound", i, c, &ecfg);
    }
    ck.rule = format!(
        "per role and version: every sequence of up to {} well-formed packets over an alphabet of 27-31 templates (every packet type incl. those illegal in that direction, ids in use / free / unknown, PUBLISH complete / split in two or three writes / left incomplete / duplicate id / retain / wildcard topic / alias, second CONNECT, every ack type) against 7 (clients 8) application states (idle; a QoS 1 and a QoS 2 send whose futures were dropped after the packet was written; idle with a gated protocol service and a QoS 2 publish awaiting its PUBREL; outstanding QoS1+QoS2(+SUBSCRIBE) sends; two gated publish handlers; instead of the handshake (servers); an outbound publish being streamed; clients: a lone SUBSCRIBE, a lone UNSUBSCRIBE outstanding; clients idle / with gated handlers also behind the topic router; servers with max_receive 1 and a 10-byte max_receive_size), handler completions interleaved; oracle: no panic, poll horizon never hit, at most one Stop, Stop reason is a protocol error unless a DISCONNECT (or client-side unknown PUBREL) is in the sequence, and a connection without Stop still answers a probe packet after the drain",
        if tier == Tier::Quick { 3 } else { 4 }
    );
    ck.assumptions = vec!["FIFO task order of ntex-rt; nondeterminism = timing of environment events (DESIGN 2.4)".into()];
    ck.finish()
}
