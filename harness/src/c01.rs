//! C01: encode/decode round trip in the MQTT byte layout, against the reference codec.
use std::collections::HashSet;
use std::sync::Mutex;
use std::sync::atomic::{AtomicU64, Ordering};
use std::time::Duration;

use ntex_bytes::{Bytes, BytesMut};
use ntex_codec::Decoder;
use ntex_mqtt::{v3, v5};
use serde_json::json;

use crate::check::{Check, Finding, Tier};
use crate::genpkt;
use crate::libconv::*;
use crate::refmqtt::{self as rf, Pkt, Props, Ver};

fn fnd(clause: &str, witness: String, detail: String, input: serde_json::Value) -> Finding {
    Finding { clause: clause.into(), witness, detail, replay: json!({"engine": "enum", "check": "c01", "input": input}) }
}

fn kind(p: &Pkt) -> &'static str {
    ["", "CONNECT", "CONNACK", "PUBLISH", "PUBACK", "PUBREC", "PUBREL", "PUBCOMP", "SUBSCRIBE", "SUBACK", "UNSUBSCRIBE", "UNSUBACK", "PINGREQ", "PINGRESP", "DISCONNECT", "AUTH"]
        [p.type_nibble() as usize]
}

/// permutations of the property list used for "any legal order"
fn orders(props: &Props) -> Vec<Props> {
    // keep repeatable properties (user props, sub ids) in their relative order: order among
    // them is significant; permute by moving blocks
    let n = props.len();
    let mut out = vec![props.clone()];
    if n <= 1 {
        return out;
    }
    let same_rel = |cand: &Props| {
        let a: Vec<_> = props.iter().filter(|(i, _)| *i == 0x26 || *i == 0x0B).collect();
        let b: Vec<_> = cand.iter().filter(|(i, _)| *i == 0x26 || *i == 0x0B).collect();
        // user properties keep their order, subscription ids keep theirs
        let ua: Vec<_> = a.iter().filter(|(i, _)| *i == 0x26).collect();
        let ub: Vec<_> = b.iter().filter(|(i, _)| *i == 0x26).collect();
        let sa: Vec<_> = a.iter().filter(|(i, _)| *i == 0x0B).collect();
        let sb: Vec<_> = b.iter().filter(|(i, _)| *i == 0x0B).collect();
        ua == ub && sa == sb
    };
    if n <= 4 {
        // all permutations (Heap's algorithm)
        let mut idx: Vec<usize> = (0..n).collect();
        let mut c = vec![0usize; n];
        let mut i = 0;
        while i < n {
            if c[i] < i {
                if i % 2 == 0 { idx.swap(0, i) } else { idx.swap(c[i], i) }
                let cand: Props = idx.iter().map(|j| props[*j].clone()).collect();
                if same_rel(&cand) {
                    out.push(cand);
                }
                c[i] += 1;
                i = 0;
            } else {
                c[i] = 0;
                i += 1;
            }
        }
    } else {
        for r in 1..n {
            let mut cand = props.clone();
            cand.rotate_left(r);
            if same_rel(&cand) {
                out.push(cand);
            }
        }
        let mut cand = props.clone();
        cand.reverse();
        if same_rel(&cand) {
            out.push(cand);
        }
    }
    out
}

fn with_props(p: &Pkt, np: Props) -> Pkt {
    let mut q = p.clone();
    match &mut q {
        Pkt::Connect { props, .. }
        | Pkt::ConnAck { props, .. }
        | Pkt::Publish { props, .. }
        | Pkt::Subscribe { props, .. }
        | Pkt::SubAck { props, .. }
        | Pkt::Unsubscribe { props, .. }
        | Pkt::UnsubAck { props, .. } => *props = np,
        Pkt::Ack { props, .. } | Pkt::Disconnect { props, .. } | Pkt::Auth { props, .. } => *props = Some(np),
        _ => {}
    }
    q
}

fn props_of(p: &Pkt) -> Props {
    match p {
        Pkt::Connect { props, .. }
        | Pkt::ConnAck { props, .. }
        | Pkt::Publish { props, .. }
        | Pkt::Subscribe { props, .. }
        | Pkt::SubAck { props, .. }
        | Pkt::Unsubscribe { props, .. }
        | Pkt::UnsubAck { props, .. } => props.clone(),
        Pkt::Ack { props, .. } | Pkt::Disconnect { props, .. } | Pkt::Auth { props, .. } => props.clone().unwrap_or_default(),
        _ => Vec::new(),
    }
}

pub struct Counters {
    pub values: AtomicU64,
    pub evals: AtomicU64,
    pub orders: AtomicU64,
}

pub fn check_v5(enc: &v5::codec::Encoded, payload: &Option<Bytes>, out: &mut Vec<Finding>, ctr: &Counters) -> Option<Vec<u8>> {
    use v5::codec::{Decoded, Encoded};
    let want_ref = match enc {
        Encoded::Packet(p) => v5_to_ref(p),
        Encoded::Publish(p, _) => v5_publish_to_ref(p, payload.as_deref().unwrap_or(&[])),
        Encoded::PayloadChunk(_) => return None,
    };
    let k = kind(&want_ref);
    let input = json!({"ver": 5, "value": format!("{enc:?}").chars().take(2000).collect::<String>()});
    ctr.values.fetch_add(1, Ordering::Relaxed);
    // 1. library encode
    let bytes = match enc_v5(&v5::codec::Codec::new(), enc.clone()) {
        EncOut::Ok(b) => b,
        other => {
            out.push(fnd("encode-fails", format!("v5 {k}"), format!("encode of representable value failed: {other:?}"), input));
            return None;
        }
    };
    ctr.evals.fetch_add(1, Ordering::Relaxed);
    // 2. reference decoder recovers the same fields
    match rf::decode(Ver::V5, &bytes) {
        Ok((got, n)) => {
            if n != bytes.len() || rf::canon(&got) != rf::canon(&want_ref) {
                out.push(fnd(
                    "layout",
                    format!("v5 {k}"),
                    format!("spec decoder reads {:?} (consumed {n}/{}) from library bytes {} ; value was {:?}", rf::canon(&got), bytes.len(), rf::hex(&bytes), rf::canon(&want_ref)),
                    input.clone(),
                ));
            }
        }
        Err(e) => out.push(fnd("layout", format!("v5 {k}"), format!("spec decoder rejects library bytes {}: {e:?}", rf::hex(&bytes)), input.clone())),
    }
    // 3. library decode returns the original, consuming exactly the bytes
    let same = |d: &Decoded| match (enc, d) {
        (Encoded::Packet(a), Decoded::Packet(b, _)) => a == b,
        (Encoded::Publish(a, _), Decoded::Publish(b, pl, _)) => a == b && Some(pl) == payload.as_ref(),
        _ => false,
    };
    let rl = bytes.len() - 1 - rf::varint_len((bytes.len() as u32).saturating_sub(2).min(268_435_455)).min(4);
    let _ = rl;
    let c = v5::codec::Codec::new();
    let mut src = BytesMut::copy_from_slice(&bytes);
    let announced__ = src.to_vec();
    crate::check::b_enter("Codec::decode", &announced__);
    let decoded__ = std::panic::catch_unwind(std::panic::AssertUnwindSafe(|| c.decode(&mut src)));
    crate::check::b_leave();
    match decoded__ {
        Ok(Ok(Some(d))) => {
            let size = match &d {
                Decoded::Packet(_, s) | Decoded::Publish(_, _, s) => *s as usize,
                _ => 0,
            };
            let (_, hl, frl) = rf::frame(&bytes).unwrap();
            if !same(&d) || !src.is_empty() || size != frl || hl + frl != bytes.len() {
                out.push(fnd(
                    "roundtrip",
                    format!("v5 {k}"),
                    format!("decode(encode(v)) = {d:?} left {} bytes, reported size {size}, frame RL {frl}; v = {enc:?}", src.len()),
                    input.clone(),
                ));
            }
        }
        other => out.push(fnd("roundtrip", format!("v5 {k}"), format!("decode(encode(v)) = {other:?}; bytes {}", rf::hex(&bytes)), input.clone())),
    }
    // 4. bytes from the spec encoder, every property order
    let base_forms = [want_ref.clone(), rf::canon(&want_ref)];
    for (fi, form) in base_forms.iter().enumerate() {
        // canonical form of acks always has code+props; also try the shortest legal forms
        let mut variants: Vec<Pkt> = orders(&props_of(form)).into_iter().map(|o| with_props(form, o)).collect();
        if fi == 1 {
            if let Pkt::Ack { typ, pid, code: Some(0), props: Some(p) } = form {
                if p.is_empty() {
                    variants.push(Pkt::Ack { typ: *typ, pid: *pid, code: None, props: None });
                    variants.push(Pkt::Ack { typ: *typ, pid: *pid, code: Some(0), props: None });
                }
            }
            if let Pkt::Ack { typ, pid, code: Some(c), props: Some(p) } = form {
                if p.is_empty() {
                    variants.push(Pkt::Ack { typ: *typ, pid: *pid, code: Some(*c), props: None });
                }
            }
            if let Pkt::Disconnect { code: Some(c), props: Some(p) } = form {
                if p.is_empty() {
                    variants.push(Pkt::Disconnect { code: Some(*c), props: None });
                    if *c == 0 {
                        variants.push(Pkt::Disconnect { code: None, props: None });
                    }
                }
            }
            if let Pkt::Auth { code: Some(0), props: Some(p) } = form {
                if p.is_empty() {
                    variants.push(Pkt::Auth { code: None, props: None });
                }
            }
        }
        for v in variants {
            ctr.orders.fetch_add(1, Ordering::Relaxed);
            let rb = rf::encode(Ver::V5, &v);
            let c = v5::codec::Codec::new();
            let mut src = BytesMut::copy_from_slice(&rb);
            let announced__ = src.to_vec();
            crate::check::b_enter("Codec::decode", &announced__);
    let decoded__ = std::panic::catch_unwind(std::panic::AssertUnwindSafe(|| c.decode(&mut src)));
    crate::check::b_leave();
    match decoded__ {
                Ok(Ok(Some(d))) if same(&d) && src.is_empty() => {}
                other => {
                    out.push(fnd(
                        "spec-bytes",
                        format!("v5 {k}"),
                        format!("library decodes spec-encoded bytes {} as {other:?}; expected {enc:?}", rf::hex(&rb)),
                        input.clone(),
                    ));
                    break;
                }
            }
        }
    }
    Some(bytes)
}

pub fn check_v3(enc: &v3::codec::Encoded, payload: &Option<Bytes>, out: &mut Vec<Finding>, ctr: &Counters) -> Option<Vec<u8>> {
    use v3::codec::{Decoded, Encoded};
    let want_ref = match enc {
        Encoded::Packet(p) => v3_to_ref(p),
        Encoded::Publish(p, _) => v3_publish_to_ref(p, payload.as_deref().unwrap_or(&[])),
        Encoded::PayloadChunk(_) => return None,
    };
    let k = kind(&want_ref);
    let input = json!({"ver": 3, "value": format!("{enc:?}").chars().take(2000).collect::<String>()});
    ctr.values.fetch_add(1, Ordering::Relaxed);
    let bytes = match enc_v3(&v3::codec::Codec::new(), enc.clone()) {
        EncOut::Ok(b) => b,
        other => {
            out.push(fnd("encode-fails", format!("v3 {k}"), format!("encode of representable value failed: {other:?}"), input));
            return None;
        }
    };
    ctr.evals.fetch_add(1, Ordering::Relaxed);
    match rf::decode(Ver::V3, &bytes) {
        Ok((got, n)) => {
            if n != bytes.len() || canon_v3(&got) != canon_v3(&want_ref) {
                out.push(fnd(
                    "layout",
                    format!("v3 {k}"),
                    format!("spec decoder reads {:?} (consumed {n}/{}) from library bytes {}", got, bytes.len(), rf::hex(&bytes)),
                    input.clone(),
                ));
            }
        }
        Err(e) => out.push(fnd("layout", format!("v3 {k}"), format!("spec decoder rejects library bytes {}: {e:?}", rf::hex(&bytes)), input.clone())),
    }
    let same = |d: &Decoded| match (enc, d) {
        (Encoded::Packet(a), Decoded::Packet(b, _)) => a == b,
        (Encoded::Publish(a, _), Decoded::Publish(b, pl, _)) => a == b && Some(pl) == payload.as_ref(),
        _ => false,
    };
    for (which, b) in [("roundtrip", bytes.clone()), ("spec-bytes", rf::encode(Ver::V3, &want_ref))] {
        let c = v3::codec::Codec::new();
        let mut src = BytesMut::copy_from_slice(&b);
        let announced__ = src.to_vec();
        crate::check::b_enter("Codec::decode", &announced__);
    let decoded__ = std::panic::catch_unwind(std::panic::AssertUnwindSafe(|| c.decode(&mut src)));
    crate::check::b_leave();
    match decoded__ {
            Ok(Ok(Some(d))) => {
                let size = match &d {
                    Decoded::Packet(_, s) | Decoded::Publish(_, _, s) => *s as usize,
                    _ => 0,
                };
                let (_, _, frl) = rf::frame(&b).unwrap();
                if !same(&d) || !src.is_empty() || size != frl {
                    out.push(fnd(which, format!("v3 {k}"), format!("decode = {d:?} left {} size {size} RL {frl}; v = {enc:?}", src.len()), input.clone()));
                }
            }
            other => out.push(fnd(which, format!("v3 {k}"), format!("decode = {other:?}; bytes {}", rf::hex(&b)), input.clone())),
        }
    }
    Some(bytes)
}

/// variable byte integer `n` as Subscription Identifier (encode -> decode) and as Remaining Length
pub fn check_varint(n: u32, out: &mut Vec<Finding>) {
    use v5::codec as c;
    if n >= 1 {
        let sub = c::Packet::Subscribe(c::Subscribe {
            packet_id: genpkt::nz16(1),
            id: Some(genpkt::nz32(n)),
            user_properties: Vec::new(),
            topic_filters: vec![(genpkt::bs("a"), c::SubscriptionOptions::default())],
        });
        match enc_v5(&c::Codec::new(), c::Encoded::Packet(sub.clone())) {
            EncOut::Ok(b) => {
                let mut want = vec![0x82u8];
                let mut body = vec![0, 1];
                let mut pr = vec![0x0B];
                rf::put_varint(&mut pr, n);
                rf::put_varint(&mut body, pr.len() as u32);
                body.extend_from_slice(&pr);
                body.extend_from_slice(&[0, 1, b'a', 0]);
                rf::put_varint(&mut want, body.len() as u32);
                want.extend_from_slice(&body);
                let cd = c::Codec::new();
                let mut src = BytesMut::copy_from_slice(&b);
                let announced__ = src.to_vec();
                crate::check::b_enter("Codec::decode", &announced__);
                let back = cd.decode(&mut src);
                crate::check::b_leave();
                let ok = matches!(&back, Ok(Some(c::Decoded::Packet(p, _))) if *p == sub);
                if b != want || !ok {
                    out.push(fnd(
                        "varint",
                        "subscription identifier".into(),
                        format!("subscription id {n}: library bytes {} expected {} decode back {back:?}", rf::hex(&b), rf::hex(&want)),
                        json!({"varint": n}),
                    ));
                }
            }
            other => out.push(fnd("varint", "subscription identifier".into(), format!("id {n}: {other:?}"), json!({"varint": n}))),
        }
    }
    if n >= 3 {
        for ver in [3, 5] {
            let mut b = vec![0x30u8];
            rf::put_varint(&mut b, n);
            if ver == 5 {
                if n < 4 {
                    continue;
                }
                b.extend_from_slice(&[0, 1, b'a', 0]);
            } else {
                b.extend_from_slice(&[0, 1, b'a']);
            }
            let hdr = if ver == 5 { 4 } else { 3 };
            let mut src = BytesMut::copy_from_slice(&b);
            let (ps, sz) = if ver == 5 {
                let cd = c::Codec::new();
                cd.set_min_chunk_size(1 << 30);
                let announced__ = src.to_vec();
                crate::check::b_enter("Codec::decode", &announced__);
    let decoded__ = std::panic::catch_unwind(std::panic::AssertUnwindSafe(|| cd.decode(&mut src)));
    crate::check::b_leave();
    match decoded__ {
                    Ok(Ok(Some(c::Decoded::Publish(p, _, sz)))) => (p.payload_size as i64, sz as i64),
                    _ => (-1, -1),
                }
            } else {
                let cd = v3::codec::Codec::new();
                cd.set_min_chunk_size(1 << 30);
                let announced__ = src.to_vec();
                crate::check::b_enter("Codec::decode", &announced__);
    let decoded__ = std::panic::catch_unwind(std::panic::AssertUnwindSafe(|| cd.decode(&mut src)));
    crate::check::b_leave();
    match decoded__ {
                    Ok(Ok(Some(v3::codec::Decoded::Publish(p, _, sz)))) => (p.payload_size as i64, sz as i64),
                    _ => (-1, -1),
                }
            };
            if ps != (n as i64 - hdr) || sz != n as i64 {
                out.push(fnd(
                    "varint",
                    "remaining length".into(),
                    format!("v{ver} PUBLISH with Remaining Length {n}: announced payload {ps}, size {sz}"),
                    json!({"varint": n}),
                ));
            }
        }
    }
}

pub fn run(tier: Tier) -> i32 {
    let mut ck = Check::new("C01", tier, Duration::from_secs(if tier == Tier::Quick { 55 } else { 900 }));
    let full = tier == Tier::Thorough;
    let nthreads = std::thread::available_parallelism().map(|n| n.get()).unwrap_or(8);
    let ctr = Counters { values: AtomicU64::new(0), evals: AtomicU64::new(0), orders: AtomicU64::new(0) };
    let findings: Mutex<Vec<Finding>> = Mutex::new(Vec::new());
    let distinct: Mutex<HashSet<u64>> = Mutex::new(HashSet::new());
    let samples: Mutex<Vec<serde_json::Value>> = Mutex::new(Vec::new());
    std::thread::scope(|s| {
        for t in 0..nthreads {
            let (ctr, findings, distinct, samples) = (&ctr, &findings, &distinct, &samples);
            s.spawn(move || {
                let mut out = Vec::new();
                let mut seen: Vec<u64> = Vec::new();
                let mut idx = 0usize;
                genpkt::gen_v5(full, &mut |enc, pl| {
                    idx += 1;
                    if idx % nthreads != t {
                        return;
                    }
                    if out.len() < 64 {
                        if let Some(b) = check_v5(&enc, &pl, &mut out, ctr) {
                            seen.push(hash(&b));
                            if idx % 20011 == 1 {
                                samples.lock().unwrap().push(json!({"ver":5,"bytes": rf::hex(&b)}));
                            }
                        }
                    }
                });
                genpkt::gen_v3(&mut |enc, pl| {
                    idx += 1;
                    if idx % nthreads != t {
                        return;
                    }
                    if out.len() < 64 {
                        if let Some(b) = check_v3(&enc, &pl, &mut out, ctr) {
                            seen.push(hash(&b) ^ 0x33);
                            if idx % 211 == 1 {
                                samples.lock().unwrap().push(json!({"ver":3,"bytes": rf::hex(&b)}));
                            }
                        }
                    }
                });
                findings.lock().unwrap().extend(out);
                distinct.lock().unwrap().extend(seen);
            });
        }
    });
    // variable byte integers
    let ranges: Vec<(u32, u32)> = if full {
        vec![(0, 1 << 28)]
    } else {
        vec![(0, 4096), (16384 - 4096, 16384 + 4096), (2_097_152 - 4096, 2_097_152 + 4096), ((1 << 28) - 4096, 1 << 28), (128 - 64, 128 + 64)]
    };
    let varints = AtomicU64::new(0);
    for (lo, hi) in ranges {
        let next = AtomicU64::new(lo as u64);
        std::thread::scope(|s| {
            for _ in 0..nthreads {
                s.spawn(|| {
                    let mut out = Vec::new();
                    loop {
                        let a = next.fetch_add(1 << 16, Ordering::Relaxed);
                        if a >= hi as u64 {
                            break;
                        }
                        let b = (a + (1 << 16)).min(hi as u64);
                        for n in a..b {
                            if out.len() < 16 {
                                check_varint(n as u32, &mut out);
                            }
                        }
                        varints.fetch_add(b - a, Ordering::Relaxed);
                    }
                    findings.lock().unwrap().extend(out);
                });
            }
        });
    }
    let nv = ctr.values.load(Ordering::Relaxed);
    let vi = varints.load(Ordering::Relaxed);
    ck.evaluations = nv + ctr.orders.load(Ordering::Relaxed) + vi;
    ck.states = nv + vi;
    ck.transitions = ck.evaluations;
    ck.distinct_nontrivial = distinct.lock().unwrap().len() as u64;
    ck.rule = format!(
        "deterministic product generator (genpkt.rs): per packet kind the product of presence bits of optional fields/properties, all reason-code discriminants, boundary string/binary lengths {{0,1,127,128,16383,16384,65535}}, payload sizes at Remaining-Length varint boundaries; per value: library encode, reference decode, library decode, reference encode in every property order (all permutations when <= 4 properties, rotations+reversal otherwise) and shortest legal ack/disconnect forms; variable byte integers {} as Subscription Identifier and as Remaining Length. distinct_nontrivial = distinct encoded frames",
        if full { "all 2^28 values".to_string() } else { "within 4096 of each length-class boundary".to_string() }
    );
    ck.samples = samples.into_inner().unwrap().into_iter().take(6).collect();
    ck.extra.insert("packet_values".into(), json!(nv));
    ck.extra.insert("spec_encoded_orderings".into(), json!(ctr.orders.load(Ordering::Relaxed)));
    ck.extra.insert("varints".into(), json!(vi));
    ck.assumptions = vec![
        "reference codec refmqtt.rs transcribes the OASIS MQTT 3.1.1 / 5.0 packet layouts correctly".into(),
        "values outside the generator's alphabets (string contents, payload contents) do not influence layout".into(),
    ];
    for f in findings.into_inner().unwrap() {
        ck.add_finding(f);
    }
    ck.finish()
}

fn hash(b: &[u8]) -> u64 {
    use std::hash::{Hash, Hasher};
    let mut h = std::collections::hash_map::DefaultHasher::new();
    b.hash(&mut h);
    h.finish()
}
