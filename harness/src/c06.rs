//! C06 (ack routing) and C14 (concurrent QoS 2) over the outbound scenario.
use std::time::Duration;

use crate::check::{Check, Tier};
use crate::outbound::*;
use crate::refmqtt::Ver;
use crate::simnet::ExploreCfg;
use crate::world::{EpCfg, Role};

pub fn c06_configs(tier: Tier) -> Vec<OutCfg> {
    let mut v = Vec::new();
    for (ver, role) in crate::c05::roles() {
        let mut sets: Vec<Vec<SK>> = vec![
            vec![SK::Q1],
            vec![SK::Q1, SK::Q1],
            vec![SK::Q1, SK::Q2Hold],
            vec![SK::Q2Hold, SK::Q1],
            vec![SK::Q1Id(5), SK::Q1Id(5)],
            vec![SK::Q2Hold, SK::Q2Hold],
            // a publish through the non-blocking API: its completion is the publish_ack_cb callback
            vec![SK::Q1NoBlock, SK::Q1],
        ];
        if role == Role::Client {
            sets.push(vec![SK::Sub, SK::Q1]);
            sets.push(vec![SK::Unsub, SK::Sub]);
            sets.push(vec![SK::Q2Hold, SK::Unsub]);
        }
        if tier == Tier::Thorough {
            sets.push(vec![SK::Q1, SK::Q2Hold, SK::Q1]);
            sets.push(vec![SK::Q1Id(5), SK::Q1, SK::Q1Id(5)]);
            if role == Role::Client {
                sets.push(vec![SK::Sub, SK::Q2Hold, SK::Unsub]);
            }
        }
        for senders in sets {
            // hostile peer: every ack type x ids {1,2,5,9(unused)}, up to 3/4 peer packets
            v.push(OutCfg {
                ep: ep_for(EpCfg::new(ver, role), 8, false),
                cap: 8,
                senders: senders.clone(),
                cancels: 0,
                batch: false,
                bp: 0,
                peer: PeerMode::Hostile { ids: vec![1, 2, 5, 9], len: if tier == Tier::Quick { 2 } else { 3 } },
                judge: J_ROUTING,
                prologue: 0,
                peer_max_packet: 0,
                inbound: 0,
                may_close: false,
                inbound_faults: false,
                cancel_inflight: false,
            });
        }
        // converse: correct in-order peer, some sends fail locally
        let mut conv: Vec<Vec<SK>> = vec![
            vec![SK::Q1Id(5), SK::Q1Id(5), SK::Q1],
            vec![SK::Q1Big, SK::Q1],
            vec![SK::Q1NoBlock, SK::Q1Big, SK::Q1],
            vec![SK::Q1, SK::Q1Big, SK::Q2Rel],
            vec![SK::Q1BigId(5), SK::Q1Id(5)],
            // a streamed publish whose header cannot be written must not leave the sink in "payload owed" state
            vec![SK::Stream { qos: 1, size: 6, plan: 9 }, SK::Q1],
            vec![SK::Stream { qos: 0, size: 6, plan: 9 }, SK::Q1, SK::Q0],
            vec![SK::Q1Id(5), SK::Stream { qos: 1, size: 6, plan: 8 }, SK::Q1],
            // ... and the other way round: the id of a streamed publish is in use from its header on
            // (mutation-sweep survivor: the streaming path did not record the id)
            vec![SK::Stream { qos: 1, size: 6, plan: 8 }, SK::Q1Id(5), SK::Q1],
            vec![SK::Q1BigId(5), SK::Q1Id(5), SK::Q1Id(5)],
            // the id of a publish sent through the non-blocking API is in use until its acknowledgement
            // (mutation-sweep survivor: that path did not record the id)
            vec![SK::Q1NoBlockId(5), SK::Q1Id(5), SK::Q1],
            vec![SK::Q2Hold, SK::Q1, SK::Q1],
            vec![SK::Q2Rel, SK::Q1Loop(2)],
            // the id of a QoS 2 send stays in use until PUBCOMP: a send with the same caller-chosen id started
            // while the receipt is held (after PUBREC) must be refused, never written (seeded change C06_r4)
            vec![SK::Q2HoldId(5), SK::Q1Id(5), SK::Q1],
        ];
        if role == Role::Client {
            conv.push(vec![SK::SubBig, SK::Q1]);
            conv.push(vec![SK::SubBig, SK::Sub, SK::Q2Rel]);
            // caller-chosen ids colliding across request kinds: the refused one fails locally, the others complete
            conv.push(vec![SK::Q1Id(5), SK::UnsubId(5), SK::SubId(5)]);
            conv.push(vec![SK::SubId(5), SK::Q1Id(5), SK::Q1]);
            conv.push(vec![SK::Q2HoldId(5), SK::SubId(5)]);
        }
        for senders in conv {
            let mut ep = ep_for(EpCfg::new(ver, role), 8, false);
            let big = senders.iter().any(|k| matches!(k, SK::Q1Big | SK::Q1BigId(_)));
            if big {
                match (ver, role) {
                    (Ver::V5, Role::Client) => ep.client_connack_props.push((0x27, crate::refmqtt::PVal::U32(100))),
                    (Ver::V3, Role::Server) => ep.hs_max_packet_size = Some(100),
                    (Ver::V3, Role::Client) => ep.max_size = 100,
                    _ => {}
                }
            }
            v.push(OutCfg {
                ep,
                cap: 8,
                senders: senders.clone(),
                cancels: 0,
                batch: true,
                bp: 0,
                peer: PeerMode::Correct,
                // streamed publishes are not attributed by the routing oracle
                judge: if senders.iter().any(|k| matches!(k, SK::Stream { .. })) { J_LIVENESS | crate::outbound::J_IDS } else { J_ROUTING | J_LIVENESS },
                prologue: 0,
                peer_max_packet: if big { 100 } else { 0 },
                inbound: 0,
                may_close: false,
                inbound_faults: false,
                cancel_inflight: false,
            });
        }
    }
    v
}

pub fn c14_configs(tier: Tier) -> Vec<OutCfg> {
    let mut v = Vec::new();
    for (ver, role) in crate::c05::roles() {
        let mut sets: Vec<Vec<SK>> = vec![
            vec![SK::Q2Hold, SK::Q2Hold],
            vec![SK::Q2Hold, SK::Q1, SK::Q2Hold],
            vec![SK::Q2Hold, SK::Q2Rel],
            vec![SK::Q2Drop, SK::Q2Hold],
            // a send refused because its caller-chosen id belongs to an exchange whose receipt is held must not touch
            // that exchange: it still releases and completes with its own PUBCOMP (seeded change C14_r6)
            vec![SK::Q2HoldId(5), SK::Q1Id(5), SK::Q2Hold],
            // ... and a second exactly-once send with that id: refused; were it accepted it would take over the first
            // exchange's PUBCOMP channel (seeded change C14_r7 freed the id at PUBREC)
            vec![SK::Q2HoldId(5), SK::Q2HoldId(5), SK::Q1],
        ];
        if tier == Tier::Thorough {
            sets.push(vec![SK::Q2Hold, SK::Q2Hold, SK::Q2Hold]);
            sets.push(vec![SK::Q2Hold, SK::Q2Hold, SK::Q1, SK::Q2Hold]);
            sets.push(vec![SK::Q2Hold, SK::Q2Drop, SK::Q2Rel]);
        }
        for senders in sets {
            for cap in [8u16, 2] {
                if cap == 2 && tier == Tier::Quick && senders.len() > 2 {
                    continue;
                }
                v.push(OutCfg {
                    ep: ep_for(EpCfg::new(ver, role), cap, false),
                    cap,
                    senders: senders.clone(),
                    cancels: 0,
                    batch: true,
                    bp: 0,
                    peer: PeerMode::Correct,
                    judge: J_QOS2 | J_WINDOW,
                    prologue: 0,
                    peer_max_packet: 0,
                    inbound: 0,
                    may_close: false,
                    inbound_faults: false,
                    cancel_inflight: false,
                });
            }
        }
    }
    v
}

pub fn run_c06(tier: Tier) -> i32 {
    let mut ck = Check::new("C06", tier, Duration::from_secs(if tier == Tier::Quick { 50 } else { 1800 }));
    let ecfg = ExploreCfg { max_dev: if tier == Tier::Quick { 0 } else { 1 }, max_execs: if tier == Tier::Quick { 400_000 } else { 8_000_000 }, ..Default::default() };
    for (i, c) in c06_configs(tier).iter().enumerate() {
        ck.explore::<Out>("outbound", i, c, &ecfg);
    }
    // packet id wrap-around (one long deterministic history per role)
    crate::c06wrap::wraparound(&mut ck, tier);
    ck.rule = "per role: 1-3 application sends over {QoS 1 auto id, QoS 1 caller-chosen id, QoS 1 through the non-blocking API (completion = the publish_ack_cb callback), QoS 2 with held receipt, (client) subscribe, unsubscribe} started in every order, interleaved with every peer sequence of up to 2 (quick) / 3 (thorough) acknowledgements over {PUBACK, PUBREC, PUBCOMP, (client) SUBACK, UNSUBACK} x id in {1, 2, 5, 9}; reference = two FIFO queues (sends awaiting their first ack in wire order; released QoS 2 awaiting PUBCOMP): an ack equal to the head completes exactly that send, anything else ends the connection with one protocol-error Stop and completes nothing; converse family with a correct in-order peer and sends that fail locally (id in use - also across publish / subscribe / unsubscribe with caller-chosen ids, against a QoS 2 send whose receipt is held: its id stays in use until PUBCOMP, and against a publish sent through the non-blocking API or streamed with that id -, over maximum packet size, over-long filter); id wrap-around history".into();
    ck.assumptions = vec![
        "FIFO task order of ntex-rt; nondeterminism = timing of environment events (DESIGN 2.4)".into(),
        "hostile acknowledgements are written at quiescent points (the endpoint's queue then equals what is on the wire)".into(),
        "PUBCOMP written before the endpoint sent PUBREL is outside the statement (execution not judged)".into(),
    ];
    ck.finish()
}

pub fn run_c14(tier: Tier) -> i32 {
    let mut ck = Check::new("C14", tier, Duration::from_secs(if tier == Tier::Quick { 50 } else { 1800 }));
    let ecfg = ExploreCfg { max_dev: if tier == Tier::Quick { 1 } else { 2 }, max_execs: if tier == Tier::Quick { 400_000 } else { 8_000_000 }, ..Default::default() };
    for (i, c) in c14_configs(tier).iter().enumerate() {
        ck.explore::<Out>("outbound", i, c, &ecfg);
    }
    ck.rule = "per role: 2-4 concurrent send_exactly_once (receipt held until the explorer releases or drops it; also immediate release / drop variants), optionally a QoS 1 send in between (also one that is refused because it re-uses the caller-chosen id of an exchange whose receipt is held), send limits 8 and 2; peer acknowledges in the order received (PUBREC for PUBLISH, PUBCOMP for PUBREL), singly or batched in one write; Release(j)/DropReceipt(j) in every order; oracle: each send resolves with the PUBREC of its own id, each release/drop writes exactly one PUBREL with its own id (none while the receipt is held), release() completes Ok exactly when its own PUBCOMP was delivered".into();
    ck.assumptions = vec!["FIFO task order of ntex-rt; nondeterminism = timing of environment events (DESIGN 2.4)".into()];
    ck.finish()
}

pub fn trace_cfgs(prop: &str, tier: Tier) -> Vec<OutCfg> {
    if prop == "C14" { c14_configs(tier) } else { c06_configs(tier) }
}
