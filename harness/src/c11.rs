//! C11: inbound packet identifiers stay reserved until their exchange is acknowledged.
use std::time::Duration;

use crate::check::{Check, Tier};
use crate::inbound::*;
use crate::inbound_oracles::{handler_records, healthy};
use crate::refmqtt::{Pkt, Ver};
use crate::simnet::{ExploreCfg, Violation};
use crate::world::*;

pub fn step_check(_s: &In) -> Result<(), Violation> {
    Ok(())
}

fn viol(s: &In, clause: &str, wit: String, msg: String) -> Violation {
    Violation::new(clause, format!("{} {}", s.cfg.ep.label(), wit), format!("{msg}; {}", s.detail()))
}

#[derive(Clone, Copy, PartialEq, Eq, Debug)]
enum Kind {
    Q1,
    Q2,
    Sub,
    Unsub,
}

fn req_kind(p: &Pkt) -> Option<(Kind, u16)> {
    match p {
        Pkt::Publish { qos: 1, pid: Some(i), .. } => Some((Kind::Q1, *i)),
        Pkt::Publish { qos: 2, pid: Some(i), .. } => Some((Kind::Q2, *i)),
        Pkt::Subscribe { pid, .. } => Some((Kind::Sub, *pid)),
        Pkt::Unsubscribe { pid, .. } => Some((Kind::Unsub, *pid)),
        _ => None,
    }
}

pub fn final_check(s: &In) -> Result<(), Violation> {
    let v5 = s.conn.ver() == Ver::V5;
    let hs = handler_records(s);
    let log = s.conn.log.snapshot();
    let first_stop: u64 = log.iter().find_map(|(st, r)| if let Rec::Ctl(c) = r { if c.starts_with("Stop") { Some(*st) } else { None } } else { None }).unwrap_or(u64::MAX);
    // protocol-service invocations: (gate, kind, pid, enter step, exit step)
    let mut pcalls: Vec<(usize, String, u16, u64, Option<u64>)> = Vec::new();
    for (st, r) in &log {
        match r {
            Rec::PEnter { k, kind, pid } => pcalls.push((*k, kind.clone(), *pid, *st, None)),
            Rec::PExit { k } => {
                if let Some(c) = pcalls.iter_mut().find(|c| c.0 == *k) {
                    c.4 = Some(*st);
                }
            }
            _ => {}
        }
    }
    /// one request carrying a packet id
    struct Rq {
        idx: usize,
        kind: Kind,
        id: u16,
        sent_step: u64,
        /// handler entry / exit steps when it was accepted (exact: publishes are tagged by payload, sub/unsub by filter)
        enter: Option<u64>,
        released: Option<u64>,
        ack_seen: Option<u64>,
        rel_sent: bool,
    }
    let mut rqs: Vec<Rq> = Vec::new();
    for (i, snt) in s.sent.iter().enumerate() {
        let Some(pkt) = &snt.pkt else { continue };
        let Some(cs) = snt.complete_step else { continue };
        if cs > first_stop {
            break;
        }
        if let Pkt::Ack { typ: 6, pid, .. } = pkt {
            let comp = s.conn.out.iter().find(|(st, p)| *st >= cs && matches!(p, Pkt::Ack { typ: 7, pid: q, .. } if q == pid));
            let pc = pcalls.iter().find(|c| c.1 == "pubrel" && c.2 == *pid && c.3 >= cs);
            // the open QoS 2 exchange this PUBREL can belong to: accepted, not yet released
            let open = rqs.iter_mut().rev().find(|e| e.id == *pid && e.kind == Kind::Q2 && e.enter.is_some() && !e.rel_sent);
            match comp {
                Some((st, Pkt::Ack { code, .. })) if code.unwrap_or(0) < 0x80 => match open {
                    Some(e) => {
                        e.rel_sent = true;
                        e.released = pc.and_then(|c| c.4);
                        e.ack_seen = Some(*st);
                    }
                    None => {
                        return Err(viol(s, "pubrel-unknown-id", "acknowledged".into(), format!("PUBREL #{i} for id {pid} was answered with a success PUBCOMP although no QoS 2 exchange with that id was open")));
                    }
                },
                Some(_) => {
                    if let Some(e) = open {
                        let enter = e.enter.unwrap_or(0);
                        let rec_seen = s.conn.out.iter().any(|(st, p)| *st < snt.step && *st >= enter && matches!(p, Pkt::Ack { typ: 5, pid: q, code, .. } if q == pid && code.unwrap_or(0) < 0x80));
                        if rec_seen {
                            return Err(viol(s, "pubrel-refused", "open exchange".into(), format!("PUBREL #{i} for id {pid} was refused although its PUBLISH had been answered with PUBREC")));
                        }
                    }
                }
                None => {
                    if let Some(e) = open {
                        e.rel_sent = true;
                        e.released = pc.and_then(|c| c.4);
                    } else if !v5 && s.conn.log.stops().iter().all(|x| !x.starts_with("Stop:Proto")) && pc.is_some() {
                        return Err(viol(s, "pubrel-unknown-id", "handled".into(), format!("PUBREL #{i} for id {pid} reached the protocol service although no QoS 2 exchange with that id was open")));
                    }
                }
            }
            continue;
        }
        let Some((kind, id)) = req_kind(pkt) else { continue };
        let (enter, exit) = match (kind, pkt) {
            (Kind::Q1 | Kind::Q2, _) => {
                let h = hs.iter().find(|h| h.pid == id && h.payload.first() == Some(&snt.tag));
                (h.map(|h| h.enter_step), h.and_then(|h| h.exit.map(|e| e.0)))
            }
            (Kind::Sub, Pkt::Subscribe { filters, .. }) => {
                let want = format!("sub:{}", filters[0].0);
                let c = pcalls.iter().find(|c| c.1 == want);
                (c.map(|c| c.3), c.and_then(|c| c.4))
            }
            (Kind::Unsub, Pkt::Unsubscribe { filters, .. }) => {
                let want = format!("unsub:{}", filters[0]);
                let c = pcalls.iter().find(|c| c.1 == want);
                (c.map(|c| c.3), c.and_then(|c| c.4))
            }
            _ => (None, None),
        };
        // (A) accepted while an earlier exchange with the same id was still open
        if let Some(h) = enter {
            if let Some(e) = rqs.iter().rev().find(|e| e.id == id && e.enter.is_some()) {
                if e.released.is_none_or(|r| r > h) {
                    return Err(viol(
                        s,
                        "in-use-id-delivered",
                        format!("{kind:?} while {:?} holds the id", e.kind),
                        format!("packet #{i} with id {id} entered its handler at step {h} while exchange #{} ({:?}, same id) was still open (released at {:?})", e.idx, e.kind, e.released),
                    ));
                }
            }
        } else {
            // (B) not accepted although every earlier exchange with this id had been acknowledged on the wire before it was sent
            let certainly_free = rqs.iter().filter(|e| e.id == id).all(|e| e.enter.is_none() || e.ack_seen.is_some_and(|a| a < snt.step));
            if certainly_free && healthy(s) {
                return Err(viol(
                    s,
                    "free-id-refused",
                    format!("{kind:?}"),
                    format!("packet #{i} with id {id} never reached its handler although the id was free when it was sent (never used, or the previous exchange had been acknowledged on the wire)"),
                ));
            }
            if certainly_free && !v5 && s.conn.log.stops().iter().any(|x| x.contains("2_2_1_3")) {
                // only when no other packet of this history is a genuine reuse (the stop may be that packet's)
                let genuine_dup = s.sent.iter().enumerate().any(|(j, a)| {
                    j != i && a.pkt.as_ref().and_then(req_kind).is_some_and(|(_, aid)| s.sent.iter().enumerate().any(|(l, b)| l < j && b.pkt.as_ref().and_then(req_kind).is_some_and(|(_, bid)| bid == aid)))
                });
                if !genuine_dup {
                    return Err(viol(s, "free-id-refused", format!("{kind:?} v3"), format!("packet #{i} with free id {id} ended the v3 connection as a duplicate")));
                }
            }
        }
        // the k-th accepted exchange of this (kind, id) is answered by the k-th success acknowledgement of its type
        let nth = rqs.iter().filter(|e| e.id == id && e.kind == kind && e.enter.is_some()).count();
        let ack_seen = enter.and_then(|_| {
            s.conn
                .out
                .iter()
                .filter_map(|(st, p)| match (kind, p) {
                    // any PUBACK except the Packet-Identifier-in-use refusal of a duplicate finishes the exchange
                    (Kind::Q1, Pkt::Ack { typ: 4, pid, code, .. }) if *pid == id && code.unwrap_or(0) != 0x91 => Some(*st),
                    (Kind::Sub, Pkt::SubAck { pid, codes, .. }) if *pid == id && !codes.contains(&0x91) => Some(*st),
                    (Kind::Unsub, Pkt::UnsubAck { pid, codes, .. }) if *pid == id && !codes.contains(&0x91) => Some(*st),
                    _ => None,
                })
                .nth(nth)
        });
        // QoS 2: a PUBREC carrying an error code finishes the exchange, no PUBREL follows [MQTT-4.3.3]
        let mut rq = Rq { idx: i, kind, id, sent_step: snt.step, enter, released: if kind == Kind::Q2 { None } else { exit }, ack_seen, rel_sent: false };
        if kind == Kind::Q2 && enter.is_some() {
            let rec = s.conn.out.iter().filter(|(_, p)| matches!(p, Pkt::Ack { typ: 5, pid, code, .. } if *pid == id && code.unwrap_or(0) != 0x91)).nth(nth);
            if let Some((st, Pkt::Ack { code, .. })) = rec {
                if code.unwrap_or(0) >= 0x80 {
                    rq.released = exit;
                    rq.ack_seen = Some(*st);
                    rq.rel_sent = true;
                }
            }
        }
        rqs.push(rq);
    }
    // (C) refusals are reported the way the version prescribes
    let refused: Vec<&Rq> = rqs.iter().filter(|r| r.enter.is_none()).collect();
    if !refused.is_empty() {
        if v5 {
            for r in &refused {
                let n_req = refused.iter().filter(|x| x.id == r.id && std::mem::discriminant(&x.kind) == std::mem::discriminant(&r.kind)).count();
                let n_neg = s
                    .conn
                    .out
                    .iter()
                    .filter(|(_, p)| match (r.kind, p) {
                        (Kind::Q1 | Kind::Q2, Pkt::Ack { typ: 4 | 5, pid, code: Some(0x91), .. }) => *pid == r.id,
                        (Kind::Sub, Pkt::SubAck { pid, codes, .. }) => *pid == r.id && !codes.is_empty() && codes.iter().all(|c| *c == 0x91),
                        (Kind::Unsub, Pkt::UnsubAck { pid, codes, .. }) => *pid == r.id && !codes.is_empty() && codes.iter().all(|c| *c == 0x91),
                        _ => false,
                    })
                    .count();
                let n_q = refused.iter().filter(|x| x.id == r.id && matches!(x.kind, Kind::Q1 | Kind::Q2)).count();
                let expect = if matches!(r.kind, Kind::Q1 | Kind::Q2) { n_q } else { n_req };
                if healthy(s) && n_neg != expect {
                    return Err(viol(s, "in-use-not-refused", format!("{:?}", r.kind), format!("{expect} packets reusing in-use id {} were not delivered but {n_neg} Packet-Identifier-in-use acknowledgements were written", r.id)));
                }
                if !healthy(s) && s.conn.log.stops().iter().any(|x| x.contains("2_2_1_3")) {
                    return Err(viol(s, "in-use-ends-v5", format!("{:?}", r.kind), format!("reuse of in-use id {} ended the v5 connection", r.id)));
                }
            }
        } else {
            // v3: the connection ends; the reason is a protocol violation unless the history also contains
            // another packet that ends the connection by itself (client role: PUBREL for an unknown id closes the sink)
            let stops = s.conn.log.stops();
            let other_cause = s.cfg.ep.role == Role::Client && s.sent.iter().any(|x| matches!(x.pkt, Some(Pkt::Ack { typ: 6, .. })));
            if stops.is_empty() && !s.conn.done() {
                return Err(viol(s, "in-use-not-refused", "v3".into(), format!("packet #{} reused in-use id {} but the v3 connection was not ended", refused[0].idx, refused[0].id)));
            }
            // (a routed client has no control service the harness could observe: ClientRouter only offers start())
            let observable = !(s.cfg.ep.role == Role::Client && s.cfg.ep.router);
            if observable && !other_cause && stops.iter().all(|x| !x.starts_with("Stop:Proto")) {
                return Err(viol(s, "in-use-wrong-reason", "v3".into(), format!("packet #{} reused in-use id {}; the connection ended with {stops:?} instead of a protocol violation", refused[0].idx, refused[0].id)));
            }
        }
    }
    Ok(())
}

pub fn configs(tier: Tier) -> Vec<InCfg> {
    let mut v = Vec::new();
    for (ver, role) in crate::c05::roles() {
        let mut ep = EpCfg::new(ver, role);
        ep.proto_auto = false;
        ep.handler_auto = false;
        let q = |qos: u8, id: u16| T::Pub { qos, id, len: 1, topic: 0, alias: 0 };
        let full: Vec<T> = if role == Role::Server {
            vec![q(1, 1), q(2, 1), T::Sub(1), T::Unsub(1), T::PubRel(1), q(1, 2), q(2, 2), T::Sub(2), T::PubRel(2)]
        } else {
            vec![q(1, 1), q(2, 1), T::PubRel(1), q(1, 2), q(2, 2), T::PubRel(2), q(1, 3)]
        };
        let small: Vec<T> = if role == Role::Server { vec![q(1, 1), q(2, 1), T::Sub(1), T::Unsub(1), T::PubRel(1), q(1, 2)] } else { vec![q(1, 1), q(2, 1), T::PubRel(1), q(1, 2)] };
        let variants: Vec<(Vec<T>, u8, Vec<T>)> = if tier == Tier::Quick {
            vec![(full.clone(), 3, vec![]), (small.clone(), 4, vec![]), (small.clone(), 3, if role == Role::Server { vec![q(2, 1), T::PubRel(1)] } else { vec![q(2, 1), T::PubRel(1)] })]
        } else {
            if role == Role::Server {
                vec![(full.clone(), 4, vec![]), (small.clone(), 5, vec![]), (full.clone(), 3, vec![q(2, 1), T::PubRel(1)]), (full.clone(), 3, vec![q(1, 1), T::Sub(2)])]
            } else {
                vec![(full.clone(), 4, vec![]), (small.clone(), 5, vec![]), (full.clone(), 3, vec![q(2, 1), T::PubRel(1)])]
            }
        };
        let mut variants: Vec<(Vec<T>, u8, Vec<T>, Vec<GateOutcome>)> = variants.into_iter().map(|(a, m, p)| (a, m, p, vec![GateOutcome::Ok])).collect();
        if ver == Ver::V5 {
            // handler errors the application maps to a negative acknowledgement finish the exchange as well
            let a: Vec<T> = vec![q(1, 1), q(2, 1), T::PubRel(1), q(1, 2)];
            variants.push((a.clone(), if tier == Tier::Quick { 3 } else { 4 }, vec![], vec![GateOutcome::Ok, GateOutcome::Nack(0x80)]));
            // ... while a PUBREC with a non-zero *success* code (0x10 No matching subscribers) leaves the exchange
            // open until PUBREL (seeded change C11_r5 released the id for every code other than 0x00)
            variants.push((a, if tier == Tier::Quick { 3 } else { 4 }, vec![], vec![GateOutcome::Ok, GateOutcome::Nack(0x10)]));
        }
        // the DUP flag changes nothing: a second PUBLISH with an in-use id is refused whether or not it claims to be a
        // re-delivery (seeded change C03_r11 confirmed a DUP QoS 2 publish with PUBREC Success while the first one's
        // handler was still running)
        variants.push((vec![q(2, 1), T::PubDup { qos: 2, id: 1 }, q(1, 1), T::PubDup { qos: 1, id: 1 }, T::PubRel(1)], if tier == Tier::Quick { 3 } else { 4 }, vec![], vec![GateOutcome::Ok]));
        // a duplicate whose payload arrives in pieces: v5 refuses it and carries on, v3 ends the connection
        variants.push((vec![q(1, 1), T::PubSplit { qos: 1, id: 1, len: 6 }, q(1, 2)], if tier == Tier::Quick { 3 } else { 4 }, vec![], vec![GateOutcome::Ok]));
        // clients: the same histories with the topic router in front of the handler (its own acknowledgement
        // path in the client dispatchers); the negative-acknowledgement variant and one plain variant
        let mut variants: Vec<(Vec<T>, u8, Vec<T>, Vec<GateOutcome>, bool)> = variants.into_iter().map(|(a, m, p, o)| (a, m, p, o, false)).collect();
        if role == Role::Client {
            let routed: Vec<_> = variants.iter().filter(|x| x.3.len() > 1 || (x.2.is_empty() && x.0.len() == full.len())).cloned().map(|(a, m, p, o, _)| (a, m, p, o, true)).collect();
            variants.extend(routed);
        }
        for (alphabet, max_len, prologue, outcomes, router) in variants {
            let mut ep = ep.clone();
            ep.router = router;
            v.push(InCfg {
                ep: ep.clone(),
                connect_props: vec![],
                alphabet,
                prologue,
                max_len,
                outcomes,
                poutcomes: vec![GateOutcome::Ok],
                cork: false,
                judge: J_C11,
                app_sends: vec![],
                skip_connect: false,
                known: vec![],
                bp: 0,
            });
        }
    }
    v
}

pub fn run(tier: Tier) -> i32 {
    let mut ck = Check::new("C11", tier, Duration::from_secs(if tier == Tier::Quick { 50 } else { 1500 }));
    let ecfg = ExploreCfg { max_dev: 1, max_execs: if tier == Tier::Quick { 600_000 } else { 10_000_000 }, ..Default::default() };
    let known: Vec<String> = ck.known.iter().filter(|k| k.status == "known").map(|k| format!("{}|{}", k.clause, k.witness)).collect();
    for (i, c) in configs(tier).iter_mut().enumerate() {
        c.known = known.clone();
        ck.explore::<In>("inbound", i, c, &ecfg);
    }
    ck.rule = "per role: every history of up to 3-5 packets over {PUBLISH q1/q2, SUBSCRIBE, UNSUBSCRIBE, PUBREL} x id in {1,2} (clients: PUBLISH q1/q2 and PUBREL; with the protocol-service handler and with the topic router), also after a completed exchange (prologue), with publish-handler and protocol-service completions placed by the explorer at every position (v5 also with handler errors mapped to a negative acknowledgement); reference set model: an id is certainly in use until its handler completed (QoS 2: until PUBREL was sent) and certainly free once its final acknowledgement was seen on the wire; in between no demand. distinct_nontrivial = distinct final observations with >= 2 packets".into();
    ck.assumptions = vec!["FIFO task order of ntex-rt; nondeterminism = timing of environment events (DESIGN 2.4)".into()];
    ck.finish()
}

pub fn trace_cfg(tier: Tier, idx: usize) -> InCfg {
    configs(tier)[idx].clone()
}
