//! C07: however a connection ends, it is torn down completely and exactly once.
//! Base schedules (fixed scripts) x termination cause injected at every quiescent point and, with one
//! deviation, at every point between task polls.
use std::future::Future;
use std::pin::Pin;
use std::time::Duration;

use crate::check::{Check, Tier};
use crate::outbound::{App, SK, SenderSt, start_sender};
use crate::refmqtt::{self as rf, PVal, Pkt, Ver};
use crate::simnet::*;
use crate::world::*;

#[derive(Clone, Copy, Debug, PartialEq, Eq, Hash)]
pub enum Cause {
    PeerClose,
    ReadErr,
    WriteErr,
    Garbage,
    ProtoViolation,
    HandlerErr,
    ProtoErr,
    KeepAlive,
    Close,
    ForceClose,
    /// the publish service's (clients: protocol service's) `Service::ready()` starts returning an error (a hand-written service)
    ReadyErr,
}

#[derive(Clone, Copy, Debug, PartialEq, Eq)]
pub enum Base {
    /// two publishes in flight with gated handlers (+ a gated SUBSCRIBE on servers)
    Handlers,
    /// streamed PUBLISH half received, handler blocked in read()
    Streaming,
    /// streamed PUBLISH half received, its payload handed to a task of its own that is blocked in read_all()
    /// while the handler waits elsewhere (cancelling the handler does not release that reader)
    StreamingDetached,
    /// outbound: one send awaiting its ack, one parked on the window, one ready() future
    Sends,
    /// the inbound stream of `Handlers` delivered one byte per write (fault at every byte offset)
    Bytes,
    /// as `Sends`, but the window slot is held by a publish sent through the non-blocking API
    /// (publish_ack_cb installed), with one send and one ready() future parked behind it
    SendsCb,
    /// the application is streaming an outbound QoS 1 publish: header and first chunk written, second chunk owed
    OutStream,
    /// write back-pressure active: the peer does not read, the small write buffer is over its high
    /// watermark, one publish handler is in flight; the peer starts reading again after the fault
    Backpressure,
    /// servers: the protocol service, handling a SUBSCRIBE, is itself awaiting a QoS 1 send through the sink (never
    /// acknowledged by the peer) and a PINGREQ is queued behind it in the control pipeline: tear-down must fail
    /// that send, or service shutdown waits for the handler, which waits for the send, for ever
    HandlerSends,
    /// servers: a gated SUBSCRIBE handler that never completes with two PINGREQs queued behind it in the control
    /// pipeline (the handler must be cancelled and the queue given up, or tear-down waits for ever)
    HandlersQueued,
    /// the application's publish service (clients: protocol service) is not ready - its own back-pressure - with one
    /// gated publish handler in flight and a second publish arrived but unread: the dispatcher sits in its reading
    /// pause when the connection ends
    Held,
}

#[derive(Clone, Debug)]
pub struct TdCfg {
    pub ep: EpCfg,
    pub base: Base,
    pub cause: Cause,
}

#[derive(Clone, Copy, Debug, PartialEq, Eq)]
pub enum Ev {
    /// next step of the base script
    Step(u8),
    Fault,
}

pub struct Td {
    cfg: TdCfg,
    conn: Conn,
    app: App,
    script: Vec<BaseStep>,
    pos: usize,
    fault_step: Option<u64>,
    ticks: u32,
    fault_applicable: bool,
    window_reopened: bool,
}

#[derive(Clone, Debug)]
enum BaseStep {
    Send(Pkt),
    SendRaw(Vec<u8>),
    StartSender(usize, SK),
    Window(bool),
    /// the publish service stops being ready
    Hold,
    /// the application hands the next chunk of sender j's streamed publish to the sink
    Chunk(usize),
}

fn script_for(cfg: &TdCfg) -> Vec<BaseStep> {
    let ver = cfg.ep.ver;
    match cfg.base {
        Base::Handlers => {
            let mut v = vec![BaseStep::Send(rf::publish(1, 1, "t", &[0xC1])), BaseStep::Send(rf::publish(2, 2, "t", &[0xC2]))];
            if cfg.ep.role == Role::Server {
                v.push(BaseStep::Send(Pkt::Subscribe { pid: 3, props: vec![], filters: vec![("f/1".into(), 0)] }));
            }
            v
        }
        Base::Streaming | Base::StreamingDetached => {
            let p = rf::publish(1, 1, "t", &[0x81, 0x82, 0x83, 0x84, 0x85, 0x86, 0x87, 0x88]);
            let b = rf::encode(ver, &p);
            let cut = b.len() - 4;
            vec![BaseStep::SendRaw(b[..cut].to_vec())]
        }
        Base::SendsCb => vec![BaseStep::StartSender(0, SK::Q1NoBlock), BaseStep::StartSender(1, SK::Q1), BaseStep::StartSender(2, SK::Ready)],
        Base::OutStream => vec![BaseStep::StartSender(0, SK::Stream { qos: 1, size: 6, plan: 1 }), BaseStep::Chunk(0), BaseStep::StartSender(1, SK::Q1)],
        Base::Backpressure => vec![
            BaseStep::Send(rf::publish(1, 1, "t", &[0xC1])),
            BaseStep::Window(false),
            BaseStep::StartSender(0, SK::Q0),
            BaseStep::StartSender(1, SK::Q0),
            BaseStep::StartSender(2, SK::Q0),
            BaseStep::StartSender(3, SK::Q0),
        ],
        Base::Held => vec![BaseStep::Send(rf::publish(1, 1, "t", &[0xC1])), BaseStep::Hold, BaseStep::Send(rf::publish(1, 2, "t", &[0xC2])), BaseStep::Send(rf::publish(0, 0, "t", &[0xC3]))],
        Base::Sends => vec![BaseStep::StartSender(0, SK::Q1), BaseStep::StartSender(1, SK::Q1), BaseStep::StartSender(2, SK::Ready)],
        Base::HandlersQueued => vec![BaseStep::Send(Pkt::Subscribe { pid: 3, props: vec![], filters: vec![("f/1".into(), 0)] }), BaseStep::Send(Pkt::PingReq), BaseStep::Send(Pkt::PingReq)],
        Base::HandlerSends => vec![BaseStep::Send(Pkt::Subscribe { pid: 3, props: vec![], filters: vec![("f/1".into(), 0)] }), BaseStep::Send(Pkt::PingReq), BaseStep::Send(Pkt::PingReq)],
        Base::Bytes => {
            let mut all = Vec::new();
            all.extend_from_slice(&rf::encode(ver, &rf::publish(1, 1, "t", &[0xC1, 0xC1])));
            all.extend_from_slice(&rf::encode(ver, &rf::publish(2, 2, "t", &[0xC2])));
            if cfg.ep.role == Role::Server {
                all.extend_from_slice(&rf::encode(ver, &Pkt::Subscribe { pid: 3, props: vec![], filters: vec![("f/1".into(), 0)] }));
            }
            all.into_iter().map(|b| BaseStep::SendRaw(vec![b])).collect()
        }
    }
}

/// Stop class the statement assigns to each cause.
fn expected_class(c: Cause) -> &'static str {
    match c {
        Cause::PeerClose | Cause::ReadErr | Cause::WriteErr | Cause::Close | Cause::ForceClose => "Stop:PeerGone",
        Cause::Garbage | Cause::ProtoViolation | Cause::KeepAlive => "Stop:Proto",
        Cause::HandlerErr | Cause::ProtoErr | Cause::ReadyErr => "Stop:Error",
    }
}

impl Td {
    fn wit(&self) -> String {
        format!("{} {:?} {:?}", self.cfg.ep.label(), self.cfg.base, self.cfg.cause)
    }
    fn detail(&self) -> String {
        let a = self.app.borrow();
        format!(
            "fault at step {:?}; wire_out={:?} senders={:?} log={:?}",
            self.fault_step,
            self.conn.out_short(),
            a.iter().map(|s| (s.started, s.done, s.results.clone())).collect::<Vec<_>>(),
            self.conn.log.render()
        )
    }
    /// can the cause be injected in the current state?
    fn cause_ready(&self) -> bool {
        match self.cfg.cause {
            Cause::HandlerErr => !self.conn.gates.waiting().is_empty(),
            Cause::ProtoErr => !self.conn.pgates.waiting().is_empty(),
            Cause::Close | Cause::ForceClose => self.conn.sink().is_some(),
            _ => true,
        }
    }
}

impl Scenario for Td {
    type Cfg = TdCfg;
    type Ev = Ev;

    fn build(cfg: &TdCfg) -> Pin<Box<dyn Future<Output = Self>>> {
        let cfg = cfg.clone();
        Box::pin(async move {
            let props = if cfg.ep.ver == Ver::V5 && cfg.ep.role == Role::Server && matches!(cfg.base, Base::Sends | Base::SendsCb | Base::OutStream) { vec![(0x21, PVal::U16(1))] } else { vec![] };
            let conn = start_endpoint(&cfg.ep, props, true).await;
            let app: App = std::rc::Rc::new(std::cell::RefCell::new((0..4).map(|_| SenderSt::default()).collect()));
            ntex_util::time::vclock::advance(Duration::from_millis(100));
            let script = script_for(&cfg);
            Td { cfg, conn, app, script, pos: 0, fault_step: None, ticks: 0, fault_applicable: false, window_reopened: false }
        })
    }

    fn enabled(&self, _q: bool) -> Vec<Ev> {
        let mut v = Vec::new();
        let handshaken = self.conn.sink.borrow().is_some() && self.conn.log.count(|r| matches!(r, Rec::Handshake(s) if s == "accepted")) > 0;
        if !handshaken || self.fault_step.is_some() {
            return v;
        }
        if self.pos < self.script.len() {
            v.push(Ev::Step(self.pos as u8));
        }
        if self.cause_ready() {
            v.push(Ev::Fault);
        }
        v
    }

    fn apply(&mut self, ev: Ev) {
        match ev {
            Ev::Step(_) => {
                let st = self.script[self.pos].clone();
                self.pos += 1;
                match st {
                    BaseStep::Send(p) => self.conn.send(&p),
                    BaseStep::SendRaw(b) => self.conn.send_raw(&b),
                    BaseStep::Window(open) => self.conn.window(open),
                    BaseStep::Hold => crate::world::hold_readiness(true),
                    BaseStep::Chunk(j) => {
                        let w = {
                            let mut a = self.app.borrow_mut();
                            a[j].chunks_allowed += 1;
                            a[j].chunk_waker.take()
                        };
                        if let Some(w) = w {
                            w.wake();
                        }
                    }
                    BaseStep::StartSender(j, k) => {
                        if let Some(s) = self.conn.sink() {
                            start_sender(&s, k, j, self.app.clone());
                        }
                    }
                }
            }
            Ev::Fault => {
                self.fault_step = Some(step());
                self.fault_applicable = true;
                let ver = self.cfg.ep.ver;
                match self.cfg.cause {
                    Cause::PeerClose => self.conn.close_peer(),
                    Cause::ReadErr => self.conn.peer.read_error(std::io::Error::other("injected read error")),
                    Cause::WriteErr => {
                        self.conn.peer.write_error(std::io::Error::other("injected write error"));
                        // make the endpoint write something
                        if let Some(s) = self.conn.sink() {
                            match s {
                                Sink::V5(s) => {
                                    let _ = s.publish(bs("t")).send_at_most_once(by(b"x"));
                                }
                                Sink::V3(s) => {
                                    let _ = s.publish(bs("t")).send_at_most_once(by(b"x"));
                                }
                            }
                        }
                    }
                    Cause::Garbage => self.conn.send_raw(&[0x00, 0x00]),
                    Cause::ProtoViolation => {
                        if self.cfg.ep.role == Role::Server {
                            self.conn.send(&rf::publish(0, 0, "t/#", b"w"));
                        } else {
                            self.conn.send(&Pkt::PingReq);
                        }
                    }
                    Cause::HandlerErr => {
                        let k = self.conn.gates.waiting()[0];
                        self.conn.gates.open(k, GateOutcome::Err);
                    }
                    Cause::ProtoErr => {
                        let k = self.conn.pgates.waiting()[0];
                        self.conn.pgates.open(k, GateOutcome::Err);
                    }
                    Cause::KeepAlive => {}
                    Cause::ReadyErr => crate::world::fail_readiness(),
                    Cause::Close => {
                        if let Some(s) = self.conn.sink() {
                            s.close();
                        }
                    }
                    Cause::ForceClose => {
                        if let Some(s) = self.conn.sink() {
                            s.force_close();
                        }
                    }
                }
                let _ = ver;
            }
        }
    }

    fn check(&mut self, _q: bool) -> Result<(), Violation> {
        self.conn.pump();
        let stops = self.conn.log.stops();
        if stops.len() > 1 {
            return Err(Violation::new("stop-twice", self.wit(), format!("{} Stop notifications: {}", stops.len(), self.detail())));
        }
        Ok(())
    }

    fn drain(&mut self) -> bool {
        // the fault must have been injected (causes that need a waiting handler may never become ready)
        if self.fault_step.is_none() {
            if self.pos >= self.script.len() && self.cause_ready() {
                self.apply(Ev::Fault);
                return true;
            }
            return false;
        }
        // a streaming application keeps handing over the chunks it owes (they must fail, not hang)
        if self.cfg.base == Base::OutStream {
            let w = {
                let mut a = self.app.borrow_mut();
                let j = (0..a.len()).find(|j| a[*j].chunks_wanted > a[*j].chunks_allowed);
                j.map(|j| {
                    a[j].chunks_allowed += 1;
                    a[j].chunk_waker.take()
                })
            };
            if let Some(w) = w {
                if let Some(w) = w {
                    w.wake();
                }
                return true;
            }
        }
        // the peer reads again: the write buffer flushes and the dispatcher leaves its back-pressure state
        if self.cfg.base == Base::Backpressure && !self.window_reopened {
            self.window_reopened = true;
            self.conn.window(true);
            return true;
        }
        // a peer that went away while nothing was being read is noticed when reading resumes: the application's
        // back-pressure ends (local causes - close, force-close, handler error, write error - must not need that)
        if self.cfg.base == Base::Held && matches!(self.cfg.cause, Cause::PeerClose | Cause::ReadErr) && !self.window_reopened {
            self.window_reopened = true;
            crate::world::hold_readiness(false);
            return true;
        }
        // a control service that was taking its time over the Stop notification is done with it
        if let Some(k) = self.conn.cgates.waiting().first() {
            self.conn.cgates.open(*k, GateOutcome::Ok);
            return true;
        }
        // let time pass (keep-alive expiry, disconnect timeout) until the connection task has completed
        if !self.conn.done() && self.ticks < 60 {
            self.ticks += 1;
            ntex_util::time::vclock::advance(Duration::from_millis(1000));
            return true;
        }
        false
    }

    fn finish(&mut self) -> Result<Outcome, Violation> {
        self.conn.pump();
        if self.fault_step.is_none() {
            return Ok(Outcome { obs: "cause never applicable".into(), nontrivial: false });
        }
        let log = self.conn.log.snapshot();
        let stops = self.conn.log.stops();
        let want = expected_class(self.cfg.cause);
        let observable = !(self.cfg.ep.role == Role::Client && self.cfg.ep.router);
        if !observable {
            // no control service to observe
        } else if stops.len() != 1 {
            return Err(Violation::new("stop-count", self.wit(), format!("{} Stop notifications after the fault, expected exactly one: {}", stops.len(), self.detail())));
        }
        if observable && !stops[0].starts_with(want) {
            // a local close while the peer's earlier traffic already is a violation etc. cannot happen here: single fault
            return Err(Violation::new("stop-class", self.wit(), format!("control service saw {} but the cause calls for {want}: {}", stops[0], self.detail())));
        }
        if !self.conn.done() {
            // one defect whatever the cause: the witness of this base does not name it (known findings C07-1/2)
            let wit = if self.cfg.base == Base::HandlersQueued { format!("{} HandlersQueued", self.cfg.ep.label()) } else { self.wit() };
            return Err(Violation::new("task-not-completed", wit, format!("connection task still running 60 virtual seconds after the Stop: {}", self.detail())));
        }
        // every pending send / readiness future resolved, with an error unless it had completed before
        {
            let a = self.app.borrow();
            for (j, s) in a.iter().enumerate() {
                if s.started && !s.done {
                    return Err(Violation::new("send-left-pending", self.wit(), format!("sender {j} is still waiting after teardown: {}", self.detail())));
                }
            }
        }
        // a publish sent through the non-blocking API completes through the callback: acknowledged, or
        // reported once with the disconnected flag set
        {
            let a = self.app.borrow();
            for (j, s) in a.iter().enumerate() {
                let sent = s.results.iter().filter(|r| r.as_str() == "sent").count();
                let acked = s.results.iter().filter(|r| r.starts_with("ok:") && r.ends_with(":cb")).count();
                let gone = s.results.iter().filter(|r| r.starts_with("err:cb-disconnected")).count();
                // (the peer of this scenario never acknowledges a publish: "acknowledged" can only be wrong)
                if sent > 0 && (acked != 0 || gone != sent) {
                    return Err(Violation::new(
                        "callback-not-once",
                        self.wit(),
                        format!("sender {j} handed over {sent} publish(es) through the non-blocking API; its callback reported {acked} acknowledged and {gone} disconnected: {}", self.detail()),
                    ));
                }
            }
        }
        // payload reader blocked in read() observed an error
        if self.cfg.base == Base::Streaming {
            let entered = log.iter().any(|(_, r)| matches!(r, Rec::HEnter { .. }));
            let read_err = log.iter().any(|(_, r)| matches!(r, Rec::HPayload { err: Some(_), .. }));
            let dropped = log.iter().any(|(_, r)| matches!(r, Rec::HDrop { .. }));
            let strict = self.cfg.ep.ctl == crate::world::CtlMode::Gated || std::env::var("VERIF_C07_STRICT_READER").is_ok();
            if entered && !read_err && (!dropped || strict) {
                return Err(Violation::new("reader-left-waiting", self.wit(), format!("handler blocked in read() neither saw an error nor was cancelled: {}", self.detail())));
            }
        }
        // a reader that lives outside the handler is not released by cancelling the handler: it must see an error
        if self.cfg.base == Base::StreamingDetached {
            let entered = log.iter().any(|(_, r)| matches!(r, Rec::HEnter { .. }));
            let reader_done = log.iter().any(|(_, r)| matches!(r, Rec::HPayload { .. }));
            if entered && !reader_done {
                return Err(Violation::new("reader-left-waiting", self.wit(), format!("a task blocked in read_all() on the taken payload neither got the payload nor an error: {}", self.detail())));
            }
        }
        // handlers still running are cancelled only after the Stop notification has been handled
        let stop_done = log.iter().find_map(|(st, r)| if let Rec::CtlDone(c) = r { if c.starts_with("Stop") { Some(*st) } else { None } } else { None });
        let stop_pos = log.iter().position(|(_, r)| matches!(r, Rec::CtlDone(c) if c.starts_with("Stop")));
        for (i, (_, r)) in log.iter().enumerate() {
            if observable && matches!(r, Rec::HDrop { .. } | Rec::PDrop { .. }) && stop_pos.is_none_or(|p| i < p) {
                return Err(Violation::new("cancelled-before-stop", self.wit(), format!("{r:?} happened before the Stop notification was handled (at {stop_done:?}): {}", self.detail())));
            }
        }
        // nothing left executing
        if self.conn.gates.executing() > 0 || self.conn.pgates.executing() > 0 {
            return Err(Violation::new("handler-left-running", self.wit(), format!("{} publish / {} protocol handlers neither finished nor were cancelled: {}", self.conn.gates.executing(), self.conn.pgates.executing(), self.detail())));
        }
        let obs = format!("{:?} stops={:?} out={:?}", self.fault_step.map(|_| self.pos), stops, self.conn.out_short());
        Ok(Outcome { obs, nontrivial: true })
    }
}

pub fn configs(tier: Tier) -> Vec<TdCfg> {
    let mut v = Vec::new();
    let causes = [Cause::PeerClose, Cause::ReadErr, Cause::WriteErr, Cause::Garbage, Cause::ProtoViolation, Cause::HandlerErr, Cause::ProtoErr, Cause::KeepAlive, Cause::Close, Cause::ForceClose, Cause::ReadyErr];
    for (ver, role) in crate::c05::roles() {
        for base in [Base::Handlers, Base::Streaming, Base::StreamingDetached, Base::Sends, Base::SendsCb, Base::Bytes, Base::Backpressure, Base::OutStream, Base::HandlerSends, Base::HandlersQueued, Base::Held] {
            for cause in causes {
                if base == Base::Bytes && !matches!(cause, Cause::PeerClose | Cause::ReadErr | Cause::ForceClose | Cause::Garbage) {
                    continue;
                }
                if base == Base::Bytes && cause == Cause::Garbage {
                    // undecodable bytes are only "a new packet" at packet boundaries; mid-packet they are payload/fields
                    continue;
                }
                if cause == Cause::ProtoErr && (role == Role::Client || !matches!(base, Base::Handlers | Base::HandlersQueued)) {
                    continue;
                }
                if cause == Cause::HandlerErr && !matches!(base, Base::Handlers | Base::Backpressure | Base::Held) {
                    continue;
                }
                // bytes written in the middle of a half-received payload are payload, not a new (bad) packet
                if matches!(base, Base::Streaming | Base::StreamingDetached) && matches!(cause, Cause::Garbage | Cause::ProtoViolation) {
                    continue;
                }
                // readiness of the application's publish service: servers (the service is passed to MqttServer::publish),
                // inbound bases (seeded change C07_r4 lost the payload sender on exactly this path)
                if cause == Cause::ReadyErr && !matches!(base, Base::Handlers | Base::Streaming | Base::StreamingDetached | Base::Backpressure | Base::Held) {
                    continue;
                }
                if base == Base::HandlerSends && (role == Role::Client || matches!(cause, Cause::HandlerErr | Cause::ProtoErr | Cause::ReadyErr)) {
                    continue;
                }
                // what arrives during the reading pause stays unread and the timers are stopped: undecodable bytes,
                // a violating packet and keep-alive expiry do not end the connection while it lasts
                if base == Base::Held && matches!(cause, Cause::Garbage | Cause::ProtoViolation | Cause::KeepAlive | Cause::ProtoErr) {
                    continue;
                }
                if base == Base::HandlersQueued && (role == Role::Client || matches!(cause, Cause::HandlerErr | Cause::ReadyErr)) {
                    continue;
                }
                let mut ep = EpCfg::new(ver, role);
                ep.proto_sends = base == Base::HandlerSends;
                ep.ready_gate = cause == Cause::ReadyErr || base == Base::Held;
                ep.handler_auto = false;
                // (HandlerSends: the handler answers by itself once its send has resolved)
                ep.proto_auto = base == Base::HandlerSends;
                ep.min_chunk_size = 2;
                ep.client_keepalive = if cause == Cause::KeepAlive { 2 } else { 0 };
                if cause == Cause::KeepAlive && role == Role::Client {
                    // the client's own keep-alive is a ping task (C20); inbound keep-alive expiry is a server notion
                    continue;
                }
                if base == Base::Sends || base == Base::SendsCb || base == Base::OutStream {
                    ep = crate::outbound::ep_for(ep, 1, false);
                    ep.handler_auto = false;
                }
                if base == Base::Backpressure {
                    ep.write_buf = Some((16, 4, 16));
                }
                if base == Base::StreamingDetached {
                    // the client's protocol-service Publish message does not give its payload away (no take_payload);
                    // handlers behind the client's topic router receive the same Publish type as a server's and can.
                    // A routed client has no control service the harness could observe (`ClientRouter` only offers
                    // `start()`): the Stop clauses are not judged there, everything else is (seeded change C07_r5)
                    if role == Role::Client {
                        if cause == Cause::ReadyErr {
                            continue;
                        }
                        ep.router = true;
                    }
                    ep.read_mode = ReadMode::Detached;
                }
                let _ = tier;
                // (not the v3 client: it keeps the payload sender in its own dispatcher, out of reach of the control
                // wrapper that fails the reader at Stop time in the other three roles; its reader gets the error at
                // service shutdown, together with the cancellation - "an error or cancelled", judged as before)
                if base == Base::Streaming && !(ver == Ver::V3 && role == Role::Client) {
                    // the control service takes its time over the Stop notification (it waits on a gate that opens at
                    // the next quiescent point): handlers are still running meanwhile, so the blocked reader is polled
                    // again before anything cancels it and must by then have been given its error - judged strictly
                    // (seeded change C07_r9 left the reader asleep on a silently ended stream; with a control service
                    // that answers at once it was cancelled in the same breath and nothing showed)
                    let mut gep = ep.clone();
                    gep.ctl = crate::world::CtlMode::Gated;
                    v.push(TdCfg { ep: gep, base, cause });
                }
                v.push(TdCfg { ep, base, cause });
            }
        }
    }
    v
}

pub fn run(tier: Tier) -> i32 {
    let mut ck = Check::new("C07", tier, Duration::from_secs(if tier == Tier::Quick { 50 } else { 1500 }));
    let ecfg = ExploreCfg { max_dev: 2, max_execs: if tier == Tier::Quick { 1_000_000 } else { 20_000_000 }, ..Default::default() };
    for (i, c) in configs(tier).iter().enumerate() {
        ck.explore::<Td>("teardown", i, c, &ecfg);
    }
    ck.rule = format!(
        "4 roles x 11 base schedules (the application's publish service (clients: protocol service) not ready - its own back-pressure - with a gated handler in flight and two publishes arrived but unread: the dispatcher sits in its reading pause, which ends after a remote fault and lasts through a local one; servers: a gated SUBSCRIBE handler that never completes with PINGREQs queued behind it; servers: the protocol service, while handling a SUBSCRIBE, is itself awaiting a QoS 1 send through the sink with two PINGREQs queued behind it; the window slot held by a publish sent through the non-blocking API with a send and a ready() future parked behind it; an outbound QoS 1 publish being streamed by the application - header and first chunk written, second chunk owed, another sender parked behind it; write back-pressure active - peer not reading, 16-byte write buffer over its high watermark, a publish handler in flight - with the peer reading again after the fault; the publish/subscribe stream delivered one byte per write for peer close / read error / force-close at every byte offset; two gated publish handlers + gated SUBSCRIBE; streamed PUBLISH half received with the handler blocked in read(); the same (servers) with the payload taken over by a task of its own that is blocked in read_all(); one send awaiting its ack + one parked on the window + one ready() future) x 11 termination causes (peer close, read error, write error, undecodable bytes, protocol-violating packet, publish handler error, protocol handler error, keep-alive expiry, sink.close(), sink.force_close(), and - inbound bases - the application's publish service (clients: protocol service) starting to fail in Service::ready()); the cause is injected before/after every step of the base schedule at quiescence and, with {} deviation(s), between any two task polls; afterwards virtual time advances up to 60 s and gates are never opened; oracle: exactly one Stop of the class the statement assigns to the cause, connection task completed, every send/ready future resolved, blocked reader saw an error or was cancelled (a reader outside the handler: saw an error), a publish sent through the non-blocking API had its callback invoked exactly once with the disconnected flag, handlers cancelled only after the Stop was handled, nothing left executing",
        ecfg.max_dev
    );
    ck.assumptions = vec![
        "virtual-time timer wheel behaves like the real one (vendored ntex-util, DESIGN 2.3)".into(),
        "FIFO task order of ntex-rt; nondeterminism = timing of environment events (DESIGN 2.4)".into(),
    ];
    ck.finish()
}

pub fn trace(tier: Tier, idx: usize, choices: &[u16], script: Option<Vec<String>>, max_polls: u64) -> ExecRecord {
    let cfgs = configs(tier);
    let c = &cfgs[idx];
    println!("config #{idx}: {} {:?} {:?}", c.ep.label(), c.base, c.cause);
    match script {
        Some(sc) => run_script::<Td>(c, &sc, max_polls),
        None => run_one::<Td>(c, choices, max_polls),
    }
}
