//! C15: MQTT 5 DISCONNECT - at most once, never after the peer's, nothing after it, names the cause.
//!
//! Scenario: one v5 endpoint (server or client); the explorer chooses sequences of close initiators
//! (application close variants, protocol handler asking to disconnect, handler errors, every protocol
//! violation with a dedicated reason code, keep-alive expiry, peer DISCONNECT with and without session
//! expiry) in every order; each may occur several times.  Oracle on the peer-side packet stream.
use std::future::Future;
use std::pin::Pin;
use std::time::Duration;

use crate::check::{Check, Tier};
use crate::refmqtt::{self as rf, PVal, Pkt, Ver};
use crate::simnet::{ExploreCfg, Outcome, Scenario, Violation};
use crate::world::*;

#[derive(Clone, Copy, Debug, PartialEq, Eq, Hash)]
pub enum Ini {
    /// ordinary QoS 1 PUBLISH (handler gated; completed by HOk / HErr)
    Pub1,
    /// server: SUBSCRIBE (protocol service gated; completed by POk / PDisc / PErr)
    Sub,
    /// server: QoS 2 PUBLISH although CONNACK said maximum QoS 1 -> 0x9B
    QosViol,
    /// server: RETAIN although not available -> 0x9A
    RetainViol,
    /// server: SUBSCRIBE with a subscription identifier although not available -> 0xA1
    SubIdViol,
    /// PUBLISH with an empty topic and an alias that was never defined -> 0x94
    AliasUnknown,
    /// PUBLISH with an empty topic and a never-defined alias above Topic Alias Maximum -> 0x94 as well
    AliasUnknownBig,
    /// packet larger than the announced maximum packet size -> 0x95
    TooLarge,
    /// undecodable bytes
    Garbage,
    /// packet the role must never receive (server: CONNACK, client: PINGREQ)
    Unexpected,
    /// peer DISCONNECT (normal)
    PeerDisc,
    /// peer DISCONNECT carrying a session expiry interval (a protocol error in that very packet)
    PeerDiscExpiry,
    /// peer DISCONNECT carrying Session Expiry Interval 0: explicit, but not a change of the CONNECT value (0) -
    /// a well-formed normal disconnect like `PeerDisc` (MQTT-3.14.2-2 forbids only a non-zero value)
    PeerDiscExpiry0,
    /// server: PINGREQ (traffic that asks for a response)
    Ping,
    HOk,
    HErr,
    POk,
    /// protocol handler asks to disconnect with its own packet (0x98, marked "proto")
    PDisc,
    PErr,
    /// sink.close()
    Close,
    /// sink.close_with_reason(0x8B marked "app")
    CloseReason,
    CloseNoReason,
    ForceClose,
    /// let the keep-alive period pass without traffic -> 0x8D
    KeepAlive,
    /// gated control service: the pending Stop notification completes without a packet
    COk,
    /// ... with the application's own DISCONNECT (0x00 marked "ctl")
    COwn,
    /// ... with an error
    CErr,
}

impl Ini {
    /// reason code MQTT 5 dedicates to this cause
    fn dedicated(self) -> Option<u8> {
        Some(match self {
            Ini::QosViol => 0x9B,
            Ini::RetainViol => 0x9A,
            Ini::SubIdViol => 0xA1,
            Ini::AliasUnknown | Ini::AliasUnknownBig => 0x94,
            Ini::TooLarge => 0x95,
            Ini::KeepAlive => 0x8D,
            _ => return None,
        })
    }
    /// causes that make the endpoint end the connection because of an error, without a dedicated code
    fn other_error(self) -> bool {
        matches!(self, Ini::Garbage | Ini::Unexpected | Ini::PeerDiscExpiry | Ini::HErr | Ini::PErr)
    }
}

#[derive(Clone, Debug)]
pub struct DcCfg {
    pub ep: EpCfg,
    pub alphabet: Vec<Ini>,
    pub max_len: usize,
    pub repeat: u8,
}

#[derive(Clone, Copy, Debug, PartialEq, Eq)]
pub enum Ev {
    Do(Ini),
    /// one second of virtual time passes (the io timer counts one-second ticks)
    Tick,
}

pub struct Dc {
    cfg: DcCfg,
    conn: Conn,
    done: Vec<Ini>,
    next_pid: u16,
    /// QoS>0 publishes sent and not yet seen acknowledged on the wire
    unacked: Vec<u16>,
    /// reason codes the library may use for a DISCONNECT of its own
    allowed: Vec<u8>,
    any_code: bool,
    errors: usize,
    close_called: bool,
    /// out.len() at the first quiescent point after the protocol service saw the peer's DISCONNECT
    peer_disc_mark: Option<usize>,
    ticks: u32,
    pending_ticks: u32,
    /// initiators that can make the endpoint write a DISCONNECT, applied so far
    causes: usize,
    /// number of such initiators applied when the peer's DISCONNECT was received (None = not received)
    causes_at_recv: Option<usize>,
    first_peer_disc: Option<Ini>,
}

const MAX_SIZE: u32 = 64;

impl Dc {
    fn wit(&self, what: &str) -> String {
        format!("v5-{} ctl={:?} {what}", if self.cfg.ep.role == Role::Server { "server" } else { "client" }, self.cfg.ep.ctl)
    }
    fn detail(&self) -> String {
        format!("initiators={:?} wire_out={:?} stops={:?}", self.done, self.conn.out_short(), self.conn.log.stops())
    }
    fn handshaken(&self) -> bool {
        self.conn.sink.borrow().is_some() && self.conn.log.count(|r| matches!(r, Rec::Handshake(s) if s == "accepted")) > 0
    }
    fn ready_for(&self, i: Ini) -> bool {
        let server = self.cfg.ep.role == Role::Server;
        match i {
            Ini::HOk | Ini::HErr => !self.conn.gates.waiting().is_empty(),
            Ini::POk | Ini::PDisc | Ini::PErr => !self.conn.pgates.waiting().is_empty(),
            Ini::COk | Ini::COwn | Ini::CErr => !self.conn.cgates.waiting().is_empty(),
            Ini::Close | Ini::CloseReason | Ini::CloseNoReason | Ini::ForceClose => self.conn.sink().is_some(),
            Ini::Sub | Ini::QosViol | Ini::RetainViol | Ini::SubIdViol | Ini::Ping => server && !self.conn.peer_closed,
            Ini::KeepAlive => server && self.cfg.ep.client_keepalive > 0,
            _ => !self.conn.peer_closed,
        }
    }
    fn track_publish(&mut self, pid: u16) {
        self.conn.pump();
        let acked: Vec<u16> = self.conn.out.iter().filter_map(|(_, p)| if let Pkt::Ack { typ: 4 | 5, pid, .. } = p { Some(*pid) } else { None }).collect();
        self.unacked.retain(|p| !acked.contains(p));
        if self.unacked.len() >= self.cfg.ep.max_receive as usize && !self.allowed.contains(&0x93) {
            // receive maximum exceeded
            self.allowed.push(0x93);
            self.errors += 1;
        }
        self.unacked.push(pid);
    }
    fn disconnects(&self) -> Vec<(usize, u8, Option<String>)> {
        self.conn
            .out
            .iter()
            .enumerate()
            .filter_map(|(i, (_, p))| match p {
                Pkt::Disconnect { code, props } => {
                    let mark = props.as_ref().and_then(|ps| ps.iter().find_map(|(id, v)| if let (0x1F, PVal::Str(s)) = (id, v) { Some(s.clone()) } else { None }));
                    Some((i, code.unwrap_or(0), mark))
                }
                _ => None,
            })
            .collect()
    }
}

impl Scenario for Dc {
    type Cfg = DcCfg;
    type Ev = Ev;

    fn build(cfg: &DcCfg) -> Pin<Box<dyn Future<Output = Self>>> {
        let cfg = cfg.clone();
        Box::pin(async move {
            let conn = start_endpoint(&cfg.ep, vec![], true).await;
            ntex_util::time::vclock::advance(Duration::from_millis(100));
            Dc { cfg, conn, done: vec![], next_pid: 1, unacked: vec![], allowed: vec![], any_code: false, errors: 0, close_called: false, peer_disc_mark: None, ticks: 0, pending_ticks: 0, causes: 0, causes_at_recv: None, first_peer_disc: None }
        })
    }

    fn enabled(&self, q: bool) -> Vec<Ev> {
        if self.pending_ticks > 0 {
            return if q { vec![Ev::Tick] } else { vec![] };
        }
        if !self.handshaken() || self.conn.done() {
            return vec![];
        }
        // completing a pending Stop notification does not count against the length bound
        if self.done.len() >= self.cfg.max_len {
            return if self.ready_for(Ini::COk) && self.cfg.alphabet.contains(&Ini::COk) { vec![Ev::Do(Ini::COk), Ev::Do(Ini::COwn)] } else { vec![] };
        }
        self.cfg
            .alphabet
            .iter()
            .filter(|i| self.ready_for(**i) && self.done.iter().filter(|d| d == i).count() < self.cfg.repeat as usize)
            .map(|i| Ev::Do(*i))
            .collect()
    }

    fn apply(&mut self, ev: Ev) {
        let Ev::Do(i) = ev else {
            self.pending_ticks -= 1;
            ntex_util::time::vclock::advance(Duration::from_millis(1000));
            return;
        };
        self.done.push(i);
        if let Some(c) = i.dedicated() {
            if !self.allowed.contains(&c) {
                self.allowed.push(c);
            }
            self.errors += 1;
        }
        if i.other_error() {
            self.any_code = true;
            self.errors += 1;
        }
        let server = self.cfg.ep.role == Role::Server;
        let pid = self.next_pid;
        if !matches!(i, Ini::Pub1 | Ini::Sub | Ini::Ping | Ini::HOk | Ini::POk | Ini::PeerDisc | Ini::PeerDiscExpiry0 | Ini::CloseNoReason | Ini::ForceClose | Ini::COk | Ini::CErr) {
            self.causes += 1;
        }
        if matches!(i, Ini::PeerDisc | Ini::PeerDiscExpiry0 | Ini::PeerDiscExpiry) && self.first_peer_disc.is_none() {
            self.first_peer_disc = Some(if i == Ini::PeerDiscExpiry0 { Ini::PeerDisc } else { i });
        }
        match i {
            Ini::Pub1 => {
                self.next_pid += 1;
                self.track_publish(pid);
                self.conn.send(&rf::publish(1, pid, "t", b"p"));
            }
            Ini::Sub => {
                self.next_pid += 1;
                self.conn.send(&Pkt::Subscribe { pid, props: vec![], filters: vec![("f".into(), 0)] });
            }
            Ini::QosViol => {
                self.next_pid += 1;
                self.track_publish(pid);
                self.conn.send(&rf::publish(2, pid, "t", b"q"));
            }
            Ini::RetainViol => {
                self.next_pid += 1;
                self.track_publish(pid);
                let mut p = rf::publish(1, pid, "t", b"r");
                if let Pkt::Publish { retain, .. } = &mut p {
                    *retain = true;
                }
                self.conn.send(&p);
            }
            Ini::SubIdViol => {
                self.next_pid += 1;
                self.conn.send(&Pkt::Subscribe { pid, props: vec![(0x0B, PVal::VarInt(7))], filters: vec![("f".into(), 0)] });
            }
            Ini::AliasUnknown => {
                let mut p = rf::publish(0, 0, "", b"a");
                if let Pkt::Publish { props, .. } = &mut p {
                    props.push((0x23, PVal::U16(1)));
                }
                self.conn.send(&p);
            }
            Ini::AliasUnknownBig => {
                let mut p = rf::publish(0, 0, "", b"a");
                if let Pkt::Publish { props, .. } = &mut p {
                    props.push((0x23, PVal::U16(9)));
                }
                self.conn.send(&p);
            }
            Ini::TooLarge => {
                self.conn.send(&rf::publish(0, 0, "t", &[b'z'; 100]));
            }
            Ini::Garbage => self.conn.send_raw(&[0x00, 0x00]),
            Ini::Unexpected => {
                if server {
                    self.conn.send(&Pkt::ConnAck { session_present: false, code: 0, props: vec![] });
                } else {
                    self.conn.send(&Pkt::PingReq);
                }
            }
            Ini::PeerDisc => self.conn.send(&Pkt::Disconnect { code: Some(0), props: None }),
            Ini::PeerDiscExpiry0 => self.conn.send(&Pkt::Disconnect { code: Some(0), props: Some(vec![(0x11, PVal::U32(0))]) }),
            Ini::PeerDiscExpiry => self.conn.send(&Pkt::Disconnect { code: Some(0), props: Some(vec![(0x11, PVal::U32(5))]) }),
            Ini::Ping => self.conn.send(&Pkt::PingReq),
            Ini::HOk | Ini::HErr => {
                let k = self.conn.gates.waiting()[0];
                self.conn.gates.open(k, if i == Ini::HOk { GateOutcome::Ok } else { GateOutcome::Err });
            }
            Ini::POk | Ini::PDisc | Ini::PErr => {
                let k = self.conn.pgates.waiting()[0];
                self.conn.pgates.open(
                    k,
                    match i {
                        Ini::POk => GateOutcome::Ok,
                        Ini::PDisc => GateOutcome::Nack(0x98),
                        _ => GateOutcome::Err,
                    },
                );
            }
            Ini::COk | Ini::COwn | Ini::CErr => {
                let k = self.conn.cgates.waiting()[0];
                self.conn.cgates.open(
                    k,
                    match i {
                        Ini::COk => GateOutcome::Ok,
                        Ini::COwn => GateOutcome::Nack(0),
                        _ => GateOutcome::Err,
                    },
                );
            }
            Ini::Close => {
                self.close_called = true;
                if let Some(s) = self.conn.sink() {
                    s.close();
                }
            }
            Ini::CloseReason => {
                if let Some(s) = self.conn.sink() {
                    s.close_with_reason(0x8B);
                }
            }
            Ini::CloseNoReason => {
                if let Some(s) = self.conn.sink() {
                    s.close_with_no_reason();
                }
            }
            Ini::ForceClose => {
                if let Some(s) = self.conn.sink() {
                    s.force_close();
                }
            }
            Ini::KeepAlive => {
                // keep-alive 2 s -> the server waits 3 s; the io timer counts one-second ticks
                self.pending_ticks = 5;
            }
        }
    }

    fn check(&mut self, q: bool) -> Result<(), Violation> {
        self.conn.pump();
        if let Some(e) = &self.conn.parse_err {
            return Err(Violation::new("wire-garbage", self.wit("output"), format!("{e}: {}", self.detail())));
        }
        let d = self.disconnects();
        if d.len() > 1 {
            return Err(Violation::new(
                "disconnect-twice",
                self.wit(&format!("codes {:#x},{:#x}", d[0].1, d[1].1)),
                format!("{} DISCONNECT packets written: {}", d.len(), self.detail()),
            ));
        }
        if let Some((i, _, _)) = d.first() {
            if *i + 1 < self.conn.out.len() || !self.conn.unparsed().is_empty() {
                let after = self.conn.out.get(*i + 1).map(|(_, p)| p.short()).unwrap_or_else(|| "bytes".into());
                return Err(Violation::new(
                    "written-after-own-disconnect",
                    self.wit(after.split('(').next().unwrap_or("")),
                    format!("{after} written after the endpoint's own DISCONNECT: {}", self.detail()),
                ));
            }
        }
        if self.causes_at_recv.is_none() {
            let flag = match self.conn.sink() {
                Some(Sink::V5(s)) => s.is_disconnect_recv(),
                _ => false,
            };
            if flag || self.conn.log.count(|r| matches!(r, Rec::PEnter { kind, .. } if kind == "disconnect")) > 0 {
                self.causes_at_recv = Some(self.causes);
            }
        }
        if q && self.peer_disc_mark.is_none() && self.conn.log.count(|r| matches!(r, Rec::PEnter { kind, .. } if kind == "disconnect")) > 0 {
            self.peer_disc_mark = Some(self.conn.out.len());
        }
        Ok(())
    }

    fn drain(&mut self) -> bool {
        if let Some(k) = self.conn.cgates.waiting().first() {
            self.conn.cgates.open(*k, GateOutcome::Ok);
            return true;
        }
        if !self.conn.done() && self.ticks < 60 {
            self.ticks += 1;
            ntex_util::time::vclock::advance(Duration::from_millis(1000));
            // time passing is itself a keep-alive cause when a keep-alive is configured
            if self.cfg.ep.role == Role::Server && self.cfg.ep.client_keepalive > 0 && !self.allowed.contains(&0x8D) {
                self.allowed.push(0x8D);
                self.errors += 1;
            }
            return true;
        }
        false
    }

    fn finish(&mut self) -> Result<Outcome, Violation> {
        self.check(true)?;
        let d = self.disconnects();
        if let Some((i, code, mark)) = d.first() {
            // 2. none after the peer's DISCONNECT has been received
            if let Some(m) = self.peer_disc_mark {
                if *i >= m {
                    return Err(Violation::new(
                        "disconnect-after-peer-disconnect",
                        self.wit(&format!("code {code:#x}")),
                        format!("DISCONNECT({code:#x}) written after the peer's DISCONNECT had been handed to the protocol service: {}", self.detail()),
                    ));
                }
            }
            // the peer's (well-formed) DISCONNECT was received before anything that could cause a DISCONNECT of ours
            // had happened: every DISCONNECT we write is "after the peer's"
            if self.causes_at_recv == Some(0) && self.first_peer_disc == Some(Ini::PeerDisc) {
                return Err(Violation::new(
                    "disconnect-after-peer-disconnect",
                    self.wit(&format!("code {code:#x}")),
                    format!("DISCONNECT({code:#x}) written although the peer's DISCONNECT had been received before any local cause: {}", self.detail()),
                ));
            }
            // 4. the library's own DISCONNECT names the cause
            let app_supplied = mark.as_deref().is_some_and(|m| matches!(m, "app" | "proto" | "ctl")) || (*code == 0 && mark.is_none() && self.close_called);
            if !app_supplied && self.errors > 0 {
                if *code == 0 {
                    return Err(Violation::new(
                        "normal-disconnection-on-error",
                        self.wit(&format!("{:?}", self.done.iter().find(|i| i.dedicated().is_some() || i.other_error()))),
                        format!("the connection was ended by an error but the DISCONNECT claims normal disconnection: {}", self.detail()),
                    ));
                }
                if !self.any_code && !self.allowed.is_empty() && !self.allowed.contains(code) {
                    return Err(Violation::new(
                        "wrong-reason-code",
                        self.wit(&format!("{:?} -> {code:#x}", self.done.iter().filter(|i| i.dedicated().is_some()).collect::<Vec<_>>())),
                        format!("DISCONNECT({code:#x}) but the only causes present have the dedicated codes {:x?}: {}", self.allowed, self.detail()),
                    ));
                }
            }
        }
        // 5. "it carries exactly that code": when the first thing that happens to a connection is a cause with a
        // dedicated code - nothing closed it before, the peer has not disconnected, the control service is the
        // default one and so supplies no packet of its own and suppresses none - that DISCONNECT is written
        // (mutation-sweep survivor: the control-response path dropped the first DISCONNECT of every connection)
        // Judged on servers (a client that just goes away has not been counted against the statement) and only
        // when nothing else happens to the connection: an application close - also right after the cause -
        // legitimately replaces or suppresses the packet, a peer DISCONNECT forbids it.
        let benign = |i: &Ini| matches!(i, Ini::Pub1 | Ini::Sub | Ini::Ping | Ini::HOk | Ini::POk);
        let only_dedicated = self.cfg.ep.ctl == crate::world::CtlMode::None && self.cfg.ep.role == Role::Server && self.done.iter().all(|i| benign(i) || (i.dedicated().is_some() && *i != Ini::KeepAlive));
        // ... and it is the code of the *first* such cause: packets are decoded in order and the first violation ends
        // the connection, what the peer sent after it is never looked at (a mutation-sweep survivor switched the
        // retain-available flag off: a retained PUBLISH was accepted, and every explored sequence went on to another
        // violation whose DISCONNECT made the run look fine)
        if only_dedicated {
            if let (Some((_, code, _)), Some(first)) = (d.first(), self.done.iter().find(|i| !benign(i))) {
                // (a publish that breaks a rule while the receive quota is already used up has two causes at once)
                if Some(*code) != first.dedicated() && !(*code == 0x93 && self.allowed.contains(&0x93)) {
                    return Err(Violation::new(
                        "wrong-reason-code",
                        self.wit(&format!("first cause {first:?} -> {code:#x}")),
                        format!("DISCONNECT({code:#x}) but the first cause, {first:?}, has the dedicated code {:#x}: {}", first.dedicated().unwrap_or(0), self.detail()),
                    ));
                }
            }
        }
        if d.is_empty() && only_dedicated {
            let first = self.done.iter().find(|i| !benign(i));
            if let Some(code) = first.and_then(|f| f.dedicated()) {
                return Err(Violation::new(
                    "dedicated-code-missing",
                    self.wit(&format!("{:?} -> none", first.unwrap())),
                    format!("the connection was ended by a cause with the dedicated code {code:#x} and no DISCONNECT was written: {}", self.detail()),
                ));
            }
        }
        let obs = format!("{:?} out={:?} stops={}", self.done, self.conn.out_short(), self.conn.log.stops().len());
        Ok(Outcome { obs, nontrivial: !d.is_empty() || self.done.len() > 1 })
    }
}

pub fn configs(tier: Tier) -> Vec<DcCfg> {
    use Ini::*;
    let mut v = Vec::new();
    let thorough = tier == Tier::Thorough;
    for role in [Role::Server, Role::Client] {
        let server = role == Role::Server;
        // alphabets: groups of initiators explored in every order (and every repetition up to `repeat`)
        let mut groups: Vec<(Vec<Ini>, bool)> = vec![
            // application close variants x peer DISCONNECT x handler outcome
            (vec![Pub1, HErr, Close, CloseReason, PeerDisc], false),
            (vec![Pub1, HOk, CloseNoReason, ForceClose, PeerDisc, Close], false),
            (vec![PeerDisc, PeerDiscExpiry, Close, Garbage], false),
            (vec![PeerDisc, Pub1, HErr, Unexpected, CloseReason], false),
            // dedicated codes, each also combined with an earlier/later close or peer disconnect
            (vec![AliasUnknown, TooLarge, PeerDisc, CloseNoReason], false),
            (vec![Pub1, Pub1, AliasUnknown, HOk], false),
            (vec![AliasUnknownBig, AliasUnknown, Pub1, HOk], false),
            (vec![TooLarge, Close, Pub1, HErr], false),
        ];
        if server {
            groups.extend([
                // (a server must never send the property, so these are server-role groups only)
                (vec![PeerDiscExpiry0, Pub1, HOk, Close], false),
                (vec![PeerDiscExpiry0, PeerDiscExpiry, CloseReason, HErr, Pub1], false),
                (vec![Sub, PDisc, PErr, POk, PeerDisc, Close], false),
                (vec![Sub, PDisc, Pub1, HErr, Ping], false),
                (vec![QosViol, RetainViol, SubIdViol, PeerDisc], false),
                (vec![QosViol, Pub1, HOk, CloseNoReason], false),
                (vec![RetainViol, SubIdViol, Close, Ping], false),
                (vec![KeepAlive, Pub1, HOk, PeerDisc], true),
                (vec![KeepAlive, Ping, Close, CloseNoReason], true),
                (vec![KeepAlive, Sub, PDisc, HErr, Pub1], true),
            ]);
        } else {
            groups.extend([(vec![Pub1, Unexpected, PeerDiscExpiry, Close], false), (vec![Pub1, HErr, HOk, PeerDisc, ForceClose], false)]);
        }
        for (alphabet, ka) in groups {
            for ctl in [CtlMode::None, CtlMode::OwnDisconnect, CtlMode::Error, CtlMode::Gated] {
                let mut alphabet = alphabet.clone();
                if ctl == CtlMode::Gated {
                    alphabet.extend([COk, COwn, CErr]);
                }
                let mut ep = EpCfg::new(Ver::V5, role);
                ep.handler_auto = false;
                ep.proto_auto = false;
                ep.ctl = ctl;
                ep.max_qos = 1;
                ep.max_receive = 1;
                ep.max_size = MAX_SIZE;
                ep.max_topic_alias = 2;
                ep.hs_retain_available = Some(false);
                ep.hs_sub_ids_available = Some(false);
                ep.client_keepalive = if ka { 2 } else { 0 };
                v.push(DcCfg { ep, alphabet: alphabet.clone(), max_len: if thorough { 5 } else { 4 }, repeat: 2 });
            }
        }
    }
    v
}

pub fn run(tier: Tier) -> i32 {
    let mut ck = Check::new("C15", tier, Duration::from_secs(if tier == Tier::Quick { 50 } else { 1800 }));
    let ecfg = ExploreCfg { max_dev: if tier == Tier::Quick { 2 } else { 3 }, max_execs: if tier == Tier::Quick { 800_000 } else { 20_000_000 }, ..Default::default() };
    let cfgs = configs(tier);
    for (i, c) in cfgs.iter().enumerate() {
        ck.explore::<Dc>("disconnect", i, c, &ecfg);
    }
    ck.rule = format!(
        "v5 server and client x control service {{no packet, own DISCONNECT, error, slow (its completion and outcome are explorer events)}} x {} initiator groups; every sequence of up to {} initiators (each up to twice) over application close()/close_with_reason()/close_with_no_reason()/force_close(), protocol handler asking to disconnect / failing, publish handler failing, QoS / RETAIN / subscription-identifier / unknown-alias / packet-too-large / receive-maximum violations, undecodable bytes, unexpected packet, keep-alive expiry (virtual clock), peer DISCONNECT with and without session expiry, in every order at quiescent points and with {} deviation(s) between any two task polls; oracle on the peer-side packet stream: at most one DISCONNECT, nothing after it, none after the peer's DISCONNECT reached the protocol service, library-made DISCONNECT never 0x00 after an error and exactly the dedicated code when only dedicated causes are present",
        cfgs.len() / 8,
        cfgs[0].max_len,
        ecfg.max_dev
    );
    ck.assumptions = vec![
        "application-supplied DISCONNECT packets are recognised by a reason-string marker; an unmarked 0x00 DISCONNECT is attributed to sink.close() whenever close() was called earlier in the execution".into(),
        "'received the peer's DISCONNECT' is taken as: the protocol service has been called with it and the runtime has since gone quiescent (later writes only)".into(),
        "FIFO task order of ntex-rt; nondeterminism = timing of environment events (DESIGN 2.4)".into(),
    ];
    ck.finish()
}

pub fn trace(tier: Tier, idx: usize, choices: &[u16], script: Option<Vec<String>>, max_polls: u64) -> crate::simnet::ExecRecord {
    let cfgs = configs(tier);
    let c = &cfgs[idx];
    println!("config #{idx}: {} alphabet={:?} ctl={:?}", c.ep.label(), c.alphabet, c.ep.ctl);
    match script {
        Some(sc) => crate::simnet::run_script::<Dc>(c, &sc, max_polls),
        None => crate::simnet::run_one::<Dc>(c, choices, max_polls),
    }
}
