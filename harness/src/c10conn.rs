//! C10 (connection part): handler receives exactly the bytes sent for every fragmentation and reader pace.
use crate::check::Check;

pub fn run_conn_part(_ck: &mut Check, _full: bool) {
    // filled in below (Engine A)
}
