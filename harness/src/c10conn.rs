//! C10 (connection part): the handler that reads the payload receives exactly the bytes sent, in order,
//! for every fragmentation of the inbound stream and every reader pace.
use std::future::Future;
use std::pin::Pin;

use crate::check::Check;
use crate::refmqtt::{self as rf, Pkt, Ver};
#[allow(unused_imports)]
use crate::refmqtt::Ver as _VerUsed;
use crate::simnet::{ExploreCfg, Outcome, Scenario, Violation};
use crate::world::*;

#[derive(Clone, Debug)]
pub struct RdCfg {
    pub ep: EpCfg,
    /// payload sizes of the publishes in the stream
    pub sizes: Vec<usize>,
    /// sizes of the deliveries the explorer may choose from (besides "everything that is left")
    pub steps: Vec<usize>,
    pub max_deliveries: usize,
    /// v5: the second publish re-uses the first one's packet id while that is still being handled - it is refused
    /// (PUBACK 0x91) and its payload pieces must be dropped, not fed to the first publish's reader
    pub dup: bool,
}

#[derive(Clone, Copy, Debug, PartialEq, Eq)]
pub enum REv {
    /// deliver the next k bytes (0 = all that is left)
    Deliver(u16),
    /// lazy reader: allow the next read() call
    Read,
}

pub struct Rd {
    cfg: RdCfg,
    conn: Conn,
    stream: Vec<u8>,
    payloads: Vec<Vec<u8>>,
    pos: usize,
    deliveries: Vec<usize>,
    reads: usize,
}

impl Rd {
    fn wit(&self, what: &str) -> String {
        format!(
            "{} reader={:?} min_chunk={} buffer={} byte_limit={} {what}",
            self.cfg.ep.label(),
            self.cfg.ep.read_mode,
            self.cfg.ep.min_chunk_size,
            self.cfg.ep.max_payload_buffer_size,
            self.cfg.ep.max_receive_size
        )
    }
    fn detail(&self) -> String {
        format!("sizes={:?} deliveries={:?} reads_allowed={} wire_out={:?} log={:?}", self.cfg.sizes, self.deliveries, self.reads, self.conn.out_short(), self.conn.log.render())
    }
    fn ready(&self) -> bool {
        self.conn.sink.borrow().is_some() && (self.cfg.ep.role == Role::Client || self.conn.log.count(|r| matches!(r, Rec::Handshake(s) if s == "accepted")) > 0)
    }
}

impl Scenario for Rd {
    type Cfg = RdCfg;
    type Ev = REv;

    fn build(cfg: &RdCfg) -> Pin<Box<dyn Future<Output = Self>>> {
        let cfg = cfg.clone();
        Box::pin(async move {
            let conn = start_endpoint(&cfg.ep, vec![], true).await;
            let ver = cfg.ep.ver;
            let mut stream = vec![];
            let mut payloads = vec![];
            for (i, n) in cfg.sizes.iter().enumerate() {
                // distinct byte per publish and position, all >= 0x80
                let p: Vec<u8> = (0..*n).map(|j| 0x80 + ((i * 37 + j * 5) % 120) as u8).collect();
                let pid = if cfg.dup { 1 } else { 1 + i as u16 };
                stream.extend(rf::encode(ver, &rf::publish(1, pid, "t", &p)));
                payloads.push(p);
            }
            if cfg.ep.role == Role::Server {
                stream.extend(rf::encode(ver, &Pkt::PingReq));
            }
            Rd { cfg, conn, stream, payloads, pos: 0, deliveries: vec![], reads: 0 }
        })
    }

    fn enabled(&self, q: bool) -> Vec<REv> {
        if !q || !self.ready() {
            return vec![];
        }
        let mut v = vec![];
        let left = self.stream.len() - self.pos;
        if left > 0 {
            if self.deliveries.len() < self.cfg.max_deliveries {
                for s in &self.cfg.steps {
                    if *s < left {
                        v.push(REv::Deliver(*s as u16));
                    }
                }
            }
            v.push(REv::Deliver(0));
        }
        if !self.conn.rgates.waiting().is_empty() {
            v.push(REv::Read);
        }
        v
    }

    fn apply(&mut self, ev: REv) {
        match ev {
            REv::Deliver(k) => {
                let left = self.stream.len() - self.pos;
                let n = if k == 0 { left } else { (k as usize).min(left) };
                let b = self.stream[self.pos..self.pos + n].to_vec();
                self.pos += n;
                self.deliveries.push(n);
                self.conn.send_raw(&b);
            }
            REv::Read => {
                self.reads += 1;
                let k = self.conn.rgates.waiting()[0];
                self.conn.rgates.open(k, GateOutcome::Ok);
            }
        }
    }

    fn check(&mut self, _q: bool) -> Result<(), Violation> {
        self.conn.pump();
        if !self.conn.log.stops().is_empty() {
            return Err(Violation::new("unexpected-stop", self.wit(""), format!("the connection ended: {:?}: {}", self.conn.log.stops(), self.detail())));
        }
        Ok(())
    }

    fn drain(&mut self) -> bool {
        // everything is delivered by the explorer (Deliver(0) is always offered); let a lazy reader finish
        if let Some(k) = self.conn.rgates.waiting().first() {
            self.reads += 1;
            self.conn.rgates.open(*k, GateOutcome::Ok);
            return true;
        }
        false
    }

    fn finish(&mut self) -> Result<Outcome, Violation> {
        self.check(true)?;
        if self.pos < self.stream.len() {
            return Ok(Outcome { obs: "stream not delivered".into(), nontrivial: false });
        }
        let log = self.conn.log.snapshot();
        let abandon = self.cfg.ep.read_mode == ReadMode::Abandon;
        // duplicate-id variant: the second publish is refused while the first exchange is open, and accepted like any
        // other once the first has been acknowledged - both are fine, each handler must see exactly its own bytes
        let n_enter_dup = log.iter().filter(|(_, r)| matches!(r, Rec::HEnter { .. })).count().clamp(1, 2);
        let payloads: Vec<Vec<u8>> = if self.cfg.dup { self.payloads[..n_enter_dup].to_vec() } else { self.payloads.clone() };
        for (i, want) in payloads.iter().enumerate() {
            // handler k = i-th HEnter
            let enter = log.iter().filter_map(|(_, r)| if let Rec::HEnter { k, size, pid, .. } = r { Some((*k, *size, *pid)) } else { None }).nth(i);
            let Some((k, size, pid)) = enter else {
                return Err(Violation::new("publish-not-announced", self.wit(""), format!("PUBLISH #{i} never reached the handler: {}", self.detail())));
            };
            let want_pid = if self.cfg.dup { 1 } else { 1 + i as u16 };
            if size as usize != want.len() || pid != want_pid {
                return Err(Violation::new("announced-size", self.wit(""), format!("PUBLISH #{i} announced with size {size} / id {pid}, sent {} / {}: {}", want.len(), 1 + i, self.detail())));
            }
            if abandon {
                continue;
            }
            let mut got: Vec<u8> = vec![];
            let mut err = None;
            for (_, r) in &log {
                if let Rec::HPayload { k: kk, bytes, err: e } = r {
                    if *kk == k {
                        got.extend_from_slice(bytes);
                        if e.is_some() {
                            err = e.clone();
                        }
                    }
                }
            }
            if let Some(e) = err {
                return Err(Violation::new("reader-error", self.wit(""), format!("reader of PUBLISH #{i} got error {e}: {}", self.detail())));
            }
            if got != *want {
                return Err(Violation::new(
                    "payload-differs",
                    self.wit(if got.len() != want.len() { "length" } else { "content" }),
                    format!("handler of PUBLISH #{i} read {} but {} was sent: {}", rf::hex(&got), rf::hex(want), self.detail()),
                ));
            }
        }
        let n_enter = log.iter().filter(|(_, r)| matches!(r, Rec::HEnter { .. })).count();
        if n_enter != payloads.len() {
            return Err(Violation::new("handler-count", self.wit(""), format!("{n_enter} handler invocations for {} publishes: {}", payloads.len(), self.detail())));
        }
        // framing survived: every QoS 1 publish acknowledged once, in order; the trailing PINGREQ answered
        let acks: Vec<u16> = self.conn.out.iter().filter_map(|(_, p)| if let Pkt::Ack { typ: 4, pid, .. } = p { Some(*pid) } else { None }).collect();
        let want_acks: Vec<u16> = if self.cfg.dup { vec![1, 1] } else { (1..=self.payloads.len() as u16).collect() };
        let reader_done = !abandon;
        if self.cfg.dup && reader_done {
            let codes: Vec<u8> = self.conn.out.iter().filter_map(|(_, p)| if let Pkt::Ack { typ: 4, pid: 1, code, .. } = p { Some(code.unwrap_or(0)) } else { None }).collect();
            let mut sorted = codes.clone();
            sorted.sort();
            let want_codes = if n_enter_dup == 1 { vec![0x00, 0x91] } else { vec![0x00, 0x00] };
            if sorted != want_codes {
                return Err(Violation::new("acks", self.wit("duplicate id"), format!("PUBACK codes for id 1 are {codes:x?} with {n_enter_dup} handler invocation(s), expected {want_codes:x?}: {}", self.detail())));
            }
        }
        if reader_done && acks != want_acks {
            return Err(Violation::new("acks", self.wit(""), format!("PUBACKs {acks:?}, expected {want_acks:?}: {}", self.detail())));
        }
        if self.cfg.ep.role == Role::Server && !self.conn.out.iter().any(|(_, p)| matches!(p, Pkt::PingResp)) {
            return Err(Violation::new("stream-desynchronised", self.wit(""), format!("the PINGREQ after the publishes was not answered: {}", self.detail())));
        }
        if let Some(e) = &self.conn.parse_err {
            return Err(Violation::new("wire-garbage", self.wit(""), format!("{e}: {}", self.detail())));
        }
        Ok(Outcome { obs: format!("{:?} reads={}", self.deliveries, self.reads), nontrivial: true })
    }
}

pub fn configs(full: bool) -> Vec<RdCfg> {
    let mut v = vec![];
    for (ver, role) in crate::c05::roles() {
        for read_mode in [ReadMode::All, ReadMode::Lazy, ReadMode::LateAll, ReadMode::Abandon] {
            for min_chunk in [0u32, 1, 4, 1024] {
                for buffer in [4usize, 32 * 1024] {
                    if !full && ((min_chunk == 1024 && buffer == 4) || (min_chunk == 1 && read_mode != ReadMode::Lazy) || (read_mode == ReadMode::LateAll && min_chunk == 1024)) {
                        continue;
                    }
                    let mut ep = EpCfg::new(ver, role);
                    ep.read_mode = read_mode;
                    ep.min_chunk_size = min_chunk;
                    ep.max_payload_buffer_size = buffer;
                    ep.handler_auto = true;
                    ep.max_receive = 16;
                    v.push(RdCfg { ep: ep.clone(), sizes: vec![12, 7], steps: if full { vec![1, 3, 6, 9] } else { vec![1, 6, 9] }, max_deliveries: if full { 6 } else { 4 }, dup: false });
                    // v5: a second publish with the id of the first, which is still being handled: refused, and its
                    // payload pieces must not reach the first publish's reader (seeded change C10_r5 kept the payload
                    // sender of a completely received publish in its slot)
                    if ver == Ver::V5 && role == Role::Server && matches!(read_mode, ReadMode::Lazy | ReadMode::LateAll) && min_chunk == 4 && buffer == 32 * 1024 {
                        v.push(RdCfg { ep: ep.clone(), sizes: vec![12, 7], steps: if full { vec![1, 3, 6, 9] } else { vec![1, 6, 9] }, max_deliveries: if full { 6 } else { 4 }, dup: true });
                    }
                    // servers: a byte limit smaller than the first publish (the one packet of slack): its
                    // remaining pieces must still be read and delivered
                    if role == Role::Server && read_mode != ReadMode::Abandon && (full || min_chunk == 4) {
                        ep.max_receive_size = 10;
                        v.push(RdCfg { ep, sizes: vec![12, 7], steps: if full { vec![1, 3, 6, 9] } else { vec![1, 6, 9] }, max_deliveries: if full { 6 } else { 4 }, dup: false });
                    }
                }
            }
        }
    }
    v
}

pub fn run_conn_part(ck: &mut Check, full: bool) {
    let ecfg = ExploreCfg { max_dev: 0, max_execs: if full { 20_000_000 } else { 2_000_000 }, ..Default::default() };
    for (i, c) in configs(full).iter().enumerate() {
        ck.explore::<Rd>("reader", i, c, &ecfg);
    }
}

pub fn trace(full: bool, idx: usize, choices: &[u16], script: Option<Vec<String>>, max_polls: u64) -> crate::simnet::ExecRecord {
    let cfgs = configs(full);
    let c = &cfgs[idx];
    println!("reader #{idx}: {} {:?} min_chunk={} buffer={}", c.ep.label(), c.ep.read_mode, c.ep.min_chunk_size, c.ep.max_payload_buffer_size);
    match script {
        Some(sc) => crate::simnet::run_script::<Rd>(c, &sc, max_polls),
        None => crate::simnet::run_one::<Rd>(c, choices, max_polls),
    }
}
