//! C10 (connection part): handler receives exactly the bytes sent for every fragmentation and reader pace.
use crate::check::Check;
use crate::inbound::In;
use crate::simnet::Violation;

pub fn run_conn_part(_ck: &mut Check, _full: bool) {
    // filled in below (Engine A)
}
pub fn final_check(_s: &In) -> Result<(), Violation> { Ok(()) }
