//! Outbound scenario shared by C05 (window), C13 (liveness), C06 (ack routing), C14 (QoS 2):
//! application tasks use the awaiting send APIs of the real sink; the harness is the peer.
#![allow(dead_code)]
use std::cell::RefCell;
use std::collections::VecDeque;
use std::future::Future;
use std::pin::Pin;
use std::rc::Rc;

use ntex_rt::JoinHandle;

use crate::refmqtt::{self as rf, PVal, Pkt, Ver};
use crate::simnet::*;
use crate::world::*;

#[derive(Clone, Copy, Debug, PartialEq, Eq, Hash)]
pub enum SK {
    Q0,
    Q1,
    /// n QoS 1 sends back to back ("send again immediately")
    Q1Loop(u8),
    /// QoS 1 with a caller-chosen packet id
    Q1Id(u16),
    /// QoS 1 publish whose properties add up to exactly 127 bytes (v5: a 124-byte Content Type; v3: plain publish): the
    /// Property Length prefix sits on a variable-byte-integer boundary
    Q1Prop127,
    /// QoS 1 / QoS 2 send whose future is polled once (the PUBLISH is written) and then dropped: the application gave up
    /// waiting (timeout, select); the peer's acknowledgement arrives for a send nobody awaits any more
    Q1Abandon,
    Q2Abandon,
    /// a streamed QoS 1 publish (2 bytes, one chunk) and an ordinary QoS 1 send whose futures are both created before
    /// either is polled, then polled together
    StreamJoin,
    /// a streamed QoS 1 publish whose payload handle the application drops at once while the send future is still
    /// awaited (parked on the window, say): the send must fail locally - and hand on the wake-up it was given
    StreamAbandon,
    /// two QoS 1 send futures created back to back and only then polled together (`join`): both are "awaiting
    /// sends" of one task, e.g. `join!(a.send_at_least_once(..), b.send_at_least_once(..))`
    Q1Join,
    /// QoS 2: obtain receipt, release and await completion
    Q2Rel,
    /// QoS 2: obtain receipt, drop it
    Q2Drop,
    /// QoS 2: obtain receipt and park it until the explorer releases / drops it
    Q2Hold,
    /// as Q2Hold with a caller-chosen packet id (the id stays in use until PUBCOMP)
    Q2HoldId(u16),
    Sub,
    Unsub,
    /// subscribe / unsubscribe with a caller-chosen packet id
    SubId(u16),
    UnsubId(u16),
    /// `sink.ready().await`
    Ready,
    /// QoS 1 with a payload larger than the peer's maximum packet size: must fail locally
    Q1Big,
    /// QoS 1 publish with a property the encoder must refuse (v5: 65536-byte content type; v3: as Q1LongTopic)
    Q1LongProp,
    /// a send whose encoding fails after a field larger than a buffer page has been written
    /// (v5: user properties of 60 000 and 66 000 bytes; v3 client: SUBSCRIBE with filters of 60 000 and 70 000 bytes; v3 server: as Q1LongTopic)
    HugeThenTooLong,
    /// QoS 0 publish with a 24-byte payload (fills a small write buffer: write back-pressure engages)
    Q0Fill,
    /// QoS 1 publish through the non-blocking API (publish_ack_cb + send_at_least_once_no_block)
    Q1NoBlock,
    /// ... with a caller-chosen packet id
    Q1NoBlockId(u16),
    /// over-size QoS 1 publish with a caller-chosen packet id (fails locally; the id must stay usable)
    Q1BigId(u16),
    /// subscribe with an over-long filter: must fail locally (encoder)
    SubBig,
    /// QoS 1 with a 65536-byte topic: must fail locally and leave no bytes
    Q1LongTopic,
    /// streamed publish: qos 0/1, declared size, chunk plan (0 = exact in one chunk, 1 = exact in two,
    /// 2 = second chunk one byte too long, 3 = first half then the stream handle is dropped)
    Stream { qos: u8, size: u8, plan: u8 },
}

/// A parked QoS 2 receipt (the library's `PublishReceived` type is not nameable from outside):
/// calling `rel` releases it, dropping the box drops the receipt.
pub struct Receipt {
    pub rel: Box<dyn FnOnce() -> Pin<Box<dyn Future<Output = String>>>>,
}

#[derive(Default)]
pub struct SenderSt {
    pub started: bool,
    pub handle: Option<JoinHandle<()>>,
    pub cancelled: bool,
    pub done: bool,
    /// result of each completed operation ("ok", "ok:<ack>", "err:<e>")
    pub results: Vec<String>,
    pub receipt: Option<Receipt>,
    pub receipt_ack: Option<String>,
    pub rel_started: bool,
    pub rel_result: Option<String>,
    pub rel_handle: Option<JoinHandle<()>>,
    /// streaming senders: number of chunks the explorer has released / waker of the waiting task
    pub chunks_allowed: usize,
    pub chunk_waker: Option<std::task::Waker>,
    pub chunks_wanted: usize,
    /// bytes of the chunks whose send() returned Ok
    pub accepted: Vec<u8>,
}

pub type App = Rc<RefCell<Vec<SenderSt>>>;

/// waits until the explorer has released chunk number `i` of sender `j`
struct ChunkGate {
    app: App,
    j: usize,
    i: usize,
}
impl Future for ChunkGate {
    type Output = ();
    fn poll(self: Pin<&mut Self>, cx: &mut std::task::Context<'_>) -> std::task::Poll<()> {
        let mut a = self.app.borrow_mut();
        let s = &mut a[self.j];
        s.chunks_wanted = s.chunks_wanted.max(self.i + 1);
        if s.chunks_allowed > self.i {
            std::task::Poll::Ready(())
        } else {
            s.chunk_waker = Some(cx.waker().clone());
            std::task::Poll::Pending
        }
    }
}

/// chunk plan -> chunks (bytes are 0xD0 + sender index, never a valid short packet header sequence)
pub fn plan_chunks(j: usize, size: u8, plan: u8) -> (Vec<Vec<u8>>, bool) {
    let b = 0xD0 + j as u8;
    let size = size as usize;
    match plan {
        0 => (vec![vec![b; size]], false),
        // 8: as 1 with the caller-chosen packet id 5; 9: as 1 with a topic the encoder must refuse
        1 | 8 | 9 => (vec![vec![b; size / 2], vec![b; size - size / 2]], false),
        2 => (vec![vec![b; size / 2], vec![b; size - size / 2 + 1]], false),
        _ => (vec![vec![b; size / 2]], true),
    }
}

fn tag(j: usize) -> u8 {
    b'0' + j as u8
}

async fn run_sender_v5(sink: ntex_mqtt::v5::MqttSink, kind: SK, j: usize, app: App) {
    use ntex_mqtt::v5::codec as c;
    let push = |s: String| app.borrow_mut()[j].results.push(s);
    let ackstr = |a: &c::PublishAck| format!("ok:{}:{:#x}:{}", a.packet_id, u8::from(a.reason_code), a.reason_string.as_ref().map(|s| s.to_string()).unwrap_or_default());
    match kind {
        SK::Q0 => {
            let r = sink.publish(bs("t")).send_at_most_once(by(&[tag(j)]));
            push(match r {
                Ok(()) => "ok".into(),
                Err(e) => format!("err:{e:?}"),
            });
        }
        SK::Q0Fill => {
            let r = sink.publish(bs("t")).send_at_most_once(by(&[tag(j); 24]));
            push(match r {
                Ok(()) => "ok".into(),
                Err(e) => format!("err:{e:?}"),
            });
        }
        SK::Q1LongTopic => {
            let r = sink.publish(bs(&"L".repeat(65_536))).send_at_least_once(by(&[tag(j)])).await;
            push(match &r {
                Ok(a) => ackstr(a),
                Err(e) => format!("err:{e:?}"),
            });
        }
        SK::HugeThenTooLong => {
            let r = sink
                .publish(bs("t"))
                .properties(|p| {
                    p.user_properties.push((bs("k"), bs(&"h".repeat(60_000))));
                    p.user_properties.push((bs("k2"), bs(&"H".repeat(66_000))));
                })
                .send_at_least_once(by(&[tag(j)]))
                .await;
            push(match &r {
                Ok(a) => ackstr(a),
                Err(e) => format!("err:{e:?}"),
            });
        }
        SK::Q1Prop127 => {
            let r = sink.publish(bs("t")).properties(|p| p.content_type = Some(bs(&"c".repeat(124)))).send_at_least_once(by(&[tag(j)])).await;
            push(match &r {
                Ok(a) => ackstr(a),
                Err(e) => format!("err:{e:?}"),
            });
        }
        SK::Q1LongProp => {
            let r = sink.publish(bs("t")).properties(|p| p.content_type = Some(bs(&"P".repeat(65_536)))).send_at_least_once(by(&[tag(j)])).await;
            push(match &r {
                Ok(a) => ackstr(a),
                Err(e) => format!("err:{e:?}"),
            });
        }
        SK::Stream { qos, size, plan } => {
            let (chunks, drop_after) = plan_chunks(j, size, plan);
            let topic = if plan == 9 { bs(&"L".repeat(65_536)) } else { bs(&format!("s{j}")) };
            if qos == 0 {
                match sink.publish(topic).stream_at_most_once(u32::from(size)) {
                    Err(e) => push(format!("err:{e:?}")),
                    Ok(pl) => {
                        push("ok".into());
                        for (i, c) in chunks.iter().enumerate() {
                            ChunkGate { app: app.clone(), j, i }.await;
                            match pl.send(by(c)).await {
                                Ok(()) => {
                                    app.borrow_mut()[j].accepted.extend_from_slice(c);
                                    push(format!("chunk-ok:{}", c.len()));
                                }
                                Err(e) => {
                                    push(format!("chunk-err:{e:?}"));
                                    break;
                                }
                            }
                        }
                        if drop_after {
                            ChunkGate { app: app.clone(), j, i: chunks.len() }.await;
                        }
                        drop(pl);
                    }
                }
            } else {
                let mut b = sink.publish(topic);
                if plan == 8 {
                    b = b.packet_id(5);
                }
                let (fut, pl) = b.stream_at_least_once(u32::from(size));
                let app2 = app.clone();
                let chunks2 = chunks.clone();
                let feeder = ntex_rt::spawn(async move {
                    for (i, c) in chunks2.iter().enumerate() {
                        ChunkGate { app: app2.clone(), j, i }.await;
                        match pl.send(by(c)).await {
                            Ok(()) => {
                                app2.borrow_mut()[j].accepted.extend_from_slice(c);
                                app2.borrow_mut()[j].results.push(format!("chunk-ok:{}", c.len()));
                            }
                            Err(e) => {
                                app2.borrow_mut()[j].results.push(format!("chunk-err:{e:?}"));
                                break;
                            }
                        }
                    }
                    if drop_after {
                        ChunkGate { app: app2.clone(), j, i: chunks2.len() }.await;
                    }
                    drop(pl);
                });
                let r = fut.await;
                push(match &r {
                    Ok(a) => ackstr(a),
                    Err(e) => format!("err:{e:?}"),
                });
                let _ = feeder;
            }
        }
        SK::Q1Big => {
            let r = sink.publish(bs("t")).send_at_least_once(by(&vec![tag(j); 300])).await;
            push(match &r {
                Ok(a) => ackstr(a),
                Err(e) => format!("err:{e:?}"),
            });
        }
        SK::Q1BigId(id) => {
            let r = sink.publish(bs("t")).packet_id(id).send_at_least_once(by(&vec![tag(j); 300])).await;
            push(match &r {
                Ok(a) => ackstr(a),
                Err(e) => format!("err:{e:?}"),
            });
        }
        SK::Q1NoBlock | SK::Q1NoBlockId(_) => {
            // the callback is the completion of this send: (id, false) = acknowledged, (id, true) = connection gone
            let app_cb = app.clone();
            sink.publish_ack_cb(move |ack, disconnected| {
                let id = ack.packet_id;
                if let Ok(mut a) = app_cb.try_borrow_mut() {
                    a[j].results.push(if disconnected { format!("err:cb-disconnected:{id}") } else { format!("ok:{id}:cb") });
                }
            });
            if sink.is_ready() {
                let mut b = sink.publish(bs("t"));
                if let SK::Q1NoBlockId(id) = kind {
                    b = b.packet_id(id);
                }
                let r = b.send_at_least_once_no_block(by(&[tag(j)]));
                push(match &r {
                    Ok(()) => "sent".into(),
                    Err(e) => format!("err:{e:?}"),
                });
            } else {
                push("not-ready".into());
            }
        }
        SK::SubBig => {
            let r = sink.subscribe(None).topic_filter(bs(&"x".repeat(70_000)), c::SubscriptionOptions::default()).send().await;
            push(match r {
                Ok(a) => format!("ok:{}", a.packet_id),
                Err(e) => format!("err:{e:?}"),
            });
        }
        SK::Q1Abandon | SK::Q2Abandon => {
            let first = if kind == SK::Q1Abandon {
                let mut fut = Box::pin(sink.publish(bs("t")).send_at_least_once(by(&[tag(j)])));
                std::future::poll_fn(|cx| std::task::Poll::Ready(fut.as_mut().poll(cx).is_ready())).await
            } else {
                let mut fut = Box::pin(sink.publish(bs("t")).send_exactly_once(by(&[tag(j)])));
                std::future::poll_fn(|cx| std::task::Poll::Ready(fut.as_mut().poll(cx).is_ready())).await
            };
            push(if first { "resolved-at-once".into() } else { "abandoned".into() });
        }
        SK::StreamAbandon => {
            // abandoned only while parked: with a free window the header is written when the future is created, and
            // what a payload handle dropped after that means is another matter (DESIGN 7.4) - the stream is then
            // completed in the ordinary way
            let parked = !sink.is_ready();
            let (f1, pl) = sink.publish(bs(&format!("s{j}"))).stream_at_least_once(2);
            let r1 = if parked {
                drop(pl);
                f1.await
            } else {
                let feeder = async move {
                    let r = pl.send(by(&[0xD0, 0xD1])).await;
                    drop(pl);
                    r
                };
                ntex_util::future::join(f1, feeder).await.0
            };
            push(if r1.is_ok() { "ok".into() } else { format!("err:{:?}", r1.err()) });
        }
        SK::StreamJoin => {
            let (f1, pl) = sink.publish(bs(&format!("s{j}"))).stream_at_least_once(2);
            let f2 = sink.publish(bs("t")).send_at_least_once(by(&[tag(j)]));
            let feeder = async move {
                let r = pl.send(by(&[0xD0, 0xD1])).await;
                drop(pl);
                r
            };
            let ((r1, r2), _r3) = ntex_util::future::join(ntex_util::future::join(f1, f2), feeder).await;
            push(if r1.is_ok() { "ok".into() } else { format!("err:{:?}", r1.err()) });
            push(if r2.is_ok() { "ok".into() } else { format!("err:{:?}", r2.err()) });
        }
        SK::Q1Join => {
            let f1 = sink.publish(bs("t")).send_at_least_once(by(&[tag(j)]));
            let f2 = sink.publish(bs("t")).send_at_least_once(by(&[tag(j)]));
            let (r1, r2) = ntex_util::future::join(f1, f2).await;
            for r in [r1, r2] {
                push(match &r {
                    Ok(_) => "ok".into(),
                    Err(e) => format!("err:{e:?}"),
                });
            }
        }
        SK::Q1 | SK::Q1Loop(_) | SK::Q1Id(_) => {
            let n = if let SK::Q1Loop(n) = kind { n } else { 1 };
            for _ in 0..n {
                let mut b = sink.publish(bs("t"));
                if let SK::Q1Id(id) = kind {
                    b = b.packet_id(id);
                }
                let r = b.send_at_least_once(by(&[tag(j)])).await;
                push(match &r {
                    Ok(a) => ackstr(a),
                    Err(e) => format!("err:{e:?}"),
                });
                if r.is_err() {
                    break;
                }
            }
        }
        SK::Q2Rel | SK::Q2Drop | SK::Q2Hold | SK::Q2HoldId(_) => {
            let mut b = sink.publish(bs("t"));
            if let SK::Q2HoldId(id) = kind {
                b = b.packet_id(id);
            }
            let r = b.send_exactly_once(by(&[tag(j)])).await;
            match r {
                Ok(rec) => {
                    let a = ackstr(rec.packet());
                    push(a.clone());
                    match kind {
                        SK::Q2Rel => {
                            app.borrow_mut()[j].rel_started = true;
                            let r = rec.release().await;
                            app.borrow_mut()[j].rel_result = Some(match r {
                                Ok(()) => "ok".into(),
                                Err(e) => format!("err:{e:?}"),
                            });
                        }
                        SK::Q2Drop => {
                            drop(rec);
                            app.borrow_mut()[j].rel_result = Some("dropped".into());
                        }
                        _ => {
                            let mut a2 = app.borrow_mut();
                            a2[j].receipt_ack = Some(a);
                            a2[j].receipt = Some(Receipt {
                                rel: Box::new(move || {
                                    Box::pin(async move {
                                        match rec.release().await {
                                            Ok(()) => "ok".to_string(),
                                            Err(e) => format!("err:{e:?}"),
                                        }
                                    })
                                }),
                            });
                        }
                    }
                }
                Err(e) => push(format!("err:{e:?}")),
            }
        }
        SK::SubId(id) => {
            let r = sink.subscribe(None).packet_id(id).topic_filter(bs(&format!("f{j}")), c::SubscriptionOptions::default()).send().await;
            push(match r {
                Ok(a) => format!("ok:{}:{:?}", a.packet_id, a.status.iter().map(|s| u8::from(*s)).collect::<Vec<_>>()),
                Err(e) => format!("err:{e:?}"),
            });
        }
        SK::UnsubId(id) => {
            let r = sink.unsubscribe().packet_id(id).topic_filter(bs(&format!("f{j}"))).send().await;
            push(match r {
                Ok(a) => format!("ok:{}:{:?}", a.packet_id, a.status.iter().map(|s| u8::from(*s)).collect::<Vec<_>>()),
                Err(e) => format!("err:{e:?}"),
            });
        }
        SK::Sub => {
            let r = sink.subscribe(None).topic_filter(bs(&format!("f{j}")), c::SubscriptionOptions::default()).send().await;
            push(match r {
                Ok(a) => format!("ok:{}:{:?}", a.packet_id, a.status.iter().map(|s| u8::from(*s)).collect::<Vec<_>>()),
                Err(e) => format!("err:{e:?}"),
            });
        }
        SK::Unsub => {
            let r = sink.unsubscribe().topic_filter(bs(&format!("f{j}"))).send().await;
            push(match r {
                Ok(a) => format!("ok:{}:{:?}", a.packet_id, a.status.iter().map(|s| u8::from(*s)).collect::<Vec<_>>()),
                Err(e) => format!("err:{e:?}"),
            });
        }
        SK::Ready => {
            let r = sink.ready().await;
            push(format!("ready:{r}"));
        }
    }
    app.borrow_mut()[j].done = true;
}

async fn run_sender_v3(sink: ntex_mqtt::v3::MqttSink, kind: SK, j: usize, app: App) {
    let push = |s: String| app.borrow_mut()[j].results.push(s);
    match kind {
        SK::Q0 => {
            let r = sink.publish(bs("t")).send_at_most_once(by(&[tag(j)]));
            push(match r {
                Ok(()) => "ok".into(),
                Err(e) => format!("err:{e:?}"),
            });
        }
        SK::Q0Fill => {
            let r = sink.publish(bs("t")).send_at_most_once(by(&[tag(j); 24]));
            push(match r {
                Ok(()) => "ok".into(),
                Err(e) => format!("err:{e:?}"),
            });
        }
        SK::Q1Prop127 => {
            let r = sink.publish(bs("t")).send_at_least_once(by(&[tag(j)])).await;
            push(match &r {
                Ok(()) => "ok".into(),
                Err(e) => format!("err:{e:?}"),
            });
        }
        SK::Q1LongTopic | SK::Q1LongProp => {
            let r = sink.publish(bs(&"L".repeat(65_536))).send_at_least_once(by(&[tag(j)])).await;
            push(match &r {
                Ok(()) => "ok".into(),
                Err(e) => format!("err:{e:?}"),
            });
        }
        SK::Stream { qos, size, plan } => {
            let (chunks, drop_after) = plan_chunks(j, size, plan);
            let topic = if plan == 9 { bs(&"L".repeat(65_536)) } else { bs(&format!("s{j}")) };
            if qos == 0 {
                match sink.publish(topic).stream_at_most_once(u32::from(size)) {
                    Err(e) => push(format!("err:{e:?}")),
                    Ok(pl) => {
                        push("ok".into());
                        for (i, c) in chunks.iter().enumerate() {
                            ChunkGate { app: app.clone(), j, i }.await;
                            match pl.send(by(c)).await {
                                Ok(()) => {
                                    app.borrow_mut()[j].accepted.extend_from_slice(c);
                                    push(format!("chunk-ok:{}", c.len()));
                                }
                                Err(e) => {
                                    push(format!("chunk-err:{e:?}"));
                                    break;
                                }
                            }
                        }
                        if drop_after {
                            ChunkGate { app: app.clone(), j, i: chunks.len() }.await;
                        }
                        drop(pl);
                    }
                }
            } else {
                let mut b = sink.publish(topic);
                if plan == 8 {
                    b = b.packet_id(5);
                }
                let (fut, pl) = b.stream_at_least_once(u32::from(size));
                let app2 = app.clone();
                let chunks2 = chunks.clone();
                let feeder = ntex_rt::spawn(async move {
                    for (i, c) in chunks2.iter().enumerate() {
                        ChunkGate { app: app2.clone(), j, i }.await;
                        match pl.send(by(c)).await {
                            Ok(()) => {
                                app2.borrow_mut()[j].accepted.extend_from_slice(c);
                                app2.borrow_mut()[j].results.push(format!("chunk-ok:{}", c.len()));
                            }
                            Err(e) => {
                                app2.borrow_mut()[j].results.push(format!("chunk-err:{e:?}"));
                                break;
                            }
                        }
                    }
                    if drop_after {
                        ChunkGate { app: app2.clone(), j, i: chunks2.len() }.await;
                    }
                    drop(pl);
                });
                let r = fut.await;
                push(match &r {
                    Ok(()) => "ok".into(),
                    Err(e) => format!("err:{e:?}"),
                });
                let _ = feeder;
            }
        }
        SK::Q1Big => {
            let r = sink.publish(bs("t")).send_at_least_once(by(&vec![tag(j); 300])).await;
            push(match &r {
                Ok(()) => "ok".into(),
                Err(e) => format!("err:{e:?}"),
            });
        }
        SK::Q1BigId(id) => {
            let r = sink.publish(bs("t")).packet_id(id).send_at_least_once(by(&vec![tag(j); 300])).await;
            push(match &r {
                Ok(()) => "ok".into(),
                Err(e) => format!("err:{e:?}"),
            });
        }
        SK::Q1NoBlock | SK::Q1NoBlockId(_) => {
            // the callback is the completion of this send: (id, false) = acknowledged, (id, true) = connection gone
            let app_cb = app.clone();
            sink.publish_ack_cb(move |id, disconnected| {
                if let Ok(mut a) = app_cb.try_borrow_mut() {
                    a[j].results.push(if disconnected { format!("err:cb-disconnected:{id}") } else { format!("ok:{id}:cb") });
                }
            });
            if sink.is_ready() {
                let mut b = sink.publish(bs("t"));
                if let SK::Q1NoBlockId(id) = kind {
                    b = b.packet_id(id);
                }
                let r = b.send_at_least_once_no_block(by(&[tag(j)]));
                push(match &r {
                    Ok(()) => "sent".into(),
                    Err(e) => format!("err:{e:?}"),
                });
            } else {
                push("not-ready".into());
            }
        }
        SK::HugeThenTooLong => {
            let r = sink.subscribe().topic_filter(bs(&"y".repeat(60_000)), ntex_mqtt::QoS::AtMostOnce).topic_filter(bs(&"x".repeat(70_000)), ntex_mqtt::QoS::AtMostOnce).send().await;
            push(match r {
                Ok(a) => format!("ok:{a:?}"),
                Err(e) => format!("err:{e:?}"),
            });
        }
        SK::SubBig => {
            let r = sink.subscribe().topic_filter(bs(&"x".repeat(70_000)), ntex_mqtt::QoS::AtMostOnce).send().await;
            push(match r {
                Ok(a) => format!("ok:{a:?}"),
                Err(e) => format!("err:{e:?}"),
            });
        }
        SK::Q1Abandon | SK::Q2Abandon => {
            let first = if kind == SK::Q1Abandon {
                let mut fut = Box::pin(sink.publish(bs("t")).send_at_least_once(by(&[tag(j)])));
                std::future::poll_fn(|cx| std::task::Poll::Ready(fut.as_mut().poll(cx).is_ready())).await
            } else {
                let mut fut = Box::pin(sink.publish(bs("t")).send_exactly_once(by(&[tag(j)])));
                std::future::poll_fn(|cx| std::task::Poll::Ready(fut.as_mut().poll(cx).is_ready())).await
            };
            push(if first { "resolved-at-once".into() } else { "abandoned".into() });
        }
        SK::StreamAbandon => {
            // abandoned only while parked: with a free window the header is written when the future is created, and
            // what a payload handle dropped after that means is another matter (DESIGN 7.4) - the stream is then
            // completed in the ordinary way
            let parked = !sink.is_ready();
            let (f1, pl) = sink.publish(bs(&format!("s{j}"))).stream_at_least_once(2);
            let r1 = if parked {
                drop(pl);
                f1.await
            } else {
                let feeder = async move {
                    let r = pl.send(by(&[0xD0, 0xD1])).await;
                    drop(pl);
                    r
                };
                ntex_util::future::join(f1, feeder).await.0
            };
            push(if r1.is_ok() { "ok".into() } else { format!("err:{:?}", r1.err()) });
        }
        SK::StreamJoin => {
            let (f1, pl) = sink.publish(bs(&format!("s{j}"))).stream_at_least_once(2);
            let f2 = sink.publish(bs("t")).send_at_least_once(by(&[tag(j)]));
            let feeder = async move {
                let r = pl.send(by(&[0xD0, 0xD1])).await;
                drop(pl);
                r
            };
            let ((r1, r2), _r3) = ntex_util::future::join(ntex_util::future::join(f1, f2), feeder).await;
            push(if r1.is_ok() { "ok".into() } else { format!("err:{:?}", r1.err()) });
            push(if r2.is_ok() { "ok".into() } else { format!("err:{:?}", r2.err()) });
        }
        SK::Q1Join => {
            let f1 = sink.publish(bs("t")).send_at_least_once(by(&[tag(j)]));
            let f2 = sink.publish(bs("t")).send_at_least_once(by(&[tag(j)]));
            let (r1, r2) = ntex_util::future::join(f1, f2).await;
            for r in [r1, r2] {
                push(match &r {
                    Ok(_) => "ok".into(),
                    Err(e) => format!("err:{e:?}"),
                });
            }
        }
        SK::Q1 | SK::Q1Loop(_) | SK::Q1Id(_) => {
            let n = if let SK::Q1Loop(n) = kind { n } else { 1 };
            for _ in 0..n {
                let mut b = sink.publish(bs("t"));
                if let SK::Q1Id(id) = kind {
                    b = b.packet_id(id);
                }
                let r = b.send_at_least_once(by(&[tag(j)])).await;
                push(match &r {
                    Ok(()) => "ok".into(),
                    Err(e) => format!("err:{e:?}"),
                });
                if r.is_err() {
                    break;
                }
            }
        }
        SK::Q2Rel | SK::Q2Drop | SK::Q2Hold | SK::Q2HoldId(_) => {
            let mut b = sink.publish(bs("t"));
            if let SK::Q2HoldId(id) = kind {
                b = b.packet_id(id);
            }
            let r = b.send_exactly_once(by(&[tag(j)])).await;
            match r {
                Ok(rec) => {
                    push("ok".into());
                    match kind {
                        SK::Q2Rel => {
                            app.borrow_mut()[j].rel_started = true;
                            let r = rec.release().await;
                            app.borrow_mut()[j].rel_result = Some(match r {
                                Ok(()) => "ok".into(),
                                Err(e) => format!("err:{e:?}"),
                            });
                        }
                        SK::Q2Drop => {
                            drop(rec);
                            app.borrow_mut()[j].rel_result = Some("dropped".into());
                        }
                        _ => {
                            let mut a2 = app.borrow_mut();
                            a2[j].receipt_ack = Some("ok".into());
                            a2[j].receipt = Some(Receipt {
                                rel: Box::new(move || {
                                    Box::pin(async move {
                                        match rec.release().await {
                                            Ok(()) => "ok".to_string(),
                                            Err(e) => format!("err:{e:?}"),
                                        }
                                    })
                                }),
                            });
                        }
                    }
                }
                Err(e) => push(format!("err:{e:?}")),
            }
        }
        SK::SubId(id) => {
            let r = sink.subscribe().packet_id(id).topic_filter(bs(&format!("f{j}")), ntex_mqtt::QoS::AtMostOnce).send().await;
            push(match r {
                Ok(a) => format!("ok:{a:?}"),
                Err(e) => format!("err:{e:?}"),
            });
        }
        SK::UnsubId(id) => {
            let r = sink.unsubscribe().packet_id(id).topic_filter(bs(&format!("f{j}"))).send().await;
            push(match r {
                Ok(()) => "ok".into(),
                Err(e) => format!("err:{e:?}"),
            });
        }
        SK::Sub => {
            let r = sink.subscribe().topic_filter(bs(&format!("f{j}")), ntex_mqtt::QoS::AtMostOnce).send().await;
            push(match r {
                Ok(a) => format!("ok:{a:?}"),
                Err(e) => format!("err:{e:?}"),
            });
        }
        SK::Unsub => {
            let r = sink.unsubscribe().topic_filter(bs(&format!("f{j}"))).send().await;
            push(match r {
                Ok(()) => "ok".into(),
                Err(e) => format!("err:{e:?}"),
            });
        }
        SK::Ready => {
            let r = sink.ready().await;
            push(format!("ready:{r}"));
        }
    }
    app.borrow_mut()[j].done = true;
}

/// Spawn the application task for sender `j`.
pub fn start_sender(sink: &Sink, kind: SK, j: usize, app: App) {
    let h = match sink.clone() {
        Sink::V5(s) => ntex_rt::spawn(run_sender_v5(s, kind, j, app.clone())),
        Sink::V3(s) => ntex_rt::spawn(run_sender_v3(s, kind, j, app.clone())),
    };
    let mut a = app.borrow_mut();
    a[j].started = true;
    a[j].handle = Some(h);
}

// ---------------------------------------------------------------------------

/// What the explorer lets the peer write.
#[derive(Clone, Debug, PartialEq, Eq)]
pub enum PeerMode {
    /// acknowledge the oldest unacknowledged packet with the correct type
    Correct,
    /// any ack type x any id from the alphabet, at most `len` peer packets (C06)
    Hostile { ids: Vec<u16>, len: u8 },
}

#[derive(Clone, Debug)]
pub struct OutCfg {
    pub ep: EpCfg,
    pub cap: u16,
    pub senders: Vec<SK>,
    pub cancels: u8,
    pub batch: bool,
    /// number of window toggles (close/open) the explorer may inject
    pub bp: u8,
    pub peer: PeerMode,
    /// bitmask of oracle clauses that are judged (others are only logged)
    pub judge: u32,
    /// completed exchanges performed before the explored part (non-initial state)
    pub prologue: u8,
    /// peer's Maximum Packet Size (0 = none): v5 CONNECT / CONNACK property, v3 handshake option
    pub peer_max_packet: u32,
    /// number of inbound request packets the explorer may inject (C08)
    pub inbound: u8,
    /// the application may close the sink at any point (C08)
    pub may_close: bool,
    /// the peer may (once) send something that ends the connection on an error path: undecodable bytes,
    /// a protocol-violating packet, a DISCONNECT (C08)
    pub inbound_faults: bool,
    /// C05 only: send futures may also be dropped after their packet was written (awaiting the acknowledgement);
    /// the slot stays occupied until the peer's final acknowledgement, so this is a safety-only variant
    /// (an abandoned QoS 2 exchange holds its slot for ever, which the liveness oracle must not judge)
    pub cancel_inflight: bool,
}

pub const J_WINDOW: u32 = 1;
pub const J_LIVENESS: u32 = 2;
pub const J_ROUTING: u32 = 4;
pub const J_QOS2: u32 = 8;
pub const J_WIRE: u32 = 16;
/// packet ids on the wire only (part of J_ROUTING; for sender sets whose acknowledgements the routing oracle does not attribute)
pub const J_IDS: u32 = 32;

#[derive(Clone, Copy, Debug, PartialEq, Eq)]
pub enum Ev {
    Start(u8),
    /// correct peer: acknowledge the oldest pending packet
    Ack,
    /// correct peer: acknowledge n pending packets in one write
    AckBatch(u8),
    Cancel(u8),
    Win(bool),
    Release(u8),
    DropReceipt(u8),
    /// hostile peer: write ack of type (4 PUBACK,5 PUBREC,7 PUBCOMP,9 SUBACK,11 UNSUBACK) with id
    Peer(u8, u16),
    /// release the next payload chunk of streaming sender j
    Chunk(u8),
    /// inbound PINGREQ (server) / QoS 1 PUBLISH with an immediately completing handler: the dispatcher writes a response
    Inbound(u8),
    /// application closes the sink
    Close,
}

/// A packet the endpoint wrote that still expects something from the correct peer.
#[derive(Clone, Debug, PartialEq, Eq)]
pub struct Pending {
    pub typ: u8, // 3 publish q1, 32 publish q2, 6 pubrel, 8 sub, 10 unsub
    pub pid: u16,
    pub sender: Option<usize>,
}

pub struct Out {
    /// sender j (Q1Id) shared its lifetime with another Q1Id sender using the same id
    pub id_overlap: Vec<bool>,
    pub cfg: OutCfg,
    pub conn: Conn,
    pub app: App,
    pub seen: usize, // packets of conn.out already classified
    pub pending: VecDeque<Pending>,
    /// final acks the peer has written (for PUBLISH packets)
    pub pub_final_acked: usize,
    pub pubs_on_wire: usize,
    pub per_sender_wire: Vec<usize>,
    pub per_sender_acked: Vec<usize>,
    pub window_open: bool,
    pub bp_left: u8,
    pub cancels_left: u8,
    pub peer_sent: u8,
    pub max_outstanding: usize,
    pub parked_seen: bool,
    pub drained: bool,
    pub hostile_bad: bool,
    /// every publish packet id seen on the wire while outstanding
    pub ids_outstanding: Vec<u16>,
    pub pubrel_seen: Vec<u16>,
    pub pubcomp_sent: Vec<u16>,
    pub pubrec_sent: Vec<u16>,
    pub acks_sent: Vec<(u8, u16)>,
    pub wire_pub_ids: Vec<(u16, u8, Option<usize>)>,
    pub prologue_left: u8,
    // --- reference queue model for ack routing (C06) ---
    /// sends awaiting their first acknowledgement, in wire order: (expected ack type, id, sender)
    pub main_q: VecDeque<(u8, u16, Option<usize>)>,
    /// QoS 2 sends whose PUBREC was delivered, awaiting PUBCOMP, in PUBREC order
    pub rel_q: VecDeque<(u16, Option<usize>)>,
    /// step at which the peer wrote an acknowledgement the model calls incorrect
    pub bad_ack: Option<(u64, String)>,
    /// number of "ok" results every sender had when the incorrect ack was written
    pub ok_at_bad: Vec<usize>,
    /// execution left the judged domain (e.g. PUBCOMP before PUBREL): outcome is not judged
    pub unjudged: Option<String>,
    /// correct acks the peer wrote: (sender, type, id)
    pub good_acks: Vec<(Option<usize>, u8, u16)>,
    /// ids of exchanges written and not yet finished by their final acknowledgement: (id, final ack type)
    pub open_ids: Vec<(u16, u8)>,
    /// first packet written with an id that was still open
    pub dup_seen: Option<String>,
    pub inbound_sent: u8,
    pub fault_sent: bool,
    pub closed_by_app: bool,
}

impl Out {
    fn sink(&self) -> Option<Sink> {
        self.conn.sink()
    }

    fn sender_of(p: &Pkt) -> Option<usize> {
        match p {
            Pkt::Publish { payload, .. } if payload.len() == 1 && payload[0] >= b'0' => Some((payload[0] - b'0') as usize),
            Pkt::Subscribe { filters, .. } => filters.first().and_then(|(f, _)| f.strip_prefix('f')).and_then(|s| s.parse().ok()),
            Pkt::Unsubscribe { filters, .. } => filters.first().and_then(|f| f.strip_prefix('f')).and_then(|s| s.parse().ok()),
            _ => None,
        }
    }

    /// classify newly parsed outbound packets
    fn absorb(&mut self) {
        self.conn.pump();
        while self.seen < self.conn.out.len() {
            let p = self.conn.out[self.seen].1.clone();
            self.seen += 1;
            let s = Self::sender_of(&p);
            match &p {
                Pkt::Publish { qos, pid, .. } if *qos > 0 => {
                    self.pubs_on_wire += 1;
                    if let Some(j) = s {
                        if j < self.per_sender_wire.len() {
                            self.per_sender_wire[j] += 1;
                        }
                    }
                    self.note_open(pid.unwrap_or(0), if *qos == 1 { 4 } else { 7 }, &p);
                    self.wire_pub_ids.push((pid.unwrap_or(0), *qos, s));
                    self.main_q.push_back((if *qos == 1 { 4 } else { 5 }, pid.unwrap_or(0), s));
                    self.pending.push_back(Pending { typ: if *qos == 1 { 3 } else { 32 }, pid: pid.unwrap_or(0), sender: s });
                }
                Pkt::Publish { .. } => {
                    if let Some(j) = s {
                        if j < self.per_sender_wire.len() {
                            self.per_sender_wire[j] += 1;
                            self.per_sender_acked[j] += 1;
                        }
                    }
                }
                Pkt::Ack { typ: 6, pid, .. } => {
                    self.pubrel_seen.push(*pid);
                    self.pending.push_back(Pending { typ: 6, pid: *pid, sender: None });
                }
                Pkt::Subscribe { pid, .. } => {
                    if let Some(j) = s {
                        if j < self.per_sender_wire.len() {
                            self.per_sender_wire[j] += 1;
                        }
                    }
                    self.note_open(*pid, 9, &p);
                    self.main_q.push_back((9, *pid, s));
                    self.pending.push_back(Pending { typ: 8, pid: *pid, sender: s })
                }
                Pkt::Unsubscribe { pid, .. } => {
                    if let Some(j) = s {
                        if j < self.per_sender_wire.len() {
                            self.per_sender_wire[j] += 1;
                        }
                    }
                    self.note_open(*pid, 11, &p);
                    self.main_q.push_back((11, *pid, s));
                    self.pending.push_back(Pending { typ: 10, pid: *pid, sender: s })
                }
                _ => {}
            }
        }
    }

    /// an exchange with packet id `id` has been written; it stays open until the peer has sent its final acknowledgement
    fn note_open(&mut self, id: u16, final_ack: u8, p: &Pkt) {
        if id != 0 && self.dup_seen.is_none() {
            if let Some((_, f)) = self.open_ids.iter().find(|(x, _)| *x == id) {
                self.dup_seen = Some(format!("{} written at step {} while an exchange with the same id (final acknowledgement type {f}) was outstanding", p.short(), step()));
            }
        }
        self.open_ids.push((id, final_ack));
    }

    fn note_closed(&mut self, id: u16, t: u8) {
        if let Some(pos) = self.open_ids.iter().position(|(x, f)| *x == id && *f == t) {
            self.open_ids.remove(pos);
        }
    }

    fn ack_packet(&self, p: &Pending) -> Pkt {
        let v5 = self.conn.ver() == Ver::V5;
        match p.typ {
            3 => rf::ack(4, p.pid),
            32 => rf::ack(5, p.pid),
            6 => rf::ack(7, p.pid),
            8 => Pkt::SubAck { pid: p.pid, props: vec![], codes: vec![0] },
            _ => Pkt::UnsubAck { pid: p.pid, props: vec![], codes: if v5 { vec![0] } else { vec![] } },
        }
    }

    fn note_ack_sent(&mut self, p: &Pending) {
        match p.typ {
            3 | 6 => {
                self.pub_final_acked += 1;
                if p.typ == 6 {
                    self.pubcomp_sent.push(p.pid);
                }
            }
            32 => self.pubrec_sent.push(p.pid),
            _ => {}
        }
        // attribute completion to the sender
        let sender = if p.typ == 6 { self.wire_pub_ids.iter().rev().find(|(id, q, _)| *id == p.pid && *q == 2).and_then(|x| x.2) } else { p.sender };
        if p.typ != 32 {
            if let Some(j) = sender {
                if j < self.per_sender_acked.len() {
                    self.per_sender_acked[j] += 1;
                }
            }
        }
    }

    fn correct_ack(&mut self, n: usize) {
        let mut bytes = Vec::new();
        for _ in 0..n {
            if let Some(p) = self.pending.pop_front() {
                let pk = self.ack_packet(&p);
                let (t, id) = match &pk {
                    Pkt::Ack { typ, pid, .. } => (*typ, *pid),
                    Pkt::SubAck { pid, .. } => (9, *pid),
                    Pkt::UnsubAck { pid, .. } => (11, *pid),
                    _ => (0, 0),
                };
                self.model_ack(t, id);
                bytes.extend_from_slice(&rf::encode(self.conn.ver(), &pk));
                self.note_ack_sent(&p);
            }
        }
        self.conn.send_raw(&bytes);
    }

    /// Reference model: is acknowledgement (type, id) the answer to the oldest outstanding send of its stream?
    pub fn model_ack(&mut self, t: u8, id: u16) {
        if self.bad_ack.is_some() || self.unjudged.is_some() {
            return;
        }
        let oks = |s: &Self| s.app.borrow().iter().map(|x| x.results.iter().filter(|r| r.starts_with("ok")).count() + usize::from(x.rel_result.as_deref() == Some("ok"))).collect::<Vec<_>>();
        if t == 7 {
            // released QoS 2 exchanges are completed by id (the application may release in any order)
            match self.rel_q.iter().position(|(hid, _)| *hid == id) {
                Some(pos) => {
                    if !self.pubrel_seen.contains(&id) {
                        self.unjudged = Some(format!("PUBCOMP({id}) written before the endpoint released the message"));
                        return;
                    }
                    let (_, snd) = self.rel_q.remove(pos).unwrap();
                    self.good_acks.push((snd, 7, id));
                    self.note_closed(id, 7);
                }
                None => {
                    self.ok_at_bad = oks(self);
                    self.bad_ack = Some((step(), format!("PUBCOMP({id}) with release set {:?}", self.rel_q)));
                }
            }
        } else {
            match self.main_q.front().copied() {
                Some((ht, hid, snd)) if ht == t && hid == id => {
                    self.main_q.pop_front();
                    if t == 5 {
                        self.rel_q.push_back((id, snd));
                    }
                    self.good_acks.push((snd, t, id));
                    self.note_closed(id, t);
                }
                _ => {
                    self.ok_at_bad = oks(self);
                    self.bad_ack = Some((step(), format!("ack type {t} id {id} with send queue {:?}", self.main_q)));
                }
            }
        }
    }

    fn rwit(&self, what: &str) -> String {
        format!("{} {what}", self.cfg.ep.label())
    }

    /// C06: acknowledgements reach the right sender, or the connection fails cleanly.
    fn judge_routing(&self) -> Result<(), Violation> {
        if let Some(why) = &self.unjudged {
            let _ = why;
            return Ok(());
        }
        let stops = self.conn.log.stops();
        let a = self.app.borrow();
        // ids on the wire: non-zero, pairwise distinct while outstanding
        {
            let mut open: Vec<u16> = Vec::new();
            let mut acked_main: std::collections::VecDeque<(u8, u16)> = self.good_acks.iter().map(|g| (g.1, g.2)).collect();
            let _ = &mut acked_main;
            for (_, p) in &self.conn.out {
                let id = match p {
                    Pkt::Publish { qos, pid, .. } if *qos > 0 => pid.unwrap_or(0),
                    Pkt::Subscribe { pid, .. } | Pkt::Unsubscribe { pid, .. } => *pid,
                    _ => continue,
                };
                if id == 0 {
                    return Err(Violation::new("zero-packet-id", self.rwit("send"), format!("a send was written with packet id 0: {}", self.detail())));
                }
                open.push(id);
            }
            // concurrently outstanding = written and not yet answered by its own final acknowledgement
            // (PUBACK; PUBCOMP for QoS 2 - a PUBREC does not free the id; SUBACK; UNSUBACK), tracked online in absorb()
            let _ = open;
            if let Some(d) = &self.dup_seen {
                return Err(Violation::new("duplicate-packet-id", self.rwit("send"), format!("{d}: {}", self.detail())));
            }
        }
        match &self.bad_ack {
            Some((st, what)) => {
                // no send may complete successfully after the incorrect acknowledgement
                for (j, s) in a.iter().enumerate() {
                    let oks = s.results.iter().filter(|r| r.starts_with("ok")).count() + usize::from(s.rel_result.as_deref() == Some("ok"));
                    if oks > self.ok_at_bad.get(j).copied().unwrap_or(0) {
                        return Err(Violation::new(
                            "completed-by-wrong-ack",
                            self.rwit(&format!("{:?}", self.cfg.senders[j])),
                            format!("sender {j} completed successfully after the peer wrote an incorrect acknowledgement ({what} at step {st}): {}", self.detail()),
                        ));
                    }
                }
                let protos = stops.iter().filter(|x| x.starts_with("Stop:Proto")).count();
                if stops.len() != 1 || protos != 1 {
                    return Err(Violation::new(
                        "bad-ack-not-fatal",
                        self.rwit("incorrect ack"),
                        format!("incorrect acknowledgement ({what}) must end the connection with exactly one protocol-error Stop, control saw {stops:?}: {}", self.detail()),
                    ));
                }
            }
            None => {
                // every correct ack completes exactly its sender with the ack's id
                if !stops.is_empty() {
                    return Err(Violation::new(
                        "correct-peer-stopped",
                        self.rwit("correct acks"),
                        format!("all acknowledgements were correct and in order but the connection ended: {stops:?}: {}", self.detail()),
                    ));
                }
                for (snd, t, id) in &self.good_acks {
                    let Some(j) = snd else { continue };
                    let s = &a[*j];
                    if s.cancelled {
                        continue;
                    }
                    let ok = match t {
                        7 => s.rel_result.as_deref() == Some("ok") || s.rel_result.as_deref() == Some("dropped") || !s.rel_started,
                        _ => s.results.iter().any(|r| r.starts_with("ok") && (self.conn.ver() == Ver::V3 || r.starts_with(&format!("ok:{id}:")) || *t == 9 || *t == 11)),
                    };
                    if !ok {
                        return Err(Violation::new(
                            "ack-not-delivered",
                            self.rwit(&format!("{:?}", self.cfg.senders[*j])),
                            format!("peer correctly acknowledged id {id} (type {t}) of sender {j} but the send did not complete with it: {}", self.detail()),
                        ));
                    }
                }
                // a send that the peer has not acknowledged must not have completed successfully
                for (j, s) in a.iter().enumerate() {
                    let acked = self.good_acks.iter().filter(|g| g.0 == Some(j) && g.1 != 7).count();
                    let oks = s.results.iter().filter(|r| r.starts_with("ok")).count();
                    let needs_ack = !matches!(self.cfg.senders[j], SK::Q0 | SK::Ready);
                    if needs_ack && oks > acked {
                        return Err(Violation::new(
                            "completed-without-ack",
                            self.rwit(&format!("{:?}", self.cfg.senders[j])),
                            format!("sender {j} completed {oks} sends successfully but the peer acknowledged only {acked}: {}", self.detail()),
                        ));
                    }
                }
            }
        }
        Ok(())
    }

    /// C08: everything written to the wire is a sequence of complete well-formed packets.
    fn judge_wire(&self) -> Result<(), Violation> {
        let a = self.app.borrow();
        let ended = !self.conn.log.stops().is_empty() || self.conn.done() || self.sink().is_some_and(|s| !s.is_open());
        // 1. the byte stream parses; a trailing partial packet is only allowed when the transport was aborted
        //    and only as the truncated streamed PUBLISH
        let tail = self.conn.unparsed();
        if !tail.is_empty() {
            let is_stream_pub = tail[0] & 0xf0 == 0x30 && tail.windows(2).any(|w| w[0] == b's' && w[1].is_ascii_digit());
            if !ended || !is_stream_pub {
                return Err(Violation::new(
                    "partial-packet",
                    self.rwit(if ended { "after end" } else { "connection alive" }),
                    format!("wire output ends with an incomplete packet {} (connection ended: {ended}): {}", rf::hex(tail), self.detail()),
                ));
            }
        }
        // 2. per operation: Ok <-> exactly one packet, Err <-> none
        for (j, s) in a.iter().enumerate() {
            if !s.started {
                continue;
            }
            let kind = self.cfg.senders[j];
            let on_wire = self
                .conn
                .out
                .iter()
                .filter(|(_, p)| match (kind, p) {
                    (SK::Stream { .. }, Pkt::Publish { topic, .. }) => *topic == format!("s{j}"),
                    (SK::Sub | SK::SubBig | SK::SubId(_), Pkt::Subscribe { filters, .. }) => filters.first().is_some_and(|f| f.0 == format!("f{j}") || f.0.len() > 1000),
                    (SK::Unsub | SK::UnsubId(_), Pkt::Unsubscribe { filters, .. }) => filters.first().is_some_and(|f| *f == format!("f{j}")),
                    (SK::Stream { .. } | SK::Sub | SK::SubBig | SK::Unsub | SK::SubId(_) | SK::UnsubId(_), _) => false,
                    (_, Pkt::Publish { payload, topic, .. }) => (payload.first() == Some(&(b'0' + j as u8)) && topic == "t") || topic.len() > 1000,
                    _ => false,
                })
                .count();
            // a truncated streamed publish at the tail also counts as "written"
            let in_tail = matches!(kind, SK::Stream { .. }) && !tail.is_empty() && tail.windows(2).any(|w| w[0] == b's' && w[1] == b'0' + j as u8);
            // the non-blocking API reports "sent" when the packet was handed over ("ok" is its later callback)
            let first_ok = s.results.iter().filter(|r| if matches!(kind, SK::Q1NoBlock | SK::Q1NoBlockId(_)) { r.as_str() == "sent" } else { r.starts_with("ok") }).count();
            let first_err = s.results.iter().any(|r| r.starts_with("err"));
            let written = on_wire + usize::from(in_tail);
            match kind {
                SK::Ready => {}
                SK::Q0 | SK::Q1NoBlock | SK::Q1NoBlockId(_) | SK::Stream { qos: 0, .. } => {
                    // synchronous sends: result known
                    if first_ok != written && !(first_ok > written && ended) {
                        return Err(Violation::new(
                            "result-vs-wire",
                            self.rwit(&format!("{kind:?}").split([' ', '{', '(']).next().unwrap_or("").to_string()),
                            format!("sender {j} ({kind:?}) reported {first_ok} successful sends but {written} of its packets are on the wire: {}", self.detail()),
                        ));
                    }
                    if first_err && first_ok == 0 && written > 0 {
                        return Err(Violation::new("failed-send-left-bytes", self.rwit("send"), format!("sender {j} ({kind:?}) returned an error but its packet is on the wire: {}", self.detail())));
                    }
                }
                _ => {
                    // awaiting sends: an error before anything was written must leave nothing; a send that
                    // was written may still fail later (disconnect) - then exactly one packet
                    if written > 1 + usize::from(matches!(kind, SK::Q1Loop(_))) {
                        return Err(Violation::new("duplicate-packet", self.rwit("send"), format!("sender {j} ({kind:?}) has {written} packets on the wire: {}", self.detail())));
                    }
                    let local_err = s.results.iter().any(|r| r.starts_with("err:Encode") || r.starts_with("err:PacketIdInUse"));
                    if local_err && written > 0 && !matches!(kind, SK::Q1Loop(_)) {
                        return Err(Violation::new(
                            "failed-send-left-bytes",
                            self.rwit(&format!("{}", s.results.iter().find(|r| r.starts_with("err")).map(|r| r.split('(').next().unwrap_or("")).unwrap_or(""))),
                            format!("sender {j} ({kind:?}) failed locally ({:?}) but its packet is on the wire: {}", s.results, self.detail()),
                        ));
                    }
                }
            }
            // 3. streamed payload = concatenation of accepted chunks, declared size honoured
            if let SK::Stream { size, .. } = kind {
                for (_, p) in &self.conn.out {
                    if let Pkt::Publish { topic, payload, .. } = p {
                        if *topic == format!("s{j}") {
                            if payload.len() != size as usize {
                                return Err(Violation::new("stream-size", self.rwit("streamed publish"), format!("streamed PUBLISH of sender {j} declares {size} bytes but carries {}: {}", payload.len(), self.detail())));
                            }
                            if *payload != s.accepted {
                                return Err(Violation::new(
                                    "stream-content",
                                    self.rwit("streamed publish"),
                                    format!("payload on the wire {} differs from the accepted chunks {} of sender {j} (another packet interleaved?): {}", rf::hex(payload), rf::hex(&s.accepted), self.detail()),
                                ));
                            }
                        }
                    }
                }
                // a complete payload on the wire that is shorter than declared cannot parse; an incomplete stream
                // must have aborted the transport
                let complete = self.conn.out.iter().any(|(_, p)| matches!(p, Pkt::Publish { topic, .. } if *topic == format!("s{j}")));
                let started_stream = s.results.first().is_some_and(|r| r.starts_with("ok")) || in_tail;
                if started_stream && !complete && !in_tail && !ended && s.done {
                    return Err(Violation::new("stream-lost", self.rwit("streamed publish"), format!("streamed PUBLISH of sender {j} vanished: {}", self.detail())));
                }
                if in_tail && !ended {
                    return Err(Violation::new("short-payload-continued", self.rwit("streamed publish"), format!("stream of sender {j} ended short but the connection continues: {}", self.detail())));
                }
            }
        }
        Ok(())
    }

    /// C14: concurrent QoS 2 sends complete independently.
    fn judge_qos2(&self) -> Result<(), Violation> {
        let a = self.app.borrow();
        let stops = self.conn.log.stops();
        if !stops.is_empty() {
            return Err(Violation::new("qos2-stopped", self.rwit("correct peer"), format!("connection ended: {stops:?}: {}", self.detail())));
        }
        for (j, s) in a.iter().enumerate() {
            if !matches!(self.cfg.senders[j], SK::Q2Hold | SK::Q2HoldId(_) | SK::Q2Rel | SK::Q2Drop) || !s.started {
                continue;
            }
            // id this sender's PUBLISH carried
            let Some(id) = self.wire_pub_ids.iter().find(|w| w.2 == Some(j)).map(|w| w.0) else { continue };
            let rec_sent = self.pubrec_sent.contains(&id);
            if rec_sent {
                // resolved with its own PUBREC
                let ok = s.results.first().is_some_and(|r| r.starts_with("ok") && (self.conn.ver() == Ver::V3 || r.starts_with(&format!("ok:{id}:"))));
                if !ok {
                    return Err(Violation::new("qos2-wrong-receipt", self.rwit("send_exactly_once"), format!("sender {j} (id {id}) got {:?} after its PUBREC was delivered: {}", s.results, self.detail())));
                }
            } else if !s.results.is_empty() {
                return Err(Violation::new("qos2-wrong-receipt", self.rwit("send_exactly_once early"), format!("sender {j} (id {id}) completed {:?} before its PUBREC was written: {}", s.results, self.detail())));
            }
            // a release refused locally by the encoder (a streamed publish of another task was open at that moment):
            // this exchange is abandoned by that failure and not judged further - the others are
            if s.rel_result.as_deref().is_some_and(|r| r.starts_with("err:Encode")) {
                continue;
            }
            let released = s.rel_started || s.rel_result.is_some();
            let rels = self.pubrel_seen.iter().filter(|x| **x == id).count();
            // (caller-chosen ids may be re-used by a later exchange once the earlier one is complete: count per id
            // the exchanges that were released)
            let same_id_released = a
                .iter()
                .enumerate()
                .filter(|(k, o)| *k != j && (o.rel_started || o.rel_result.is_some()) && self.wire_pub_ids.iter().any(|w| w.2 == Some(*k) && w.0 == id && w.1 == 2))
                .count();
            let rels = rels.saturating_sub(same_id_released);
            if released && rels != 1 {
                return Err(Violation::new("qos2-pubrel-count", self.rwit("release/drop"), format!("receipt of sender {j} (id {id}) was released or dropped but {rels} PUBREL({id}) packets were written: {}", self.detail())));
            }
            if !released && rels != 0 {
                return Err(Violation::new("qos2-pubrel-count", self.rwit("held receipt"), format!("PUBREL({id}) written although sender {j} still holds its receipt: {}", self.detail())));
            }
            if s.rel_started {
                let comp = self.pubcomp_sent.contains(&id);
                match (comp, s.rel_result.as_deref()) {
                    (true, Some("ok")) | (false, None) => {}
                    (c, r) => {
                        return Err(Violation::new(
                            "qos2-release-result",
                            self.rwit(&format!("release result {}", r.unwrap_or("pending").split('(').next().unwrap_or(""))),
                            format!("release() of sender {j} (id {id}) is {r:?} while PUBCOMP({id}) delivered = {c}: {}", self.detail()),
                        ));
                    }
                }
            }
        }
        Ok(())
    }

    pub fn outstanding_pubs(&self) -> usize {
        self.pubs_on_wire - self.pub_final_acked
    }

    fn running(&self, j: usize) -> bool {
        let a = self.app.borrow();
        a[j].started && !a[j].done && !a[j].cancelled
    }

    /// running senders whose current operation has not put a packet on the wire
    fn parked(&self) -> Vec<usize> {
        let a = self.app.borrow();
        (0..a.len())
            .filter(|j| {
                let s = &a[*j];
                if !(s.started && !s.done && !s.cancelled) {
                    return false;
                }
                match self.cfg.senders[*j] {
                    SK::Ready => true,
                    SK::Q2Rel => s.results.is_empty() && self.per_sender_wire[*j] == 0,
                    _ => self.per_sender_wire[*j] == s.results.len(),
                }
            })
            .collect()
    }

    fn witness(&self) -> String {
        let mut kinds: Vec<String> = self.cfg.senders.iter().map(|k| format!("{k:?}")).collect();
        kinds.sort();
        kinds.dedup();
        format!(
            "{} kinds={:?} cancelled={} backpressure={}",
            self.cfg.ep.label(),
            kinds,
            self.cancels_left < self.cfg.cancels,
            self.bp_left < self.cfg.bp
        )
    }

    pub fn detail(&self) -> String {
        let a = self.app.borrow();
        let res: Vec<String> = a.iter().enumerate().map(|(j, s)| format!("S{j}:{}{}{:?}", if s.done { "done" } else if s.cancelled { "cancelled" } else if s.started { "running" } else { "idle" }, if s.rel_result.is_some() { "+rel" } else { "" }, s.results)).collect();
        format!("wire_out={:?} senders={res:?} pending={:?} stops={:?}", self.conn.out_short(), self.pending, self.conn.log.stops())
    }
}

pub fn connect_props_for(cfg: &OutCfg) -> rf::Props {
    if cfg.ep.ver == Ver::V5 && cfg.ep.role == Role::Server {
        let mut p = vec![(0x21, PVal::U16(cfg.cap))];
        if cfg.peer_max_packet != 0 {
            p.push((0x27, PVal::U32(cfg.peer_max_packet)));
        }
        p
    } else {
        vec![]
    }
}

pub fn ep_for(mut ep: EpCfg, cap: u16, bp: bool) -> EpCfg {
    match (ep.ver, ep.role) {
        (Ver::V5, Role::Server) => ep.max_send = 16,
        (Ver::V3, Role::Server) => ep.max_send = cap,
        (Ver::V5, Role::Client) => ep.client_connack_props = vec![(0x21, PVal::U16(cap))],
        (Ver::V3, Role::Client) => ep.max_send = cap,
    }
    if bp {
        ep.write_buf = Some((16, 4, 16));
    }
    ep.handler_auto = true;
    ep
}

impl Scenario for Out {
    type Cfg = OutCfg;
    type Ev = Ev;

    fn build(cfg: &OutCfg) -> Pin<Box<dyn Future<Output = Self>>> {
        let cfg = cfg.clone();
        Box::pin(async move {
            let conn = start_endpoint(&cfg.ep, connect_props_for(&cfg), true).await;
            let n = cfg.senders.len();
            let app: App = Rc::new(RefCell::new((0..n).map(|_| SenderSt::default()).collect()));
            Out {
                id_overlap: vec![false; n],
                conn,
                app,
                seen: 0,
                pending: VecDeque::new(),
                pub_final_acked: 0,
                pubs_on_wire: 0,
                per_sender_wire: vec![0; n],
                per_sender_acked: vec![0; n],
                window_open: true,
                bp_left: cfg.bp,
                cancels_left: cfg.cancels,
                peer_sent: 0,
                max_outstanding: 0,
                parked_seen: false,
                drained: false,
                hostile_bad: false,
                ids_outstanding: Vec::new(),
                pubrel_seen: Vec::new(),
                pubcomp_sent: Vec::new(),
                pubrec_sent: Vec::new(),
                acks_sent: Vec::new(),
                wire_pub_ids: Vec::new(),
                prologue_left: cfg.prologue,
                main_q: VecDeque::new(),
                rel_q: VecDeque::new(),
                bad_ack: None,
                ok_at_bad: Vec::new(),
                unjudged: None,
                good_acks: Vec::new(),
                open_ids: Vec::new(),
                dup_seen: None,
                inbound_sent: 0,
                fault_sent: false,
                closed_by_app: false,
                cfg,
            }
        })
    }

    fn enabled(&self, _q: bool) -> Vec<Ev> {
        let mut v = Vec::new();
        if self.sink().is_none() || self.conn.done() {
            return v;
        }
        let a = self.app.borrow();
        // start: senders of the same kind start in index order (symmetry)
        for j in 0..a.len() {
            if !a[j].started {
                let earlier_same = (0..j).any(|i| self.cfg.senders[i] == self.cfg.senders[j] && !a[i].started);
                if !earlier_same {
                    v.push(Ev::Start(j as u8));
                }
            }
        }
        match &self.cfg.peer {
            PeerMode::Correct => {
                if !self.pending.is_empty() {
                    v.push(Ev::Ack);
                    if self.cfg.batch && self.pending.len() >= 2 {
                        v.push(Ev::AckBatch(self.pending.len().min(3) as u8));
                    }
                }
            }
            PeerMode::Hostile { ids, len } => {
                // judged at quiescent points only: everything the endpoint encoded is on the wire, so the
                // reference queue is exactly the endpoint's view
                if self.peer_sent < *len && _q {
                    let types: &[u8] = if self.cfg.ep.role == Role::Client { &[4, 5, 7, 9, 11] } else { &[4, 5, 7] };
                    for t in types {
                        for id in ids {
                            v.push(Ev::Peer(*t, *id));
                        }
                    }
                }
            }
        }
        for j in 0..a.len() {
            if a[j].receipt.is_some() {
                v.push(Ev::Release(j as u8));
                v.push(Ev::DropReceipt(j as u8));
            }
            if a[j].chunks_wanted > a[j].chunks_allowed {
                v.push(Ev::Chunk(j as u8));
            }
        }
        if self.inbound_sent < self.cfg.inbound {
            if self.cfg.ep.role == Role::Server {
                v.push(Ev::Inbound(0));
            }
            v.push(Ev::Inbound(1));
        }
        if self.cfg.inbound_faults && !self.fault_sent {
            v.push(Ev::Inbound(2));
            v.push(Ev::Inbound(3));
            v.push(Ev::Inbound(4));
        }
        if self.cfg.may_close && !self.closed_by_app {
            v.push(Ev::Close);
        }
        if self.cancels_left > 0 {
            // the statement speaks about dropped *waiting* futures: only tasks whose current
            // operation has not put a packet on the wire are cancelled. For QoS 2 senders that is
            // only known exactly at quiescent points (an encoded packet may still sit in the write
            // buffer), and abandoning an exchange half way is outside the property.
            drop(a);
            let parked = self.parked();
            let a = self.app.borrow();
            if self.cfg.cancel_inflight {
                // any running sender task, whatever it is waiting for
                for j in 0..a.len() {
                    if a[j].started && !a[j].done && !a[j].cancelled && a[j].handle.is_some() && !parked.contains(&j) {
                        v.push(Ev::Cancel(j as u8));
                    }
                }
            }
            for j in parked {
                let q2 = matches!(self.cfg.senders[j], SK::Q2Rel | SK::Q2Drop | SK::Q2Hold | SK::Q2HoldId(_));
                // with the write side blocked an encoded PUBLISH may sit in the write buffer: not on the wire yet,
                // but the exchange has begun
                if a[j].handle.is_some() && (!q2 || (_q && self.window_open)) {
                    v.push(Ev::Cancel(j as u8));
                }
            }
            if self.bp_left > 0 || !self.window_open {
                v.push(Ev::Win(!self.window_open));
            }
            return v;
        }
        if self.bp_left > 0 || !self.window_open {
            v.push(Ev::Win(!self.window_open));
        }
        v
    }

    fn apply(&mut self, ev: Ev) {
        match ev {
            Ev::Start(j) => {
                let j = j as usize;
                let sink = self.sink().unwrap();
                let kind = self.cfg.senders[j];
                let app = self.app.clone();
                let h = match sink {
                    Sink::V5(s) => ntex_rt::spawn(run_sender_v5(s, kind, j, app)),
                    Sink::V3(s) => ntex_rt::spawn(run_sender_v3(s, kind, j, app)),
                };
                let mut a = self.app.borrow_mut();
                a[j].started = true;
                a[j].handle = Some(h);
                let chosen = |k: SK| match k {
                    SK::Q1Id(id) | SK::SubId(id) | SK::UnsubId(id) | SK::Q2HoldId(id) | SK::Q1NoBlockId(id) => Some(id),
                    SK::Stream { plan: 8, .. } => Some(5),
                    _ => None,
                };
                if let Some(id) = chosen(kind) {
                    for k in 0..a.len() {
                        // a QoS 2 exchange keeps its id until PUBCOMP, long after send_exactly_once() has returned
                        let q2_open = matches!(self.cfg.senders[k], SK::Q2HoldId(_)) && a[k].started && !a[k].cancelled && !self.pubcomp_sent.contains(&id) && !a[k].results.iter().any(|r| r.starts_with("err"));
                        // a send through the non-blocking API is over when its callback has run, not when the call returns
                        let nb_open = matches!(self.cfg.senders[k], SK::Q1NoBlockId(_)) && a[k].results.iter().any(|r| r == "sent") && !a[k].results.iter().any(|r| r.starts_with("ok:") || r.starts_with("err:cb"));
                        if k != j && chosen(self.cfg.senders[k]) == Some(id) && ((a[k].started && !a[k].done) || q2_open || nb_open) {
                            self.id_overlap[j] = true;
                            self.id_overlap[k] = true;
                        }
                    }
                }
            }
            Ev::Ack => self.correct_ack(1),
            Ev::AckBatch(n) => self.correct_ack(n as usize),
            Ev::Cancel(j) => {
                self.cancels_left -= 1;
                let h = {
                    let mut a = self.app.borrow_mut();
                    a[j as usize].cancelled = true;
                    a[j as usize].handle.take()
                };
                if let Some(h) = h {
                    h.cancel();
                }
            }
            Ev::Win(open) => {
                if !open {
                    self.bp_left = self.bp_left.saturating_sub(1);
                }
                self.window_open = open;
                self.conn.window(open);
            }
            Ev::Release(j) => {
                let j = j as usize;
                let rec = self.app.borrow_mut()[j].receipt.take();
                let app = self.app.clone();
                app.borrow_mut()[j].rel_started = true;
                let app2 = app.clone();
                let h = ntex_rt::spawn(async move {
                    let Some(rec) = rec else { return };
                    let r = (rec.rel)().await;
                    app2.borrow_mut()[j].rel_result = Some(r);
                });
                app.borrow_mut()[j].rel_handle = Some(h);
            }
            Ev::DropReceipt(j) => {
                let rec = self.app.borrow_mut()[j as usize].receipt.take();
                drop(rec);
                self.app.borrow_mut()[j as usize].rel_result = Some("dropped".into());
            }
            Ev::Chunk(j) => {
                let w = {
                    let mut a = self.app.borrow_mut();
                    a[j as usize].chunks_allowed += 1;
                    a[j as usize].chunk_waker.take()
                };
                if let Some(w) = w {
                    w.wake();
                }
            }
            Ev::Inbound(k) if k >= 2 => {
                self.fault_sent = true;
                match k {
                    // undecodable bytes (reserved packet type 0)
                    2 => self.conn.send_raw(&[0x00, 0x00]),
                    // a well-formed packet that violates the protocol: a second CONNECT / a CONNACK out of place
                    3 => {
                        if self.cfg.ep.role == Role::Server {
                            let ver = self.conn.ver();
                            self.conn.send(&rf::connect(ver, "again", 0, vec![]));
                        } else {
                            self.conn.send(&Pkt::ConnAck { session_present: false, code: 0, props: vec![] });
                        }
                    }
                    _ => self.conn.send(&Pkt::Disconnect { code: None, props: None }),
                }
            }
            Ev::Inbound(k) => {
                self.inbound_sent += 1;
                if k == 0 {
                    self.conn.send(&Pkt::PingReq);
                } else {
                    let id = 900 + u16::from(self.inbound_sent);
                    self.conn.send(&rf::publish(1, id, "in", &[0xEE]));
                }
            }
            Ev::Close => {
                self.closed_by_app = true;
                if let Some(s) = self.sink() {
                    s.close();
                }
            }
            Ev::Peer(t, id) => {
                self.peer_sent += 1;
                let v5 = self.conn.ver() == Ver::V5;
                let p = match t {
                    9 => Pkt::SubAck { pid: id, props: vec![], codes: vec![0] },
                    11 => Pkt::UnsubAck { pid: id, props: vec![], codes: if v5 { vec![0] } else { vec![] } },
                    t => rf::ack(t, id),
                };
                self.acks_sent.push((t, id));
                self.model_ack(t, id);
                self.conn.send(&p);
            }
        }
    }

    fn check(&mut self, quiescent: bool) -> Result<(), Violation> {
        self.absorb();
        if let Some(e) = &self.conn.parse_err {
            if self.cfg.judge & J_WIRE != 0 {
                return Err(Violation::new("wire-garbage", self.witness(), e.clone()));
            }
        }
        let o = self.outstanding_pubs();
        self.max_outstanding = self.max_outstanding.max(o);
        if self.cfg.judge & J_WINDOW != 0 && o > self.cfg.cap as usize {
            return Err(Violation::new(
                "window-overshoot",
                self.witness(),
                format!("{o} QoS>0 PUBLISH packets outstanding with send limit {}: {}", self.cfg.cap, self.detail()),
            ));
        }
        if quiescent {
            let parked = self.parked();
            if !parked.is_empty() {
                self.parked_seen = true;
            }
            if let Some(s) = self.sink() {
                if self.cfg.judge & J_WINDOW != 0 && self.window_open && !self.conn.done() && s.is_open() {
                    let total_out = self.pending.iter().filter(|p| p.typ != 6).count() + self.pending.iter().filter(|p| p.typ == 6).count();
                    let _ = total_out;
                }
            }
        }
        Ok(())
    }

    fn drain(&mut self) -> bool {
        if !self.window_open {
            self.window_open = true;
            self.conn.window(true);
            return true;
        }
        if self.cfg.peer == PeerMode::Correct && !self.pending.is_empty() && !self.conn.done() {
            self.correct_ack(1);
            return true;
        }
        // streamed sends: the application delivers every chunk it still owes
        let w = {
            let mut a = self.app.borrow_mut();
            let j = (0..a.len()).find(|j| a[*j].chunks_wanted > a[*j].chunks_allowed);
            j.map(|j| {
                a[j].chunks_allowed += 1;
                a[j].chunk_waker.take()
            })
        };
        if let Some(w) = w {
            if let Some(w) = w {
                w.wake();
            }
            return true;
        }
        false
    }

    fn finish(&mut self) -> Result<Outcome, Violation> {
        self.absorb();
        let stops = self.conn.log.stops();
        let healthy = stops.is_empty() && !self.conn.done();
        if self.cfg.judge & J_LIVENESS != 0 && self.cfg.peer == PeerMode::Correct {
            if !healthy {
                return Err(Violation::new(
                    "unexpected-stop",
                    self.witness(),
                    format!("connection ended although the peer behaved correctly: {}", self.detail()),
                ));
            }
            let a = self.app.borrow();
            for (j, s) in a.iter().enumerate() {
                if s.started && !s.cancelled && !s.done {
                    return Err(Violation::new(
                        "lost-wakeup",
                        self.witness(),
                        format!("sender {j} ({:?}) never completed although the peer acknowledged everything: {}", self.cfg.senders[j], self.detail()),
                    ));
                }
                // sends that are meant to fail locally (C06 converse family)
                // "packet id in use" is only a legitimate answer if another send with the same caller-chosen id
                // (that really went out) was outstanding at some time during this sender's life
                // a send attempted while a streamed publish is open is refused by design
                let during_stream = self.cfg.senders.iter().any(|k| matches!(k, SK::Stream { plan, .. } if *plan != 9)) && s.results.iter().all(|r| !r.starts_with("err") || r.contains("ExpectPayload"));
                // a streamed publish whose header the encoder must refuse (plan 9), or whose caller-chosen id is taken (plan 8)
                let bad_stream = matches!(self.cfg.senders[j], SK::Stream { plan: 9, .. })
                    || (matches!(self.cfg.senders[j], SK::Stream { plan: 8, .. }) && self.id_overlap[j] && s.results.iter().all(|r| !r.starts_with("err") || r.contains("PacketIdInUse") || r.contains("StreamingCancelled")));
                let expected_local_failure = during_stream
                    || bad_stream
                    || (self.cfg.senders[j] == SK::StreamAbandon && s.results.iter().all(|r| !r.starts_with("err") || r.contains("StreamingCancelled")))
                    || matches!(self.cfg.senders[j], SK::Q1Big | SK::Q1BigId(_) | SK::SubBig | SK::HugeThenTooLong)
                    || (matches!(self.cfg.senders[j], SK::Q1Id(_) | SK::SubId(_) | SK::UnsubId(_) | SK::Q2HoldId(_) | SK::Q1NoBlockId(_)) && self.id_overlap[j] && s.results.iter().all(|r| !r.starts_with("err") || r.contains("PacketIdInUse")));
                if s.started && !s.cancelled && !expected_local_failure && s.results.iter().any(|r| r.starts_with("err")) {
                    return Err(Violation::new(
                        "send-failed",
                        self.witness(),
                        format!("sender {j} ({:?}) failed on a healthy connection: {}", self.cfg.senders[j], self.detail()),
                    ));
                }
            }
        }
        if self.cfg.judge & J_ROUTING != 0 {
            self.judge_routing()?;
        } else if self.cfg.judge & J_IDS != 0 && self.unjudged.is_none() {
            if let Some(d) = &self.dup_seen {
                return Err(Violation::new("duplicate-packet-id", self.rwit("send"), format!("{d}: {}", self.detail())));
            }
        }
        if self.cfg.judge & J_QOS2 != 0 {
            self.judge_qos2()?;
        }
        if self.cfg.judge & J_WIRE != 0 {
            self.judge_wire()?;
        }
        let a = self.app.borrow();
        let obs = format!(
            "max_out={} out={:?} res={:?} stops={:?}",
            self.max_outstanding,
            self.conn.out_short(),
            a.iter().map(|s| (s.done, s.cancelled, s.results.clone(), s.rel_result.clone())).collect::<Vec<_>>(),
            stops
        );
        Ok(Outcome { obs, nontrivial: self.parked_seen || self.pubrec_sent.len() >= 2 || self.peer_sent > 0 || self.good_acks.len() >= 2 })
    }
}
