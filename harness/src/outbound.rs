//! Outbound scenario shared by C05 (window), C13 (liveness), C06 (ack routing), C14 (QoS 2):
//! application tasks use the awaiting send APIs of the real sink; the harness is the peer.
#![allow(dead_code)]
use std::cell::RefCell;
use std::collections::VecDeque;
use std::future::Future;
use std::pin::Pin;
use std::rc::Rc;

use ntex_rt::JoinHandle;

use crate::refmqtt::{self as rf, PVal, Pkt, Ver};
use crate::simnet::*;
use crate::world::*;

#[derive(Clone, Copy, Debug, PartialEq, Eq, Hash)]
pub enum SK {
    Q0,
    Q1,
    /// n QoS 1 sends back to back ("send again immediately")
    Q1Loop(u8),
    /// QoS 1 with a caller-chosen packet id
    Q1Id(u16),
    /// QoS 2: obtain receipt, release and await completion
    Q2Rel,
    /// QoS 2: obtain receipt, drop it
    Q2Drop,
    /// QoS 2: obtain receipt and park it until the explorer releases / drops it
    Q2Hold,
    Sub,
    Unsub,
    /// `sink.ready().await`
    Ready,
}

/// A parked QoS 2 receipt (the library's `PublishReceived` type is not nameable from outside):
/// calling `rel` releases it, dropping the box drops the receipt.
pub struct Receipt {
    pub rel: Box<dyn FnOnce() -> Pin<Box<dyn Future<Output = String>>>>,
}

#[derive(Default)]
pub struct SenderSt {
    pub started: bool,
    pub handle: Option<JoinHandle<()>>,
    pub cancelled: bool,
    pub done: bool,
    /// result of each completed operation ("ok", "ok:<ack>", "err:<e>")
    pub results: Vec<String>,
    pub receipt: Option<Receipt>,
    pub receipt_ack: Option<String>,
    pub rel_started: bool,
    pub rel_result: Option<String>,
    pub rel_handle: Option<JoinHandle<()>>,
}

pub type App = Rc<RefCell<Vec<SenderSt>>>;

fn tag(j: usize) -> u8 {
    b'0' + j as u8
}

async fn run_sender_v5(sink: ntex_mqtt::v5::MqttSink, kind: SK, j: usize, app: App) {
    use ntex_mqtt::v5::codec as c;
    let push = |s: String| app.borrow_mut()[j].results.push(s);
    let ackstr = |a: &c::PublishAck| format!("ok:{}:{:#x}:{}", a.packet_id, u8::from(a.reason_code), a.reason_string.as_ref().map(|s| s.to_string()).unwrap_or_default());
    match kind {
        SK::Q0 => {
            let r = sink.publish(bs("t")).send_at_most_once(by(&[tag(j)]));
            push(match r {
                Ok(()) => "ok".into(),
                Err(e) => format!("err:{e:?}"),
            });
        }
        SK::Q1 | SK::Q1Loop(_) | SK::Q1Id(_) => {
            let n = if let SK::Q1Loop(n) = kind { n } else { 1 };
            for _ in 0..n {
                let mut b = sink.publish(bs("t"));
                if let SK::Q1Id(id) = kind {
                    b = b.packet_id(id);
                }
                let r = b.send_at_least_once(by(&[tag(j)])).await;
                push(match &r {
                    Ok(a) => ackstr(a),
                    Err(e) => format!("err:{e:?}"),
                });
                if r.is_err() {
                    break;
                }
            }
        }
        SK::Q2Rel | SK::Q2Drop | SK::Q2Hold => {
            let r = sink.publish(bs("t")).send_exactly_once(by(&[tag(j)])).await;
            match r {
                Ok(rec) => {
                    let a = ackstr(rec.packet());
                    push(a.clone());
                    match kind {
                        SK::Q2Rel => {
                            let r = rec.release().await;
                            app.borrow_mut()[j].rel_result = Some(match r {
                                Ok(()) => "ok".into(),
                                Err(e) => format!("err:{e:?}"),
                            });
                        }
                        SK::Q2Drop => drop(rec),
                        _ => {
                            let mut a2 = app.borrow_mut();
                            a2[j].receipt_ack = Some(a);
                            a2[j].receipt = Some(Receipt {
                                rel: Box::new(move || {
                                    Box::pin(async move {
                                        match rec.release().await {
                                            Ok(()) => "ok".to_string(),
                                            Err(e) => format!("err:{e:?}"),
                                        }
                                    })
                                }),
                            });
                        }
                    }
                }
                Err(e) => push(format!("err:{e:?}")),
            }
        }
        SK::Sub => {
            let r = sink.subscribe(None).topic_filter(bs(&format!("f{j}")), c::SubscriptionOptions::default()).send().await;
            push(match r {
                Ok(a) => format!("ok:{}:{:?}", a.packet_id, a.status.iter().map(|s| u8::from(*s)).collect::<Vec<_>>()),
                Err(e) => format!("err:{e:?}"),
            });
        }
        SK::Unsub => {
            let r = sink.unsubscribe().topic_filter(bs(&format!("f{j}"))).send().await;
            push(match r {
                Ok(a) => format!("ok:{}:{:?}", a.packet_id, a.status.iter().map(|s| u8::from(*s)).collect::<Vec<_>>()),
                Err(e) => format!("err:{e:?}"),
            });
        }
        SK::Ready => {
            let r = sink.ready().await;
            push(format!("ready:{r}"));
        }
    }
    app.borrow_mut()[j].done = true;
}

async fn run_sender_v3(sink: ntex_mqtt::v3::MqttSink, kind: SK, j: usize, app: App) {
    let push = |s: String| app.borrow_mut()[j].results.push(s);
    match kind {
        SK::Q0 => {
            let r = sink.publish(bs("t")).send_at_most_once(by(&[tag(j)]));
            push(match r {
                Ok(()) => "ok".into(),
                Err(e) => format!("err:{e:?}"),
            });
        }
        SK::Q1 | SK::Q1Loop(_) | SK::Q1Id(_) => {
            let n = if let SK::Q1Loop(n) = kind { n } else { 1 };
            for _ in 0..n {
                let mut b = sink.publish(bs("t"));
                if let SK::Q1Id(id) = kind {
                    b = b.packet_id(id);
                }
                let r = b.send_at_least_once(by(&[tag(j)])).await;
                push(match &r {
                    Ok(()) => "ok".into(),
                    Err(e) => format!("err:{e:?}"),
                });
                if r.is_err() {
                    break;
                }
            }
        }
        SK::Q2Rel | SK::Q2Drop | SK::Q2Hold => {
            let r = sink.publish(bs("t")).send_exactly_once(by(&[tag(j)])).await;
            match r {
                Ok(rec) => {
                    push("ok".into());
                    match kind {
                        SK::Q2Rel => {
                            let r = rec.release().await;
                            app.borrow_mut()[j].rel_result = Some(match r {
                                Ok(()) => "ok".into(),
                                Err(e) => format!("err:{e:?}"),
                            });
                        }
                        SK::Q2Drop => drop(rec),
                        _ => {
                            let mut a2 = app.borrow_mut();
                            a2[j].receipt_ack = Some("ok".into());
                            a2[j].receipt = Some(Receipt {
                                rel: Box::new(move || {
                                    Box::pin(async move {
                                        match rec.release().await {
                                            Ok(()) => "ok".to_string(),
                                            Err(e) => format!("err:{e:?}"),
                                        }
                                    })
                                }),
                            });
                        }
                    }
                }
                Err(e) => push(format!("err:{e:?}")),
            }
        }
        SK::Sub => {
            let r = sink.subscribe().topic_filter(bs(&format!("f{j}")), ntex_mqtt::QoS::AtMostOnce).send().await;
            push(match r {
                Ok(a) => format!("ok:{a:?}"),
                Err(e) => format!("err:{e:?}"),
            });
        }
        SK::Unsub => {
            let r = sink.unsubscribe().topic_filter(bs(&format!("f{j}"))).send().await;
            push(match r {
                Ok(()) => "ok".into(),
                Err(e) => format!("err:{e:?}"),
            });
        }
        SK::Ready => {
            let r = sink.ready().await;
            push(format!("ready:{r}"));
        }
    }
    app.borrow_mut()[j].done = true;
}

/// Spawn the application task for sender `j`.
pub fn start_sender(sink: &Sink, kind: SK, j: usize, app: App) {
    let h = match sink.clone() {
        Sink::V5(s) => ntex_rt::spawn(run_sender_v5(s, kind, j, app.clone())),
        Sink::V3(s) => ntex_rt::spawn(run_sender_v3(s, kind, j, app.clone())),
    };
    let mut a = app.borrow_mut();
    a[j].started = true;
    a[j].handle = Some(h);
}

// ---------------------------------------------------------------------------

/// What the explorer lets the peer write.
#[derive(Clone, Debug, PartialEq, Eq)]
pub enum PeerMode {
    /// acknowledge the oldest unacknowledged packet with the correct type
    Correct,
    /// any ack type x any id from the alphabet, at most `len` peer packets (C06)
    Hostile { ids: Vec<u16>, len: u8 },
}

#[derive(Clone, Debug)]
pub struct OutCfg {
    pub ep: EpCfg,
    pub cap: u16,
    pub senders: Vec<SK>,
    pub cancels: u8,
    pub batch: bool,
    /// number of window toggles (close/open) the explorer may inject
    pub bp: u8,
    pub peer: PeerMode,
    /// bitmask of oracle clauses that are judged (others are only logged)
    pub judge: u32,
    /// completed exchanges performed before the explored part (non-initial state)
    pub prologue: u8,
}

pub const J_WINDOW: u32 = 1;
pub const J_LIVENESS: u32 = 2;
pub const J_ROUTING: u32 = 4;
pub const J_QOS2: u32 = 8;
pub const J_WIRE: u32 = 16;

#[derive(Clone, Copy, Debug, PartialEq, Eq)]
pub enum Ev {
    Start(u8),
    /// correct peer: acknowledge the oldest pending packet
    Ack,
    /// correct peer: acknowledge n pending packets in one write
    AckBatch(u8),
    Cancel(u8),
    Win(bool),
    Release(u8),
    DropReceipt(u8),
    /// hostile peer: write ack of type (4 PUBACK,5 PUBREC,7 PUBCOMP,9 SUBACK,11 UNSUBACK) with id
    Peer(u8, u16),
}

/// A packet the endpoint wrote that still expects something from the correct peer.
#[derive(Clone, Debug, PartialEq, Eq)]
pub struct Pending {
    pub typ: u8, // 3 publish q1, 32 publish q2, 6 pubrel, 8 sub, 10 unsub
    pub pid: u16,
    pub sender: Option<usize>,
}

pub struct Out {
    pub cfg: OutCfg,
    pub conn: Conn,
    pub app: App,
    pub seen: usize, // packets of conn.out already classified
    pub pending: VecDeque<Pending>,
    /// final acks the peer has written (for PUBLISH packets)
    pub pub_final_acked: usize,
    pub pubs_on_wire: usize,
    pub per_sender_wire: Vec<usize>,
    pub per_sender_acked: Vec<usize>,
    pub window_open: bool,
    pub bp_left: u8,
    pub cancels_left: u8,
    pub peer_sent: u8,
    pub max_outstanding: usize,
    pub parked_seen: bool,
    pub drained: bool,
    pub hostile_bad: bool,
    /// every publish packet id seen on the wire while outstanding
    pub ids_outstanding: Vec<u16>,
    pub pubrel_seen: Vec<u16>,
    pub pubcomp_sent: Vec<u16>,
    pub pubrec_sent: Vec<u16>,
    pub acks_sent: Vec<(u8, u16)>,
    pub wire_pub_ids: Vec<(u16, u8, Option<usize>)>,
    pub prologue_left: u8,
}

impl Out {
    fn sink(&self) -> Option<Sink> {
        self.conn.sink()
    }

    fn sender_of(p: &Pkt) -> Option<usize> {
        match p {
            Pkt::Publish { payload, .. } if payload.len() == 1 && payload[0] >= b'0' => Some((payload[0] - b'0') as usize),
            Pkt::Subscribe { filters, .. } => filters.first().and_then(|(f, _)| f.strip_prefix('f')).and_then(|s| s.parse().ok()),
            Pkt::Unsubscribe { filters, .. } => filters.first().and_then(|f| f.strip_prefix('f')).and_then(|s| s.parse().ok()),
            _ => None,
        }
    }

    /// classify newly parsed outbound packets
    fn absorb(&mut self) {
        self.conn.pump();
        while self.seen < self.conn.out.len() {
            let p = self.conn.out[self.seen].1.clone();
            self.seen += 1;
            let s = Self::sender_of(&p);
            match &p {
                Pkt::Publish { qos, pid, .. } if *qos > 0 => {
                    self.pubs_on_wire += 1;
                    if let Some(j) = s {
                        if j < self.per_sender_wire.len() {
                            self.per_sender_wire[j] += 1;
                        }
                    }
                    self.wire_pub_ids.push((pid.unwrap_or(0), *qos, s));
                    self.pending.push_back(Pending { typ: if *qos == 1 { 3 } else { 32 }, pid: pid.unwrap_or(0), sender: s });
                }
                Pkt::Publish { .. } => {
                    if let Some(j) = s {
                        if j < self.per_sender_wire.len() {
                            self.per_sender_wire[j] += 1;
                            self.per_sender_acked[j] += 1;
                        }
                    }
                }
                Pkt::Ack { typ: 6, pid, .. } => {
                    self.pubrel_seen.push(*pid);
                    self.pending.push_back(Pending { typ: 6, pid: *pid, sender: None });
                }
                Pkt::Subscribe { pid, .. } => {
                    if let Some(j) = s {
                        if j < self.per_sender_wire.len() {
                            self.per_sender_wire[j] += 1;
                        }
                    }
                    self.pending.push_back(Pending { typ: 8, pid: *pid, sender: s })
                }
                Pkt::Unsubscribe { pid, .. } => {
                    if let Some(j) = s {
                        if j < self.per_sender_wire.len() {
                            self.per_sender_wire[j] += 1;
                        }
                    }
                    self.pending.push_back(Pending { typ: 10, pid: *pid, sender: s })
                }
                _ => {}
            }
        }
    }

    fn ack_packet(&self, p: &Pending) -> Pkt {
        let v5 = self.conn.ver() == Ver::V5;
        match p.typ {
            3 => rf::ack(4, p.pid),
            32 => rf::ack(5, p.pid),
            6 => rf::ack(7, p.pid),
            8 => Pkt::SubAck { pid: p.pid, props: vec![], codes: vec![0] },
            _ => Pkt::UnsubAck { pid: p.pid, props: vec![], codes: if v5 { vec![0] } else { vec![] } },
        }
    }

    fn note_ack_sent(&mut self, p: &Pending) {
        match p.typ {
            3 | 6 => {
                self.pub_final_acked += 1;
                if p.typ == 6 {
                    self.pubcomp_sent.push(p.pid);
                }
            }
            32 => self.pubrec_sent.push(p.pid),
            _ => {}
        }
        // attribute completion to the sender
        let sender = if p.typ == 6 { self.wire_pub_ids.iter().rev().find(|(id, q, _)| *id == p.pid && *q == 2).and_then(|x| x.2) } else { p.sender };
        if p.typ != 32 {
            if let Some(j) = sender {
                if j < self.per_sender_acked.len() {
                    self.per_sender_acked[j] += 1;
                }
            }
        }
    }

    fn correct_ack(&mut self, n: usize) {
        let mut bytes = Vec::new();
        for _ in 0..n {
            if let Some(p) = self.pending.pop_front() {
                bytes.extend_from_slice(&rf::encode(self.conn.ver(), &self.ack_packet(&p)));
                self.note_ack_sent(&p);
            }
        }
        self.conn.send_raw(&bytes);
    }

    pub fn outstanding_pubs(&self) -> usize {
        self.pubs_on_wire - self.pub_final_acked
    }

    fn running(&self, j: usize) -> bool {
        let a = self.app.borrow();
        a[j].started && !a[j].done && !a[j].cancelled
    }

    /// running senders whose current operation has not put a packet on the wire
    fn parked(&self) -> Vec<usize> {
        let a = self.app.borrow();
        (0..a.len())
            .filter(|j| {
                let s = &a[*j];
                if !(s.started && !s.done && !s.cancelled) {
                    return false;
                }
                match self.cfg.senders[*j] {
                    SK::Ready => true,
                    SK::Q2Rel => s.results.is_empty() && self.per_sender_wire[*j] == 0,
                    _ => self.per_sender_wire[*j] == s.results.len(),
                }
            })
            .collect()
    }

    fn witness(&self) -> String {
        let mut kinds: Vec<String> = self.cfg.senders.iter().map(|k| format!("{k:?}")).collect();
        kinds.sort();
        kinds.dedup();
        format!(
            "{} kinds={:?} cancelled={} backpressure={}",
            self.cfg.ep.label(),
            kinds,
            self.cancels_left < self.cfg.cancels,
            self.bp_left < self.cfg.bp
        )
    }

    pub fn detail(&self) -> String {
        let a = self.app.borrow();
        let res: Vec<String> = a.iter().enumerate().map(|(j, s)| format!("S{j}:{}{}{:?}", if s.done { "done" } else if s.cancelled { "cancelled" } else if s.started { "running" } else { "idle" }, if s.rel_result.is_some() { "+rel" } else { "" }, s.results)).collect();
        format!("wire_out={:?} senders={res:?} pending={:?} stops={:?}", self.conn.out_short(), self.pending, self.conn.log.stops())
    }
}

pub fn connect_props_for(cfg: &OutCfg) -> rf::Props {
    if cfg.ep.ver == Ver::V5 && cfg.ep.role == Role::Server { vec![(0x21, PVal::U16(cfg.cap))] } else { vec![] }
}

pub fn ep_for(mut ep: EpCfg, cap: u16, bp: bool) -> EpCfg {
    match (ep.ver, ep.role) {
        (Ver::V5, Role::Server) => ep.max_send = 16,
        (Ver::V3, Role::Server) => ep.max_send = cap,
        (Ver::V5, Role::Client) => ep.client_connack_props = vec![(0x21, PVal::U16(cap))],
        (Ver::V3, Role::Client) => ep.max_send = cap,
    }
    if bp {
        ep.write_buf = Some((16, 4, 16));
    }
    ep.handler_auto = true;
    ep
}

impl Scenario for Out {
    type Cfg = OutCfg;
    type Ev = Ev;

    fn build(cfg: &OutCfg) -> Pin<Box<dyn Future<Output = Self>>> {
        let cfg = cfg.clone();
        Box::pin(async move {
            let conn = start_endpoint(&cfg.ep, connect_props_for(&cfg), true).await;
            let n = cfg.senders.len();
            let app: App = Rc::new(RefCell::new((0..n).map(|_| SenderSt::default()).collect()));
            Out {
                conn,
                app,
                seen: 0,
                pending: VecDeque::new(),
                pub_final_acked: 0,
                pubs_on_wire: 0,
                per_sender_wire: vec![0; n],
                per_sender_acked: vec![0; n],
                window_open: true,
                bp_left: cfg.bp,
                cancels_left: cfg.cancels,
                peer_sent: 0,
                max_outstanding: 0,
                parked_seen: false,
                drained: false,
                hostile_bad: false,
                ids_outstanding: Vec::new(),
                pubrel_seen: Vec::new(),
                pubcomp_sent: Vec::new(),
                pubrec_sent: Vec::new(),
                acks_sent: Vec::new(),
                wire_pub_ids: Vec::new(),
                prologue_left: cfg.prologue,
                cfg,
            }
        })
    }

    fn enabled(&self, _q: bool) -> Vec<Ev> {
        let mut v = Vec::new();
        if self.sink().is_none() || self.conn.done() {
            return v;
        }
        let a = self.app.borrow();
        // start: senders of the same kind start in index order (symmetry)
        for j in 0..a.len() {
            if !a[j].started {
                let earlier_same = (0..j).any(|i| self.cfg.senders[i] == self.cfg.senders[j] && !a[i].started);
                if !earlier_same {
                    v.push(Ev::Start(j as u8));
                }
            }
        }
        match &self.cfg.peer {
            PeerMode::Correct => {
                if !self.pending.is_empty() {
                    v.push(Ev::Ack);
                    if self.cfg.batch && self.pending.len() >= 2 {
                        v.push(Ev::AckBatch(self.pending.len().min(3) as u8));
                    }
                }
            }
            PeerMode::Hostile { ids, len } => {
                if self.peer_sent < *len {
                    let types: &[u8] = if self.cfg.ep.role == Role::Client { &[4, 5, 7, 9, 11] } else { &[4, 5, 7] };
                    for t in types {
                        for id in ids {
                            v.push(Ev::Peer(*t, *id));
                        }
                    }
                }
            }
        }
        for j in 0..a.len() {
            if a[j].receipt.is_some() {
                v.push(Ev::Release(j as u8));
                v.push(Ev::DropReceipt(j as u8));
            }
        }
        if self.cancels_left > 0 {
            // the statement speaks about dropped *waiting* futures: only tasks whose current
            // operation has not put a packet on the wire are cancelled. For QoS 2 senders that is
            // only known exactly at quiescent points (an encoded packet may still sit in the write
            // buffer), and abandoning an exchange half way is outside the property.
            drop(a);
            let parked = self.parked();
            let a = self.app.borrow();
            for j in parked {
                let q2 = matches!(self.cfg.senders[j], SK::Q2Rel | SK::Q2Drop | SK::Q2Hold);
                if a[j].handle.is_some() && (!q2 || _q) {
                    v.push(Ev::Cancel(j as u8));
                }
            }
            if self.bp_left > 0 || !self.window_open {
                v.push(Ev::Win(!self.window_open));
            }
            return v;
        }
        if self.bp_left > 0 || !self.window_open {
            v.push(Ev::Win(!self.window_open));
        }
        v
    }

    fn apply(&mut self, ev: Ev) {
        match ev {
            Ev::Start(j) => {
                let j = j as usize;
                let sink = self.sink().unwrap();
                let kind = self.cfg.senders[j];
                let app = self.app.clone();
                let h = match sink {
                    Sink::V5(s) => ntex_rt::spawn(run_sender_v5(s, kind, j, app)),
                    Sink::V3(s) => ntex_rt::spawn(run_sender_v3(s, kind, j, app)),
                };
                let mut a = self.app.borrow_mut();
                a[j].started = true;
                a[j].handle = Some(h);
            }
            Ev::Ack => self.correct_ack(1),
            Ev::AckBatch(n) => self.correct_ack(n as usize),
            Ev::Cancel(j) => {
                self.cancels_left -= 1;
                let h = {
                    let mut a = self.app.borrow_mut();
                    a[j as usize].cancelled = true;
                    a[j as usize].handle.take()
                };
                if let Some(h) = h {
                    h.cancel();
                }
            }
            Ev::Win(open) => {
                if !open {
                    self.bp_left = self.bp_left.saturating_sub(1);
                }
                self.window_open = open;
                self.conn.window(open);
            }
            Ev::Release(j) => {
                let j = j as usize;
                let rec = self.app.borrow_mut()[j].receipt.take();
                let app = self.app.clone();
                app.borrow_mut()[j].rel_started = true;
                let app2 = app.clone();
                let h = ntex_rt::spawn(async move {
                    let Some(rec) = rec else { return };
                    let r = (rec.rel)().await;
                    app2.borrow_mut()[j].rel_result = Some(r);
                });
                app.borrow_mut()[j].rel_handle = Some(h);
            }
            Ev::DropReceipt(j) => {
                let rec = self.app.borrow_mut()[j as usize].receipt.take();
                drop(rec);
                self.app.borrow_mut()[j as usize].rel_result = Some("dropped".into());
            }
            Ev::Peer(t, id) => {
                self.peer_sent += 1;
                let v5 = self.conn.ver() == Ver::V5;
                let p = match t {
                    9 => Pkt::SubAck { pid: id, props: vec![], codes: vec![0] },
                    11 => Pkt::UnsubAck { pid: id, props: vec![], codes: if v5 { vec![0] } else { vec![] } },
                    t => rf::ack(t, id),
                };
                self.acks_sent.push((t, id));
                self.conn.send(&p);
            }
        }
    }

    fn check(&mut self, quiescent: bool) -> Result<(), Violation> {
        self.absorb();
        if let Some(e) = &self.conn.parse_err {
            if self.cfg.judge & J_WIRE != 0 {
                return Err(Violation::new("wire-garbage", self.witness(), e.clone()));
            }
        }
        let o = self.outstanding_pubs();
        self.max_outstanding = self.max_outstanding.max(o);
        if self.cfg.judge & J_WINDOW != 0 && o > self.cfg.cap as usize {
            return Err(Violation::new(
                "window-overshoot",
                self.witness(),
                format!("{o} QoS>0 PUBLISH packets outstanding with send limit {}: {}", self.cfg.cap, self.detail()),
            ));
        }
        if quiescent {
            let parked = self.parked();
            if !parked.is_empty() {
                self.parked_seen = true;
            }
            if let Some(s) = self.sink() {
                if self.cfg.judge & J_WINDOW != 0 && self.window_open && !self.conn.done() && s.is_open() {
                    let total_out = self.pending.iter().filter(|p| p.typ != 6).count() + self.pending.iter().filter(|p| p.typ == 6).count();
                    let _ = total_out;
                }
            }
        }
        Ok(())
    }

    fn drain(&mut self) -> bool {
        if !self.window_open {
            self.window_open = true;
            self.conn.window(true);
            return true;
        }
        if self.cfg.peer == PeerMode::Correct && !self.pending.is_empty() && !self.conn.done() {
            self.correct_ack(1);
            return true;
        }
        false
    }

    fn finish(&mut self) -> Result<Outcome, Violation> {
        self.absorb();
        let stops = self.conn.log.stops();
        let healthy = stops.is_empty() && !self.conn.done();
        if self.cfg.judge & J_LIVENESS != 0 && self.cfg.peer == PeerMode::Correct {
            if !healthy {
                return Err(Violation::new(
                    "unexpected-stop",
                    self.witness(),
                    format!("connection ended although the peer behaved correctly: {}", self.detail()),
                ));
            }
            let a = self.app.borrow();
            for (j, s) in a.iter().enumerate() {
                if s.started && !s.cancelled && !s.done {
                    return Err(Violation::new(
                        "lost-wakeup",
                        self.witness(),
                        format!("sender {j} ({:?}) never completed although the peer acknowledged everything: {}", self.cfg.senders[j], self.detail()),
                    ));
                }
                if s.started && !s.cancelled && s.results.iter().any(|r| r.starts_with("err")) {
                    return Err(Violation::new(
                        "send-failed",
                        self.witness(),
                        format!("sender {j} ({:?}) failed on a healthy connection: {}", self.cfg.senders[j], self.detail()),
                    ));
                }
            }
        }
        let a = self.app.borrow();
        let obs = format!(
            "max_out={} out={:?} res={:?} stops={:?}",
            self.max_outstanding,
            self.conn.out_short(),
            a.iter().map(|s| (s.done, s.cancelled, s.results.clone(), s.rel_result.clone())).collect::<Vec<_>>(),
            stops
        );
        Ok(Outcome { obs, nontrivial: self.parked_seen })
    }
}
