//! Shared Engine A world: real ntex-mqtt endpoints (v3/v5, server/client) wired to
//! an in-memory transport, with logging handlers whose completion is decided by
//! the explorer ("gates").
#![allow(dead_code)]
use std::cell::{Cell, RefCell};
use std::future::Future;
use std::pin::Pin;
use std::rc::Rc;
use std::task::{Context, Poll, Waker};

use ntex_bytes::{ByteString, Bytes};
use ntex_io::{Io, IoBoxed, IoConfig, testing::IoTest};
use ntex_mqtt::{Control, MqttServiceConfig, Reason, v3, v5};
use ntex_service::cfg::SharedCfg;
use ntex_service::{Pipeline, ServiceFactory, fn_factory_with_config, fn_service};
use ntex_util::time::Seconds;

use crate::refmqtt::{self as rf, Pkt, Ver};
use crate::simnet::step;

// ---------------------------------------------------------------------------
// log

#[derive(Clone, Debug, PartialEq, Eq)]
pub enum Rec {
    /// publish handler entered
    HEnter { k: usize, qos: u8, pid: u16, topic: String, dup: bool, retain: bool, size: usize, props: String },
    /// payload bytes the handler obtained (whole payload, or one piece in lazy mode)
    HPayload { k: usize, bytes: Vec<u8>, err: Option<String> },
    HExit { k: usize, outcome: GateOutcome },
    HDrop { k: usize },
    /// protocol (control-plane) service entered: kind = "ping" | "sub" | "unsub" | "pubrel" | "disconnect" | "auth" | "publish"
    PEnter { k: usize, kind: String, pid: u16 },
    PExit { k: usize },
    PDrop { k: usize },
    /// connection-control service called
    Ctl(String),
    CtlDone(String),
    /// the connection future finished
    ConnDone(String),
    /// an application send finished
    Send { j: usize, result: String },
    Handshake(String),
    Note(String),
}

#[derive(Clone, Default)]
pub struct Log(pub Rc<RefCell<Vec<(u64, Rec)>>>);

impl Log {
    pub fn push(&self, r: Rec) {
        self.0.borrow_mut().push((step(), r));
    }
    pub fn snapshot(&self) -> Vec<(u64, Rec)> {
        self.0.borrow().clone()
    }
    pub fn count(&self, f: impl Fn(&Rec) -> bool) -> usize {
        self.0.borrow().iter().filter(|(_, r)| f(r)).count()
    }
    pub fn stops(&self) -> Vec<String> {
        self.0
            .borrow()
            .iter()
            .filter_map(|(_, r)| match r {
                Rec::Ctl(s) if s.starts_with("Stop") => Some(s.clone()),
                _ => None,
            })
            .collect()
    }
    pub fn conn_done(&self) -> Option<String> {
        self.0.borrow().iter().find_map(|(_, r)| match r {
            Rec::ConnDone(s) => Some(s.clone()),
            _ => None,
        })
    }
    pub fn render(&self) -> Vec<String> {
        self.0.borrow().iter().map(|(s, r)| format!("[{s}] {r:?}")).collect()
    }
}

// ---------------------------------------------------------------------------
// gates

#[derive(Clone, Copy, Debug, PartialEq, Eq, Hash)]
pub enum GateOutcome {
    Ok,
    Err,
    /// v5 only: handler error that the application maps to a negative ack with this code
    Nack(u8),
    /// v5 publish handlers: the handler *succeeds* and returns an acknowledgement carrying this reason code
    /// (`Ok(p.ack().reason_code(..))`) - a refusal that does not go through the error mapping
    OkCode(u8),
}

#[derive(Default)]
struct Gate {
    outcome: Option<GateOutcome>,
    waker: Option<Waker>,
    exited: bool,
    dropped: bool,
}

/// Handler invocation k waits on gate k until the explorer opens it.
#[derive(Default)]
pub struct Gates {
    st: RefCell<Vec<Gate>>,
    /// invocation k completes immediately with Ok if `auto[k]` (missing = `default_auto`)
    pub auto: RefCell<Vec<bool>>,
    pub default_auto: Cell<bool>,
}

impl Gates {
    pub fn new(default_auto: bool) -> Rc<Self> {
        let g = Gates::default();
        g.default_auto.set(default_auto);
        Rc::new(g)
    }
    pub fn enter(&self) -> usize {
        let mut st = self.st.borrow_mut();
        let k = st.len();
        let auto = self.auto.borrow().get(k).copied().unwrap_or(self.default_auto.get());
        st.push(Gate { outcome: if auto { Some(GateOutcome::Ok) } else { None }, ..Default::default() });
        k
    }
    pub fn entered(&self) -> usize {
        self.st.borrow().len()
    }
    /// gates entered, not opened, not dropped
    pub fn waiting(&self) -> Vec<usize> {
        self.st
            .borrow()
            .iter()
            .enumerate()
            .filter(|(_, g)| g.outcome.is_none() && !g.dropped && !g.exited)
            .map(|(k, _)| k)
            .collect()
    }
    /// handlers entered and neither exited nor dropped
    pub fn executing(&self) -> usize {
        self.st.borrow().iter().filter(|g| !g.exited && !g.dropped).count()
    }
    pub fn open(&self, k: usize, o: GateOutcome) {
        let w = {
            let mut st = self.st.borrow_mut();
            st[k].outcome = Some(o);
            st[k].waker.take()
        };
        if let Some(w) = w {
            w.wake();
        }
    }
    pub fn open_all(&self, o: GateOutcome) -> bool {
        let ks = self.waiting();
        for k in &ks {
            self.open(*k, o);
        }
        !ks.is_empty()
    }
    /// Forget every parked waker (breaks the task -> gate -> waker -> task cycle at teardown).
    pub fn clear_wakers(&self) {
        let ws: Vec<Waker> = self.st.borrow_mut().iter_mut().filter_map(|g| g.waker.take()).collect();
        drop(ws);
    }
    pub fn wait(self: &Rc<Self>, k: usize) -> GateFut {
        GateFut { gates: self.clone(), k }
    }
}

pub struct GateFut {
    gates: Rc<Gates>,
    k: usize,
}

impl Future for GateFut {
    type Output = GateOutcome;
    fn poll(self: Pin<&mut Self>, cx: &mut Context<'_>) -> Poll<GateOutcome> {
        let mut st = self.gates.st.borrow_mut();
        let g = &mut st[self.k];
        if let Some(o) = g.outcome {
            Poll::Ready(o)
        } else {
            g.waker = Some(cx.waker().clone());
            Poll::Pending
        }
    }
}

/// Logs `HDrop`/`PDrop` when a handler future is dropped before it returned.
struct DropGuard {
    log: Log,
    gates: Rc<Gates>,
    k: usize,
    proto: bool,
    done: bool,
}
impl DropGuard {
    fn finish(&mut self) {
        self.done = true;
        self.gates.st.borrow_mut()[self.k].exited = true;
    }
}
impl Drop for DropGuard {
    fn drop(&mut self) {
        if !self.done {
            self.gates.st.borrow_mut()[self.k].dropped = true;
            self.log.push(if self.proto { Rec::PDrop { k: self.k } } else { Rec::HDrop { k: self.k } });
        }
    }
}

// ---------------------------------------------------------------------------
// error type of the test application

#[derive(Clone, Debug, PartialEq, Eq)]
pub enum TErr {
    Plain,
    Nack(u8),
}

impl From<()> for TErr {
    fn from((): ()) -> Self {
        TErr::Plain
    }
}

impl TryFrom<TErr> for v5::PublishAck {
    type Error = TErr;
    fn try_from(e: TErr) -> Result<Self, TErr> {
        match e {
            TErr::Nack(c) => match v5::codec::PublishAckReason::try_from(c) {
                Ok(code) => Ok(v5::PublishAck::new(code)),
                Err(_) => Err(TErr::Plain),
            },
            e => Err(e),
        }
    }
}

// ---------------------------------------------------------------------------
// configuration

#[derive(Clone, Copy, Debug, PartialEq, Eq, Hash)]
pub enum Role {
    Server,
    Client,
}

#[derive(Clone, Copy, Debug, PartialEq, Eq)]
pub enum ReadMode {
    /// `read_all()` then log
    All,
    /// one `read()` per gate opening (lazy reader): gate k*1000+i
    Lazy,
    /// wait for one gate opening (the explorer decides how much has arrived by then), then `read_all()`
    LateAll,
    /// never touch the payload
    Abandon,
    /// the handler hands the payload to a task of its own (`take_payload`) that reads it to the end; the
    /// handler itself carries on (cancelling the handler does not release that reader)
    Detached,
}

#[derive(Clone, Copy, Debug, PartialEq, Eq)]
pub enum HsMode {
    Accept,
    /// answer with a refusing CONNACK
    Refuse,
    /// handshake service returns Err
    Error,
    /// wait for handshake gate 0 before accepting
    Gated,
}

#[derive(Clone, Copy, Debug, PartialEq, Eq)]
pub enum CtlMode {
    /// Ok(None) for everything
    None,
    /// v5: Ok(Some(DISCONNECT 0x00)) for Stop
    OwnDisconnect,
    /// Err for everything
    Error,
    /// Err only for WrBackpressure notifications
    ErrorOnWr,
    /// Stop notifications wait on `Conn::cgates`; outcome Ok = no packet, Nack = own DISCONNECT (v5), Err = error
    Gated,
}

#[derive(Clone, Debug)]
pub struct EpCfg {
    pub ver: Ver,
    pub role: Role,
    // MqttServiceConfig
    pub max_qos: u8,
    pub max_size: u32,
    pub max_receive: u16,
    pub max_receive_size: usize,
    pub max_topic_alias: u16,
    pub max_send: u16,
    pub min_chunk_size: u32,
    pub max_payload_buffer_size: usize,
    pub connect_timeout: u16,
    /// combined server: timeout for reading the protocol version (0 = library default 5 s)
    pub pv_timeout: u16,
    /// clients: timeout for the whole handshake (0 = disabled)
    pub handshake_timeout: u16,
    pub handle_qos_after_disconnect: Option<u8>,
    // IoConfig
    pub write_buf: Option<(usize, usize, usize)>,
    pub frame_read_rate: Option<(u16, u16, u32)>,
    pub disconnect_timeout: Option<u16>,
    // handshake
    pub hs: HsMode,
    pub hs_keepalive: Option<u16>,
    pub hs_max_send: Option<u16>,
    /// v5: override CONNACK fields (receive_max, max_qos, topic_alias_max, max_packet_size)
    pub hs_receive_max: Option<u16>,
    pub hs_max_qos: Option<u8>,
    pub hs_topic_alias_max: Option<u16>,
    pub hs_max_packet_size: Option<u32>,
    pub hs_retain_available: Option<bool>,
    pub hs_sub_ids_available: Option<bool>,
    // handlers
    pub read_mode: ReadMode,
    pub handler_auto: bool,
    pub proto_auto: bool,
    /// which protocol messages the application answers properly (sub/unsub); otherwise default service
    pub proto_default_service: bool,
    /// servers: the protocol service, while handling a SUBSCRIBE, sends a QoS 1 publish through the sink and awaits
    /// its acknowledgement before it answers (a handler that itself waits on the connection)
    pub proto_sends: bool,
    /// servers: the publish handler calls `sink.force_close()` when it sees a publish on topic "a" (an application that
    /// gives up on the connection while more packets are already buffered)
    pub close_on_a: bool,
    pub ctl: CtlMode,
    /// v5 router: use `v5::Router` with resources "a" and "b" plus default
    pub router: bool,
    /// client role: keep-alive requested in CONNECT (seconds)
    pub client_keepalive: u16,
    /// client role: CONNACK the harness answers with (v5 props)
    pub client_connack_props: rf::Props,
    /// client role v5: receive_max requested in CONNECT / config
    pub tag: &'static str,
    /// the publish service (servers) / protocol service (clients without router) is a hand-written `Service`
    /// whose `ready()` starts failing when the scenario calls `fail_readiness()` (termination cause "service
    /// readiness error")
    /// v5: the publish handler decorates its acknowledgement with a reason string ("rs") and one 40-byte user property
    /// (with a small peer Maximum Packet Size the encoder has to drop what does not fit - and say so in the lengths)
    pub ack_decor: bool,
    pub ready_gate: bool,
    /// with `ready_gate`: how many times the explorer may make the publish service not ready for a while (the
    /// application's own back-pressure; inbound scenario event `Ev::Hold`)
    pub holds: u8,
}

impl EpCfg {
    pub fn new(ver: Ver, role: Role) -> Self {
        EpCfg {
            ver,
            role,
            max_qos: 2,
            max_size: 0,
            max_receive: 16,
            max_receive_size: 65535,
            max_topic_alias: 32,
            max_send: 16,
            min_chunk_size: 32 * 1024,
            max_payload_buffer_size: 32 * 1024,
            connect_timeout: 0,
            pv_timeout: 0,
            handshake_timeout: 0,
            handle_qos_after_disconnect: None,
            write_buf: None,
            frame_read_rate: None,
            disconnect_timeout: None,
            hs: HsMode::Accept,
            hs_keepalive: None,
            hs_max_send: None,
            hs_receive_max: None,
            hs_max_qos: None,
            hs_topic_alias_max: None,
            hs_max_packet_size: None,
            hs_retain_available: None,
            hs_sub_ids_available: None,
            read_mode: ReadMode::All,
            handler_auto: false,
            proto_auto: true,
            proto_default_service: false,
            proto_sends: false,
            close_on_a: false,
            ctl: CtlMode::None,
            router: false,
            client_keepalive: 0,
            client_connack_props: Vec::new(),
            tag: "EP",
            ready_gate: false,
            ack_decor: false,
            holds: 0,
        }
    }

    pub fn label(&self) -> String {
        format!("{}-{}", if self.ver == Ver::V3 { "v3" } else { "v5" }, if self.role == Role::Server { "server" } else { "client" })
    }

    fn qos(v: u8) -> ntex_mqtt::QoS {
        match v {
            0 => ntex_mqtt::QoS::AtMostOnce,
            1 => ntex_mqtt::QoS::AtLeastOnce,
            _ => ntex_mqtt::QoS::ExactlyOnce,
        }
    }

    /// Configuration object for this endpoint. ntex keeps per-configuration-id caches in thread-locals
    /// (service config mapping, io buffer cache), so one object per distinct configuration is created
    /// per worker thread and reused by later executions instead of leaking a new id every time.
    pub fn shared_cfg(&self) -> SharedCfg {
        thread_local! {
            static CFGS: RefCell<std::collections::HashMap<String, SharedCfg>> = RefCell::new(std::collections::HashMap::new());
        }
        let key = format!(
            "{:?}|{}|{}|{}|{}|{}|{}|{}|{}|{}|{:?}|{:?}|{:?}|{:?}|{}|{}|{}",
            self.ver, self.max_qos, self.max_size, self.max_receive, self.max_receive_size, self.max_topic_alias, self.max_send,
            self.min_chunk_size, self.max_payload_buffer_size, self.connect_timeout, self.handle_qos_after_disconnect,
            self.write_buf, self.frame_read_rate, self.disconnect_timeout, self.tag, self.pv_timeout, self.handshake_timeout
        );
        if let Some(c) = CFGS.with(|m| m.borrow().get(&key).cloned()) {
            return c;
        }
        let c = self.build_shared_cfg();
        CFGS.with(|m| m.borrow_mut().insert(key, c.clone()));
        c
    }

    fn build_shared_cfg(&self) -> SharedCfg {
        let mut m = MqttServiceConfig::new()
            .set_max_qos(Self::qos(self.max_qos))
            .set_max_size(self.max_size)
            .set_max_receive(self.max_receive)
            .set_max_receive_size(self.max_receive_size)
            .set_max_topic_alias(self.max_topic_alias)
            .set_max_send(self.max_send)
            .set_min_chunk_size(self.min_chunk_size)
            .set_max_payload_buffer_size(self.max_payload_buffer_size)
            .set_connect_timeout(Seconds(self.connect_timeout));
        if let Some(q) = self.handle_qos_after_disconnect {
            m = m.set_handle_qos_after_disconnect(Some(Self::qos(q)));
        }
        if self.pv_timeout != 0 {
            m = m.protocol_version_timeout(Seconds(self.pv_timeout));
        }
        if self.handshake_timeout != 0 {
            m = m.set_handshake_timeout(Seconds(self.handshake_timeout));
        }
        let mut io = IoConfig::new();
        if let Some((hi, lo, sz)) = self.write_buf {
            io = io.set_write_buf(hi, lo, sz);
        }
        if let Some((t, mx, rate)) = self.frame_read_rate {
            io = io.set_frame_read_rate(Seconds(t), Seconds(mx), rate);
        }
        if let Some(t) = self.disconnect_timeout {
            io = io.set_disconnect_timeout(Seconds(t));
        }
        SharedCfg::new(self.tag).add(m).add(io).into()
    }
}

// ---------------------------------------------------------------------------
// connection handle

#[derive(Clone)]
pub enum Sink {
    V3(v3::MqttSink),
    V5(v5::MqttSink),
}

impl Sink {
    pub fn is_open(&self) -> bool {
        match self {
            Sink::V3(s) => s.is_open(),
            Sink::V5(s) => s.is_open(),
        }
    }
    pub fn credit(&self) -> usize {
        match self {
            Sink::V3(s) => s.credit(),
            Sink::V5(s) => s.credit(),
        }
    }
    pub fn is_ready(&self) -> bool {
        match self {
            Sink::V3(s) => s.is_ready(),
            Sink::V5(s) => s.is_ready(),
        }
    }
    pub fn close(&self) {
        match self {
            Sink::V3(s) => s.close(),
            Sink::V5(s) => s.close(),
        }
    }
    pub fn force_close(&self) {
        match self {
            Sink::V3(s) => s.force_close(),
            Sink::V5(s) => s.force_close(),
        }
    }
    /// v5: close with an application-chosen DISCONNECT (marked with reason string "app")
    pub fn close_with_reason(&self, code: u8) {
        match self {
            Sink::V3(s) => s.close(),
            Sink::V5(s) => s.close_with_reason(
                v5::codec::Disconnect::new(v5::codec::DisconnectReasonCode::try_from(code).unwrap_or(v5::codec::DisconnectReasonCode::UnspecifiedError))
                    .reason_string(Some("app".into())),
            ),
        }
    }
    pub fn close_with_no_reason(&self) {
        match self {
            Sink::V3(s) => s.close(),
            Sink::V5(s) => s.close_with_no_reason(),
        }
    }
}

pub struct Conn {
    pub cfg: EpCfg,
    pub peer: IoTest,
    /// every byte the endpoint wrote so far
    pub wire: Vec<u8>,
    parsed: usize,
    /// packets parsed from `wire` with the step at which their last byte was seen
    pub out: Vec<(u64, Pkt)>,
    pub parse_err: Option<String>,
    pub log: Log,
    pub gates: Rc<Gates>,
    pub pgates: Rc<Gates>,
    pub hgates: Rc<Gates>,
    pub rgates: Rc<Gates>,
    pub cgates: Rc<Gates>,
    pub sink: Rc<RefCell<Option<Sink>>>,
    pub peer_closed: bool,
    /// bytes the harness wrote to the endpoint
    pub sent: Vec<u8>,
    pub auto_pump: bool,
}

impl Drop for Conn {
    fn drop(&mut self) {
        // The verdict has been computed; what follows only serves the tear-down of the execution. A dispatcher that
        // sits in its reading pause (publish service held not ready, or every receive slot taken by a handler that
        // waits on a gate) never notices that the peer is gone, so its task would still be alive when the runtime
        // is dropped - and a sleeping task whose waker is stored inside its own future is never freed then (about
        // 3 KB per execution, gigabytes over a thorough run). Let everything finish: end the hold, open every gate.
        let st = READY_GATE.with(|c| c.borrow_mut().take());
        if let Some(st) = st {
            st.held.set(false);
            let w = st.waker.borrow_mut().take();
            if let Some(w) = w {
                w.wake();
            }
        }
        for g in [&self.gates, &self.pgates, &self.hgates, &self.rgates, &self.cgates] {
            g.open_all(GateOutcome::Ok);
        }
        self.gates.clear_wakers();
        self.pgates.clear_wakers();
        self.hgates.clear_wakers();
        self.rgates.clear_wakers();
        self.cgates.clear_wakers();
        CGATES.with(|c| *c.borrow_mut() = None);
        READY_GATE.with(|c| *c.borrow_mut() = None);
        CUR_SINK.with(|c| *c.borrow_mut() = None);
    }
}

/// State of the publish service's readiness gate (EpCfg::ready_gate).
#[derive(Default)]
pub struct ReadyState {
    failed: Cell<bool>,
    held: Cell<bool>,
    waker: RefCell<Option<Waker>>,
}

thread_local! {
    /// sink slot of the connection created last on this thread (handlers that close the connection themselves)
    static CUR_SINK: RefCell<Option<Rc<RefCell<Option<Sink>>>>> = const { RefCell::new(None) };
}

fn force_close_current() {
    let slot = CUR_SINK.with(|c| c.borrow().clone());
    if let Some(slot) = slot {
        let sk = slot.borrow().clone();
        match sk {
            Some(Sink::V5(s)) => s.force_close(),
            Some(Sink::V3(s)) => s.force_close(),
            None => {}
        }
    }
}

thread_local! {
    /// readiness gate of the connection created last on this thread
    static READY_GATE: RefCell<Option<Rc<ReadyState>>> = const { RefCell::new(None) };
}

fn new_ready_state() -> Rc<ReadyState> {
    let st = Rc::new(ReadyState::default());
    READY_GATE.with(|c| *c.borrow_mut() = Some(st.clone()));
    st
}

/// From now on `Service::ready()` of the publish service returns an error; the task that asked last is woken
/// (a service whose background part has failed notifies whoever waits for its readiness).
pub fn fail_readiness() {
    READY_GATE.with(|c| {
        if let Some(st) = c.borrow().as_ref() {
            st.failed.set(true);
            if let Some(w) = st.waker.borrow_mut().take() {
                w.wake();
            }
        }
    });
}

/// From now on (`true`) the publish service is not ready - an application with its own back-pressure, e.g. a full
/// downstream queue - until `hold_readiness(false)`. Going not-ready is silent (the dispatcher notices at its next
/// poll, as with any ntex service); becoming ready again wakes the task that asked last.
pub fn hold_readiness(hold: bool) {
    READY_GATE.with(|c| {
        if let Some(st) = c.borrow().as_ref() {
            st.held.set(hold);
            if !hold {
                if let Some(w) = st.waker.borrow_mut().take() {
                    w.wake();
                }
            }
        }
    });
}

/// Publish service with an explorer-controlled readiness failure; `call` is the ordinary handler closure.
pub struct ReadyGate<F> {
    f: F,
    st: Rc<ReadyState>,
}

impl<F, Req, Fut, Res> ntex_service::Service<Req> for ReadyGate<F>
where
    F: Fn(Req) -> Fut,
    Fut: Future<Output = Result<Res, TErr>>,
{
    type Response = Res;
    type Error = TErr;

    async fn ready(&self, _: ntex_service::ServiceCtx<'_, Self>) -> Result<(), TErr> {
        std::future::poll_fn(|cx| {
            if self.st.failed.get() {
                Poll::Ready(Err(TErr::Plain))
            } else {
                *self.st.waker.borrow_mut() = Some(cx.waker().clone());
                if self.st.held.get() { Poll::Pending } else { Poll::Ready(Ok(())) }
            }
        })
        .await
    }

    async fn call(&self, req: Req, _: ntex_service::ServiceCtx<'_, Self>) -> Result<Res, TErr> {
        (self.f)(req).await
    }
}

pub const BIG: usize = 1 << 30;

impl Conn {
    pub fn ver(&self) -> Ver {
        self.cfg.ver
    }
    /// Drain what the endpoint wrote and parse complete packets.
    pub fn pump(&mut self) {
        let b = self.peer.read_any();
        if !b.is_empty() {
            self.wire.extend_from_slice(&b);
        }
        while self.parse_err.is_none() && self.parsed < self.wire.len() {
            match rf::decode(self.cfg.ver, &self.wire[self.parsed..]) {
                Ok((p, n)) => {
                    self.parsed += n;
                    self.out.push((step(), p));
                }
                Err(rf::DecErr::Incomplete) => break,
                Err(e) => {
                    self.parse_err = Some(format!(
                        "offset {}: {e:?} bytes {}",
                        self.parsed,
                        rf::hex(&self.wire[self.parsed..])
                    ));
                }
            }
        }
    }
    pub fn unparsed(&self) -> &[u8] {
        &self.wire[self.parsed..]
    }
    pub fn send(&mut self, p: &Pkt) {
        let b = rf::encode(self.cfg.ver, p);
        self.send_raw(&b);
    }
    pub fn send_raw(&mut self, b: &[u8]) {
        self.sent.extend_from_slice(b);
        self.peer.write(b);
    }
    pub fn window(&self, open: bool) {
        self.peer.remote_buffer_cap(if open { BIG } else { 0 });
    }
    pub fn budget(&self, n: usize) {
        self.peer.remote_buffer_cap(n);
    }
    pub fn close_peer(&mut self) {
        self.peer_closed = true;
        drop(self.peer.clone());
    }
    pub fn sink(&self) -> Option<Sink> {
        self.sink.borrow().clone()
    }
    pub fn out_pkts(&self) -> Vec<&Pkt> {
        self.out.iter().map(|(_, p)| p).collect()
    }
    pub fn out_short(&self) -> Vec<String> {
        self.out.iter().map(|(_, p)| p.short()).collect()
    }
    pub fn done(&self) -> bool {
        self.log.conn_done().is_some()
    }
}

fn ctl_label<E: std::fmt::Debug>(c: &Control<E>) -> String {
    match c {
        Control::WrBackpressure(w) => format!("Wr:{}", w.enabled()),
        Control::Stop(Reason::Error(e)) => format!("Stop:Error:{:?}", e.get_ref()),
        Control::Stop(Reason::Protocol(p)) => format!("Stop:Proto:{:?}", p.get_ref()),
        Control::Stop(Reason::PeerGone(p)) => format!("Stop:PeerGone:{}", p.err().map(|e| e.kind().to_string()).unwrap_or_default()),
    }
}

fn props_str_v5(p: &v5::codec::PublishProperties) -> String {
    let mut s = String::new();
    if let Some(a) = p.topic_alias {
        s.push_str(&format!("alias={a};"));
    }
    if let Some(c) = &p.correlation_data {
        s.push_str(&format!("corr={c:?};"));
    }
    if let Some(c) = p.message_expiry_interval {
        s.push_str(&format!("exp={c};"));
    }
    if let Some(c) = &p.content_type {
        s.push_str(&format!("ct={c};"));
    }
    if p.is_utf8_payload {
        s.push_str("utf8;");
    }
    if let Some(c) = &p.response_topic {
        s.push_str(&format!("rt={c};"));
    }
    for i in &p.subscription_ids {
        s.push_str(&format!("sid={i};"));
    }
    for (k, v) in &p.user_properties {
        s.push_str(&format!("u:{k}={v};"));
    }
    s
}

async fn read_payload_v5(p: &v5::Publish, mode: ReadMode, k: usize, log: &Log, gates: &Rc<Gates>) {
    match mode {
        ReadMode::All => match p.read_all().await {
            Ok(b) => log.push(Rec::HPayload { k, bytes: b.to_vec(), err: None }),
            Err(e) => log.push(Rec::HPayload { k, bytes: vec![], err: Some(format!("{e:?}")) }),
        },
        ReadMode::LateAll => {
            let g = gates.enter();
            gates.wait(g).await;
            gates.st.borrow_mut()[g].exited = true;
            match p.read_all().await {
                Ok(b) => log.push(Rec::HPayload { k, bytes: b.to_vec(), err: None }),
                Err(e) => log.push(Rec::HPayload { k, bytes: vec![], err: Some(format!("{e:?}")) }),
            }
        }
        ReadMode::Lazy => loop {
            let g = gates.enter();
            gates.wait(g).await;
            gates.st.borrow_mut()[g].exited = true;
            match p.read().await {
                Ok(Some(b)) => log.push(Rec::HPayload { k, bytes: b.to_vec(), err: None }),
                Ok(None) => break,
                Err(e) => {
                    log.push(Rec::HPayload { k, bytes: vec![], err: Some(format!("{e:?}")) });
                    break;
                }
            }
        },
        ReadMode::Abandon | ReadMode::Detached => {}
    }
}

async fn read_payload_v3(p: &v3::Publish, mode: ReadMode, k: usize, log: &Log, gates: &Rc<Gates>) {
    match mode {
        ReadMode::All => match p.read_all().await {
            Ok(b) => log.push(Rec::HPayload { k, bytes: b.to_vec(), err: None }),
            Err(e) => log.push(Rec::HPayload { k, bytes: vec![], err: Some(format!("{e:?}")) }),
        },
        ReadMode::LateAll => {
            let g = gates.enter();
            gates.wait(g).await;
            gates.st.borrow_mut()[g].exited = true;
            match p.read_all().await {
                Ok(b) => log.push(Rec::HPayload { k, bytes: b.to_vec(), err: None }),
                Err(e) => log.push(Rec::HPayload { k, bytes: vec![], err: Some(format!("{e:?}")) }),
            }
        }
        ReadMode::Lazy => loop {
            let g = gates.enter();
            gates.wait(g).await;
            gates.st.borrow_mut()[g].exited = true;
            match p.read().await {
                Ok(Some(b)) => log.push(Rec::HPayload { k, bytes: b.to_vec(), err: None }),
                Ok(None) => break,
                Err(e) => {
                    log.push(Rec::HPayload { k, bytes: vec![], err: Some(format!("{e:?}")) });
                    break;
                }
            }
        },
        ReadMode::Abandon | ReadMode::Detached => {}
    }
}

/// Gates used by lazy readers are separate from handler gates.
pub struct Handles {
    pub log: Log,
    pub gates: Rc<Gates>,
    pub pgates: Rc<Gates>,
    pub hgates: Rc<Gates>,
    pub rgates: Rc<Gates>,
    pub cgates: Rc<Gates>,
    pub sink: Rc<RefCell<Option<Sink>>>,
}

thread_local! {
    /// control-service gates of the connection created last on this thread (CtlMode::Gated)
    static CGATES: RefCell<Option<Rc<Gates>>> = const { RefCell::new(None) };
}

impl Handles {
    fn new(cfg: &EpCfg) -> Self {
        Handles {
            log: Log::default(),
            gates: Gates::new(cfg.handler_auto),
            pgates: Gates::new(cfg.proto_auto),
            hgates: Gates::new(false),
            rgates: Gates::new(false),
            cgates: {
                let g = Gates::new(false);
                CGATES.with(|c| *c.borrow_mut() = Some(g.clone()));
                g
            },
            sink: {
                let s = Rc::new(RefCell::new(None));
                CUR_SINK.with(|c| *c.borrow_mut() = Some(s.clone()));
                s
            },
        }
    }
}

async fn v5_publish_handler(
    mut p: v5::Publish,
    cfg: EpCfg,
    log: Log,
    gates: Rc<Gates>,
    rgates: Rc<Gates>,
    tag: &'static str,
) -> Result<v5::PublishAck, TErr> {
    let k = gates.enter();
    let mut guard = DropGuard { log: log.clone(), gates: gates.clone(), k, proto: false, done: false };
    log.push(Rec::HEnter {
        k,
        qos: p.qos() as u8,
        pid: p.id().map_or(0, |i| i.get()),
        topic: format!("{}{}", tag, p.publish_topic()),
        dup: p.dup(),
        retain: p.retain(),
        size: p.payload_size(),
        props: props_str_v5(&p.packet().properties),
    });
    if cfg.close_on_a && p.publish_topic().to_string() == "a" {
        force_close_current();
    }
    if cfg.read_mode == ReadMode::Detached {
        let pl = p.take_payload();
        let log2 = log.clone();
        ntex_rt::spawn(async move {
            match pl.read_all().await {
                Ok(b) => log2.push(Rec::HPayload { k, bytes: b.to_vec(), err: None }),
                Err(e) => log2.push(Rec::HPayload { k, bytes: vec![], err: Some(format!("{e:?}")) }),
            }
        });
    } else {
        read_payload_v5(&p, cfg.read_mode, k, &log, &rgates).await;
    }
    let o = gates.wait(k).await;
    guard.finish();
    log.push(Rec::HExit { k, outcome: o });
    match o {
        GateOutcome::OkCode(c) => Ok(p.ack().reason_code(v5::codec::PublishAckReason::try_from(c).unwrap_or(v5::codec::PublishAckReason::UnspecifiedError))),
        GateOutcome::Ok if cfg.ack_decor => Ok(p.ack().reason(bs("rs")).properties(|u| u.push((bs("k"), bs(&"v".repeat(40)))))),
        GateOutcome::Ok => Ok(p.ack()),
        GateOutcome::Err => Err(TErr::Plain),
        GateOutcome::Nack(c) => Err(TErr::Nack(c)),
    }
}

async fn v3_publish_handler(
    mut p: v3::Publish,
    cfg: EpCfg,
    log: Log,
    gates: Rc<Gates>,
    rgates: Rc<Gates>,
) -> Result<(), TErr> {
    let k = gates.enter();
    let mut guard = DropGuard { log: log.clone(), gates: gates.clone(), k, proto: false, done: false };
    log.push(Rec::HEnter {
        k,
        qos: p.qos() as u8,
        pid: p.id().map_or(0, |i| i.get()),
        topic: p.publish_topic().to_string(),
        dup: p.dup(),
        retain: p.retain(),
        size: p.payload_size(),
        props: String::new(),
    });
    if cfg.read_mode == ReadMode::Detached {
        let pl = p.take_payload();
        let log2 = log.clone();
        ntex_rt::spawn(async move {
            match pl.read_all().await {
                Ok(b) => log2.push(Rec::HPayload { k, bytes: b.to_vec(), err: None }),
                Err(e) => log2.push(Rec::HPayload { k, bytes: vec![], err: Some(format!("{e:?}")) }),
            }
        });
    } else {
        read_payload_v3(&p, cfg.read_mode, k, &log, &rgates).await;
    }
    let o = gates.wait(k).await;
    guard.finish();
    log.push(Rec::HExit { k, outcome: o });
    match o {
        GateOutcome::Ok | GateOutcome::OkCode(_) => Ok(()),
        _ => Err(TErr::Plain),
    }
}

async fn gated_proto(log: &Log, pgates: &Rc<Gates>, kind: &str, pid: u16) -> (GateOutcome, DropGuard) {
    let k = pgates.enter();
    let guard = DropGuard { log: log.clone(), gates: pgates.clone(), k, proto: true, done: false };
    log.push(Rec::PEnter { k, kind: kind.into(), pid });
    let o = pgates.wait(k).await;
    (o, guard)
}

async fn ctl_service<R>(c: Control<TErr>, log: Log, mode: CtlMode, own: Option<R>) -> Result<Option<R>, TErr> {
    let lbl = ctl_label(&c);
    log.push(Rec::Ctl(lbl.clone()));
    let is_wr = matches!(c, Control::WrBackpressure(_));
    let r = match mode {
        CtlMode::Gated if !is_wr => {
            // the world may already have been dropped (teardown phase)
            let Some(g) = CGATES.with(|c| c.borrow().clone()) else {
                log.push(Rec::CtlDone(lbl));
                return Ok(None);
            };
            let k = g.enter();
            let o = g.wait(k).await;
            g.st.borrow_mut()[k].exited = true;
            match o {
                GateOutcome::Ok | GateOutcome::OkCode(_) => Ok(None),
                GateOutcome::Nack(_) => Ok(own),
                GateOutcome::Err => Err(TErr::Plain),
            }
        }
        CtlMode::Gated => Ok(None),
        CtlMode::None => Ok(None),
        CtlMode::OwnDisconnect => Ok(if is_wr { None } else { own }),
        CtlMode::Error => Err(TErr::Plain),
        CtlMode::ErrorOnWr => {
            if is_wr {
                Err(TErr::Plain)
            } else {
                Ok(None)
            }
        }
    };
    log.push(Rec::CtlDone(lbl));
    r
}

/// Start a v5 server connection; returns the harness-side handle.
macro_rules! v5_parts {
    ($h:ident, $cfg:ident, $handshake:ident, $protocol:ident, $control:ident) => {
    let (log, hg, sink, c) = ($h.log.clone(), $h.hgates.clone(), $h.sink.clone(), $cfg.clone());
    let $handshake = move |hs: v5::Handshake| {
        let (log, hg, sink, c) = (log.clone(), hg.clone(), sink.clone(), c.clone());
        async move {
            log.push(Rec::Handshake(format!(
                "connect id={} ka={} rm={:?} mps={:?}",
                hs.packet().client_id,
                hs.packet().keep_alive,
                hs.packet().receive_max,
                hs.packet().max_packet_size
            )));
            *sink.borrow_mut() = Some(Sink::V5(hs.sink()));
            match c.hs {
                HsMode::Refuse => {
                    return Ok(hs.failed::<()>(v5::codec::ConnectAckReason::NotAuthorized));
                }
                HsMode::Error => return Err(TErr::Plain),
                HsMode::Gated => {
                    let k = hg.enter();
                    hg.wait(k).await;
                }
                HsMode::Accept => {}
            }
            let mut ack = hs.ack(());
            if let Some(k) = c.hs_keepalive {
                ack = ack.keep_alive(k);
            }
            if c.hs_max_send.is_some() {
                ack = ack.max_send(c.hs_max_send);
            }
            let c2 = c.clone();
            ack = ack.with(move |p| {
                if let Some(v) = c2.hs_receive_max {
                    p.receive_max = std::num::NonZeroU16::new(v).unwrap();
                }
                if let Some(v) = c2.hs_max_qos {
                    p.max_qos = EpCfg::qos(v);
                }
                if let Some(v) = c2.hs_topic_alias_max {
                    p.topic_alias_max = v;
                }
                if let Some(v) = c2.hs_max_packet_size {
                    p.max_packet_size = Some(v);
                }
                if let Some(v) = c2.hs_retain_available {
                    p.retain_available = v;
                }
                if let Some(v) = c2.hs_sub_ids_available {
                    p.subscription_identifiers_available = v;
                }
            });
            log.push(Rec::Handshake("accepted".into()));
            Ok::<_, TErr>(ack)
        }
    };

    let (log, pg, c, psink) = ($h.log.clone(), $h.pgates.clone(), $cfg.clone(), $h.sink.clone());
    let $protocol = move |msg: v5::ProtocolMessage| {
        let (log, pg, _c, psink) = (log.clone(), pg.clone(), c.clone(), psink.clone());
        async move {
            if _c.proto_sends && matches!(&msg, v5::ProtocolMessage::Subscribe(_)) {
                let sk = psink.borrow().clone();
                if let Some(Sink::V5(sk)) = sk {
                    log.push(Rec::Note("proto-send:start".into()));
                    let r = sk.publish(ByteString::from_static("h")).send_at_least_once(Bytes::from_static(b"h")).await;
                    log.push(Rec::Note(format!("proto-send:{}", if r.is_ok() { "ok" } else { "err" })));
                }
            }
            let (kind, pid) = match &msg {
                v5::ProtocolMessage::Auth(_) => ("auth", 0),
                v5::ProtocolMessage::PublishRelease(m) => ("pubrel", m.packet().packet_id.get()),
                v5::ProtocolMessage::Subscribe(m) => ("sub", m.packet().packet_id.get()),
                v5::ProtocolMessage::Unsubscribe(m) => ("unsub", m.packet().packet_id.get()),
                v5::ProtocolMessage::Disconnect(_) => ("disconnect", 0),
                v5::ProtocolMessage::Ping(_) => ("ping", 0),
            };
            let kind = match &msg {
                v5::ProtocolMessage::Subscribe(m) => format!("sub:{}", m.packet().topic_filters.iter().map(|f| f.0.to_string()).collect::<Vec<_>>().join(",")),
                v5::ProtocolMessage::Unsubscribe(m) => format!("unsub:{}", m.packet().topic_filters.iter().map(|f| f.to_string()).collect::<Vec<_>>().join(",")),
                _ => kind.to_string(),
            };
            let (o, mut guard) = gated_proto(&log, &pg, &kind, pid).await;
            guard.finish();
            log.push(Rec::PExit { k: guard.k });
            match o {
                GateOutcome::Ok | GateOutcome::OkCode(_) => Ok::<_, TErr>(match msg {
                    v5::ProtocolMessage::Subscribe(mut m) => {
                        m.iter_mut().for_each(|mut s| s.confirm(v5::QoS::AtMostOnce));
                        m.ack()
                    }
                    v5::ProtocolMessage::Unsubscribe(m) => m.ack(),
                    v5::ProtocolMessage::Auth(m) => {
                        let resp = v5::codec::Auth {
                            reason_code: v5::codec::AuthReasonCode::ContinueAuth,
                            ..Default::default()
                        };
                        m.ack(resp)
                    }
                    m => m.ack(),
                }),
                // "Nack" on the protocol gate = the application asks to disconnect
                GateOutcome::Nack(c) => Ok(msg.disconnect_with(
                    v5::codec::Disconnect::new(
                        v5::codec::DisconnectReasonCode::try_from(c).unwrap_or(v5::codec::DisconnectReasonCode::UnspecifiedError),
                    )
                    .reason_string(Some("proto".into())),
                )),
                GateOutcome::Err => Err(TErr::Plain),
            }
        }
    };

    let (log, mode) = ($h.log.clone(), $cfg.ctl);
    let $control = fn_factory_with_config(move |_: v5::Session<()>| {
        let log = log.clone();
        async move {
            Ok::<_, TErr>(fn_service(move |c: Control<TErr>| {
                let own = Some(v5::codec::Encoded::Packet(v5::codec::Packet::Disconnect(
                    v5::codec::Disconnect::default().reason_string(Some("ctl".into())),
                )));
                ctl_service(c, log.clone(), mode, own)
            }))
        }
    });

    };
}

macro_rules! v3_parts {
    ($h:ident, $cfg:ident, $handshake:ident, $protocol:ident, $control:ident) => {
    let (log, hg, sink, c) = ($h.log.clone(), $h.hgates.clone(), $h.sink.clone(), $cfg.clone());
    let $handshake = move |hs: v3::Handshake| {
        let (log, hg, sink, c) = (log.clone(), hg.clone(), sink.clone(), c.clone());
        async move {
            log.push(Rec::Handshake(format!("connect id={} ka={}", hs.packet().client_id, hs.packet().keep_alive)));
            *sink.borrow_mut() = Some(Sink::V3(hs.sink()));
            match c.hs {
                HsMode::Refuse => return Ok(hs.not_authorized::<()>()),
                HsMode::Error => return Err(TErr::Plain),
                HsMode::Gated => {
                    let k = hg.enter();
                    hg.wait(k).await;
                }
                HsMode::Accept => {}
            }
            let mut ack = hs.ack((), false);
            if let Some(k) = c.hs_keepalive {
                ack = ack.idle_timeout(Seconds(k));
            }
            if c.hs_max_send.is_some() {
                ack = ack.max_send(c.hs_max_send);
            }
            if let Some(v) = c.hs_max_packet_size {
                if let Some(v) = std::num::NonZeroU32::new(v) {
                    ack = ack.max_packet_size(v);
                }
            }
            log.push(Rec::Handshake("accepted".into()));
            Ok::<_, TErr>(ack)
        }
    };

    let (log, pg, c3, psink) = ($h.log.clone(), $h.pgates.clone(), $cfg.clone(), $h.sink.clone());
    let $protocol = move |msg: v3::ProtocolMessage| {
        let (log, pg, c3, psink) = (log.clone(), pg.clone(), c3.clone(), psink.clone());
        async move {
            if c3.proto_sends && matches!(&msg, v3::ProtocolMessage::Subscribe(_)) {
                let sk = psink.borrow().clone();
                if let Some(Sink::V3(sk)) = sk {
                    log.push(Rec::Note("proto-send:start".into()));
                    let r = sk.publish(ByteString::from_static("h")).send_at_least_once(Bytes::from_static(b"h")).await;
                    log.push(Rec::Note(format!("proto-send:{}", if r.is_ok() { "ok" } else { "err" })));
                }
            }
            let (kind, pid) = match &msg {
                v3::ProtocolMessage::PublishRelease(m) => ("pubrel", m.packet_id.get()),
                v3::ProtocolMessage::Subscribe(m) => ("sub", { let _ = m; 0 }),
                v3::ProtocolMessage::Unsubscribe(m) => ("unsub", { let _ = m; 0 }),
                v3::ProtocolMessage::Disconnect(_) => ("disconnect", 0),
                v3::ProtocolMessage::Ping(_) => ("ping", 0),
            };
            let mut msg = msg;
            let kind = match &mut msg {
                v3::ProtocolMessage::Subscribe(m) => format!("sub:{}", m.iter_mut().map(|s| s.topic().to_string()).collect::<Vec<_>>().join(",")),
                v3::ProtocolMessage::Unsubscribe(m) => format!("unsub:{}", m.iter().map(|s| s.to_string()).collect::<Vec<_>>().join(",")),
                _ => kind.to_string(),
            };
            let (o, mut guard) = gated_proto(&log, &pg, &kind, pid).await;
            guard.finish();
            log.push(Rec::PExit { k: guard.k });
            match o {
                GateOutcome::Ok | GateOutcome::OkCode(_) => Ok::<_, TErr>(match msg {
                    v3::ProtocolMessage::Subscribe(mut m) => {
                        m.iter_mut().for_each(|mut s| s.confirm(v3::QoS::AtMostOnce));
                        m.ack()
                    }
                    v3::ProtocolMessage::Unsubscribe(m) => m.ack(),
                    m => m.ack(),
                }),
                GateOutcome::Nack(_) => Ok(msg.disconnect()),
                GateOutcome::Err => Err(TErr::Plain),
            }
        }
    };

    let (log, mode) = ($h.log.clone(), $cfg.ctl);
    let $control = fn_factory_with_config(move |_: v3::Session<()>| {
        let log = log.clone();
        async move {
            Ok::<_, TErr>(fn_service(move |c: Control<TErr>| ctl_service::<v3::codec::Encoded>(c, log.clone(), mode, None)))
        }
    });

    };
}

pub async fn start_v5_server(cfg: &EpCfg) -> Conn {
    let h = Handles::new(cfg);
    let (peer, server_io) = IoTest::create();
    peer.remote_buffer_cap(BIG);
    let scfg = cfg.shared_cfg();

    v5_parts!(h, cfg, handshake, protocol, control);
    let (log, g, rg, c) = (h.log.clone(), h.gates.clone(), h.rgates.clone(), cfg.clone());
    let log_done = h.log.clone();
    let io = IoBoxed::from(Io::new(server_io, scfg.clone()));

    if cfg.router {
        let mk = |tag: &'static str| {
            let (log, g, rg, c) = (log.clone(), g.clone(), rg.clone(), c.clone());
            move |p: v5::Publish| v5_publish_handler(p, c.clone(), log.clone(), g.clone(), rg.clone(), tag)
        };
        let router = v5::Router::new(fn_factory_with_config({
            let f = mk("D:");
            move |_: v5::Session<()>| {
                let f = f.clone();
                async move { Ok::<_, TErr>(fn_service(f)) }
            }
        }))
        .resource("a", fn_factory_with_config({
            let f = mk("A:");
            move |_: v5::Session<()>| {
                let f = f.clone();
                async move { Ok::<_, TErr>(fn_service(f)) }
            }
        }))
        .resource("b", fn_factory_with_config({
            let f = mk("B:");
            move |_: v5::Session<()>| {
                let f = f.clone();
                async move { Ok::<_, TErr>(fn_service(f)) }
            }
        }));
        let srv = v5::MqttServer::new(handshake).protocol(protocol).control(control).publish(router);
        let svc = ServiceFactory::<IoBoxed, SharedCfg>::create(&srv, scfg).await.expect("create v5 server");
        ntex_rt::spawn(async move {
            let r = Pipeline::new(svc).call(io).await;
            log_done.push(Rec::ConnDone(format!("{r:?}")));
        });
    } else {
        let publish = move |p: v5::Publish| v5_publish_handler(p, c.clone(), log.clone(), g.clone(), rg.clone(), "");
        if cfg.ready_gate {
            let st = new_ready_state();
            let publish = fn_factory_with_config(move |_: v5::Session<()>| {
                let svc = ReadyGate { f: publish.clone(), st: st.clone() };
                async move { Ok::<_, TErr>(svc) }
            });
            let srv = v5::MqttServer::new(handshake).protocol(protocol).control(control).publish(publish);
            let svc = ServiceFactory::<IoBoxed, SharedCfg>::create(&srv, scfg).await.expect("create v5 server");
            ntex_rt::spawn(async move {
                let r = Pipeline::new(svc).call(io).await;
                log_done.push(Rec::ConnDone(format!("{r:?}")));
            });
        } else if cfg.proto_default_service {
            let srv = v5::MqttServer::new(handshake).control(control).publish(publish);
            let svc = ServiceFactory::<IoBoxed, SharedCfg>::create(&srv, scfg).await.expect("create v5 server");
            ntex_rt::spawn(async move {
                let r = Pipeline::new(svc).call(io).await;
                log_done.push(Rec::ConnDone(format!("{r:?}")));
            });
        } else {
            let srv = v5::MqttServer::new(handshake).protocol(protocol).control(control).publish(publish);
            let svc = ServiceFactory::<IoBoxed, SharedCfg>::create(&srv, scfg).await.expect("create v5 server");
            ntex_rt::spawn(async move {
                let r = Pipeline::new(svc).call(io).await;
                log_done.push(Rec::ConnDone(format!("{r:?}")));
            });
        }
    }

    Conn {
        cfg: cfg.clone(),
        peer,
        wire: Vec::new(),
        parsed: 0,
        out: Vec::new(),
        parse_err: None,
        log: h.log,
        gates: h.gates,
        pgates: h.pgates,
        hgates: h.hgates,
        rgates: h.rgates,
        cgates: h.cgates,
        sink: h.sink,
        peer_closed: false,
        sent: Vec::new(),
        auto_pump: true,
    }
}

/// Start a v3 server connection.
pub async fn start_v3_server(cfg: &EpCfg) -> Conn {
    let h = Handles::new(cfg);
    let (peer, server_io) = IoTest::create();
    peer.remote_buffer_cap(BIG);
    let scfg = cfg.shared_cfg();

    v3_parts!(h, cfg, handshake, protocol, control);
    let (log, g, rg, c) = (h.log.clone(), h.gates.clone(), h.rgates.clone(), cfg.clone());
    let publish = move |p: v3::Publish| v3_publish_handler(p, c.clone(), log.clone(), g.clone(), rg.clone());
    let log_done = h.log.clone();
    let io = IoBoxed::from(Io::new(server_io, scfg.clone()));
    if cfg.ready_gate {
        let st = new_ready_state();
        let publish = fn_factory_with_config(move |_: v3::Session<()>| {
            let svc = ReadyGate { f: publish.clone(), st: st.clone() };
            async move { Ok::<_, TErr>(svc) }
        });
        let srv = v3::MqttServer::new(handshake).protocol(protocol).control(control).publish(publish);
        let svc = ServiceFactory::<IoBoxed, SharedCfg>::create(&srv, scfg).await.expect("create v3 server");
        ntex_rt::spawn(async move {
            let r = Pipeline::new(svc).call(io).await;
            log_done.push(Rec::ConnDone(format!("{r:?}")));
        });
    } else if cfg.proto_default_service {
        let srv = v3::MqttServer::new(handshake).control(control).publish(publish);
        let svc = ServiceFactory::<IoBoxed, SharedCfg>::create(&srv, scfg).await.expect("create v3 server");
        ntex_rt::spawn(async move {
            let r = Pipeline::new(svc).call(io).await;
            log_done.push(Rec::ConnDone(format!("{r:?}")));
        });
    } else {
        let srv = v3::MqttServer::new(handshake).protocol(protocol).control(control).publish(publish);
        let svc = ServiceFactory::<IoBoxed, SharedCfg>::create(&srv, scfg).await.expect("create v3 server");
        ntex_rt::spawn(async move {
            let r = Pipeline::new(svc).call(io).await;
            log_done.push(Rec::ConnDone(format!("{r:?}")));
        });
    }

    Conn {
        cfg: cfg.clone(),
        peer,
        wire: Vec::new(),
        parsed: 0,
        out: Vec::new(),
        parse_err: None,
        log: h.log,
        gates: h.gates,
        pgates: h.pgates,
        hgates: h.hgates,
        rgates: h.rgates,
        cgates: h.cgates,
        sink: h.sink,
        peer_closed: false,
        sent: Vec::new(),
        auto_pump: true,
    }
}

/// Combined server (`ntex_mqtt::MqttServer` with both protocol versions); `cfg.ver` is ignored for routing,
/// both services share the handles (log, gates) so the log tells which one accepted the CONNECT
/// (the v5 handshake record carries " rm=").
pub async fn start_combined_server(cfg: &EpCfg) -> Conn {
    start_combined_server_prefilled(cfg, &[]).await
}

/// `prefill`: bytes the peer has already written when the server starts (they are in the read buffer
/// when the version is sniffed for the first time)
pub async fn start_combined_server_prefilled(cfg: &EpCfg, prefill: &[u8]) -> Conn {
    let h = Handles::new(cfg);
    let (peer, server_io) = IoTest::create();
    peer.remote_buffer_cap(BIG);
    if !prefill.is_empty() {
        peer.write(prefill);
    }
    let scfg = cfg.shared_cfg();
    v3_parts!(h, cfg, handshake3, protocol3, control3);
    v5_parts!(h, cfg, handshake5, protocol5, control5);
    let (log, g, rg, c) = (h.log.clone(), h.gates.clone(), h.rgates.clone(), cfg.clone());
    let publish3 = move |p: v3::Publish| v3_publish_handler(p, c.clone(), log.clone(), g.clone(), rg.clone());
    let (log, g, rg, c) = (h.log.clone(), h.gates.clone(), h.rgates.clone(), cfg.clone());
    let publish5 = move |p: v5::Publish| v5_publish_handler(p, c.clone(), log.clone(), g.clone(), rg.clone(), "");
    let srv3 = v3::MqttServer::new(handshake3).protocol(protocol3).control(control3).publish(publish3);
    let srv5 = v5::MqttServer::new(handshake5).protocol(protocol5).control(control5).publish(publish5);
    let srv = ntex_mqtt::MqttServer::<_, _, TErr, ()>::new().v3(srv3).v5(srv5);
    let svc = ServiceFactory::<IoBoxed, SharedCfg>::create(&srv, scfg.clone()).await.expect("create combined server");
    let io = IoBoxed::from(Io::new(server_io, scfg));
    let log_done = h.log.clone();
    ntex_rt::spawn(async move {
        let r = Pipeline::new(svc).call(io).await;
        log_done.push(Rec::ConnDone(format!("{r:?}")));
    });
    mk_conn(cfg, peer, h)
}

pub fn bs(s: &str) -> ByteString {
    ByteString::from(s.to_string())
}

pub fn by(b: &[u8]) -> Bytes {
    Bytes::copy_from_slice(b)
}

// ---------------------------------------------------------------------------
// clients

use ntex_mqtt::v3::client as c3;
use ntex_mqtt::v5::client as c5;
use ntex_net::connect::{Connect as NetConnect, ConnectError};

fn mk_conn(cfg: &EpCfg, peer: IoTest, h: Handles) -> Conn {
    Conn {
        cfg: cfg.clone(),
        peer,
        wire: Vec::new(),
        parsed: 0,
        out: Vec::new(),
        parse_err: None,
        log: h.log,
        gates: h.gates,
        pgates: h.pgates,
        hgates: h.hgates,
        rgates: h.rgates,
        cgates: h.cgates,
        sink: h.sink,
        peer_closed: false,
        sent: Vec::new(),
        auto_pump: true,
    }
}

/// Start a v5 client over an in-memory transport. The harness answers CONNECT with a CONNACK
/// built from `cfg.client_connack_props` (written up front, so no event is needed).
pub async fn start_v5_client(cfg: &EpCfg) -> Conn {
    let h = Handles::new(cfg);
    let (peer, client_io) = IoTest::create();
    peer.remote_buffer_cap(BIG);
    let scfg = cfg.shared_cfg();
    // CONNACK first: the client reads it as soon as it has written CONNECT
    let connack = Pkt::ConnAck { session_present: false, code: 0, props: cfg.client_connack_props.clone() };
    peer.write(rf::encode(Ver::V5, &connack));

    let slot = Rc::new(RefCell::new(Some(client_io)));
    let scfg2 = scfg.clone();
    let connector = c5::MqttConnector::<String, _>::new().connector(fn_service(move |_: NetConnect<String>| {
        let io = slot.borrow_mut().take();
        let scfg = scfg2.clone();
        async move { io.map(|io| Io::new(io, scfg)).ok_or(ConnectError::Unresolved) }
    }));
    let svc = connector.create(scfg.clone()).await.expect("client connector");
    let mut req = c5::Connect::new("mem".to_string()).client_id("me").keep_alive(Seconds(cfg.client_keepalive));
    if cfg.max_receive != 0 && cfg.max_receive != 16 {
        req = req.max_receive(cfg.max_receive);
    }
    if cfg.max_size != 0 {
        req = req.max_packet_size(cfg.max_size);
    }
    let tam = cfg.max_topic_alias;
    req = req.packet(move |p| p.topic_alias_max = tam);

    let (log, sink, c) = (h.log.clone(), h.sink.clone(), cfg.clone());
    let (g, rg, pg) = (h.gates.clone(), h.rgates.clone(), h.pgates.clone());
    ntex_rt::spawn(async move {
        let client = match Pipeline::new(svc).call(req).await {
            Ok(c) => c,
            Err(e) => {
                log.push(Rec::ConnDone(format!("connect failed: {e:?}")));
                return;
            }
        };
        *sink.borrow_mut() = Some(Sink::V5(client.sink()));
        log.push(Rec::Handshake("accepted".into()));
        // protocol service: unhandled publishes (mode B), pubrel, disconnect, ping
        let (log2, g2, rg2, pg2, c2) = (log.clone(), g.clone(), rg.clone(), pg.clone(), c.clone());
        let protocol = move |msg: c5::control::ProtocolMessage| {
            let (log, g, rg, pg, c) = (log2.clone(), g2.clone(), rg2.clone(), pg2.clone(), c2.clone());
            async move {
                match msg {
                    c5::control::ProtocolMessage::Publish(p) => {
                        let k = g.enter();
                        let mut guard = DropGuard { log: log.clone(), gates: g.clone(), k, proto: false, done: false };
                        log.push(Rec::HEnter {
                            k,
                            qos: p.packet().qos as u8,
                            pid: p.packet().packet_id.map_or(0, |i| i.get()),
                            topic: p.packet().topic.to_string(),
                            dup: p.packet().dup,
                            retain: p.packet().retain,
                            size: p.payload_size(),
                            props: props_str_v5(&p.packet().properties),
                        });
                        match c.read_mode {
                            ReadMode::All => match p.read_all().await {
                                Ok(b) => log.push(Rec::HPayload { k, bytes: b.to_vec(), err: None }),
                                Err(e) => log.push(Rec::HPayload { k, bytes: vec![], err: Some(format!("{e:?}")) }),
                            },
                            ReadMode::LateAll => {
                                let gg = rg.enter();
                                rg.wait(gg).await;
                                rg.st.borrow_mut()[gg].exited = true;
                                match p.read_all().await {
                                    Ok(b) => log.push(Rec::HPayload { k, bytes: b.to_vec(), err: None }),
                                    Err(e) => log.push(Rec::HPayload { k, bytes: vec![], err: Some(format!("{e:?}")) }),
                                }
                            }
                            ReadMode::Lazy => loop {
                                let gg = rg.enter();
                                rg.wait(gg).await;
                                rg.st.borrow_mut()[gg].exited = true;
                                match p.read().await {
                                    Ok(Some(b)) => log.push(Rec::HPayload { k, bytes: b.to_vec(), err: None }),
                                    Ok(None) => break,
                                    Err(e) => {
                                        log.push(Rec::HPayload { k, bytes: vec![], err: Some(format!("{e:?}")) });
                                        break;
                                    }
                                }
                            },
                            ReadMode::Abandon | ReadMode::Detached => {}
                        }
                        let o = g.wait(k).await;
                        guard.finish();
                        log.push(Rec::HExit { k, outcome: o });
                        match o {
                            GateOutcome::Ok | GateOutcome::OkCode(_) => Ok::<_, TErr>(p.ack(v5::codec::PublishAckReason::Success)),
                            GateOutcome::Nack(code) => Ok(p.ack(
                                v5::codec::PublishAckReason::try_from(code).unwrap_or(v5::codec::PublishAckReason::UnspecifiedError),
                            )),
                            GateOutcome::Err => Err(TErr::Plain),
                        }
                    }
                    other => {
                        let (kind, pid) = match &other {
                            c5::control::ProtocolMessage::PublishRelease(m) => ("pubrel", m.packet().packet_id.get()),
                            c5::control::ProtocolMessage::Disconnect(_) => ("disconnect", 0),
                            c5::control::ProtocolMessage::Ping(_) => ("ping", 0),
                            c5::control::ProtocolMessage::Publish(_) => unreachable!(),
                        };
                        let (o, mut guard) = gated_proto(&log, &pg, kind, pid).await;
                        guard.finish();
                        log.push(Rec::PExit { k: guard.k });
                        match o {
                            GateOutcome::Err => Err(TErr::Plain),
                            GateOutcome::Nack(code) => Ok(other.disconnect(
                                v5::codec::Disconnect::new(
                                    v5::codec::DisconnectReasonCode::try_from(code).unwrap_or(v5::codec::DisconnectReasonCode::UnspecifiedError),
                                )
                                .reason_string(Some("proto".into())),
                            )),
                            GateOutcome::Ok | GateOutcome::OkCode(_) => Ok(other.ack()),
                        }
                    }
                }
            }
        };
        let r = if c.router {
            let mk = |tag: &'static str| {
                let (log, g, rg, c) = (log.clone(), g.clone(), rg.clone(), c.clone());
                move |p: v5::Publish| v5_publish_handler(p, c.clone(), log.clone(), g.clone(), rg.clone(), tag)
            };
            let r = client.resource("t", mk("")).resource("a", mk("A:")).resource("b", mk("B:")).start(protocol).await;
            format!("{r:?}")
        } else {
            let (logc, mode) = (log.clone(), c.ctl);
            let control = fn_service(move |ctl: Control<TErr>| {
                let own = Some(v5::codec::Encoded::Packet(v5::codec::Packet::Disconnect(v5::codec::Disconnect::default().reason_string(Some("ctl".into())))));
                ctl_service(ctl, logc.clone(), mode, own)
            });
            let r = if c.ready_gate {
                client.start_with_control(ReadyGate { f: protocol, st: new_ready_state() }, control).await
            } else {
                client.start_with_control(protocol, control).await
            };
            format!("{r:?}")
        };
        log.push(Rec::ConnDone(r));
    });
    mk_conn(cfg, peer, h)
}

pub async fn start_v3_client(cfg: &EpCfg) -> Conn {
    let h = Handles::new(cfg);
    let (peer, client_io) = IoTest::create();
    peer.remote_buffer_cap(BIG);
    let scfg = cfg.shared_cfg();
    peer.write(rf::encode(Ver::V3, &Pkt::ConnAck { session_present: false, code: 0, props: vec![] }));

    let slot = Rc::new(RefCell::new(Some(client_io)));
    let scfg2 = scfg.clone();
    let connector = c3::MqttConnector::<String, _>::new().connector(fn_service(move |_: NetConnect<String>| {
        let io = slot.borrow_mut().take();
        let scfg = scfg2.clone();
        async move { io.map(|io| Io::new(io, scfg)).ok_or(ConnectError::Unresolved) }
    }));
    let svc = connector.create(scfg.clone()).await.expect("client connector");
    let req = c3::Connect::new("mem".to_string()).client_id("me").keep_alive(Seconds(cfg.client_keepalive));

    let (log, sink, c) = (h.log.clone(), h.sink.clone(), cfg.clone());
    let (g, rg, pg) = (h.gates.clone(), h.rgates.clone(), h.pgates.clone());
    ntex_rt::spawn(async move {
        let client = match Pipeline::new(svc).call(req).await {
            Ok(c) => c,
            Err(e) => {
                log.push(Rec::ConnDone(format!("connect failed: {e:?}")));
                return;
            }
        };
        *sink.borrow_mut() = Some(Sink::V3(client.sink()));
        log.push(Rec::Handshake("accepted".into()));
        let (log2, g2, rg2, pg2, c2) = (log.clone(), g.clone(), rg.clone(), pg.clone(), c.clone());
        let protocol = move |msg: c3::control::ProtocolMessage| {
            let (log, g, rg, pg, c) = (log2.clone(), g2.clone(), rg2.clone(), pg2.clone(), c2.clone());
            async move {
                match msg {
                    c3::control::ProtocolMessage::Publish(p) => {
                        let k = g.enter();
                        let mut guard = DropGuard { log: log.clone(), gates: g.clone(), k, proto: false, done: false };
                        log.push(Rec::HEnter {
                            k,
                            qos: p.packet().qos as u8,
                            pid: p.packet().packet_id.map_or(0, |i| i.get()),
                            topic: p.packet().topic.to_string(),
                            dup: p.packet().dup,
                            retain: p.packet().retain,
                            size: p.payload_size(),
                            props: String::new(),
                        });
                        match c.read_mode {
                            ReadMode::All => match p.read_all().await {
                                Ok(b) => log.push(Rec::HPayload { k, bytes: b.to_vec(), err: None }),
                                Err(e) => log.push(Rec::HPayload { k, bytes: vec![], err: Some(format!("{e:?}")) }),
                            },
                            ReadMode::LateAll => {
                                let gg = rg.enter();
                                rg.wait(gg).await;
                                rg.st.borrow_mut()[gg].exited = true;
                                match p.read_all().await {
                                    Ok(b) => log.push(Rec::HPayload { k, bytes: b.to_vec(), err: None }),
                                    Err(e) => log.push(Rec::HPayload { k, bytes: vec![], err: Some(format!("{e:?}")) }),
                                }
                            }
                            ReadMode::Lazy => loop {
                                let gg = rg.enter();
                                rg.wait(gg).await;
                                rg.st.borrow_mut()[gg].exited = true;
                                match p.read().await {
                                    Ok(Some(b)) => log.push(Rec::HPayload { k, bytes: b.to_vec(), err: None }),
                                    Ok(None) => break,
                                    Err(e) => {
                                        log.push(Rec::HPayload { k, bytes: vec![], err: Some(format!("{e:?}")) });
                                        break;
                                    }
                                }
                            },
                            ReadMode::Abandon | ReadMode::Detached => {}
                        }
                        let o = g.wait(k).await;
                        guard.finish();
                        log.push(Rec::HExit { k, outcome: o });
                        match o {
                            GateOutcome::Ok | GateOutcome::OkCode(_) => Ok::<_, TErr>(p.ack()),
                            _ => Err(TErr::Plain),
                        }
                    }
                    other => {
                        let (kind, pid) = match &other {
                            c3::control::ProtocolMessage::PublishRelease(m) => ("pubrel", m.packet_id.get()),
                            c3::control::ProtocolMessage::Ping(_) => ("ping", 0),
                            c3::control::ProtocolMessage::Publish(_) => unreachable!(),
                        };
                        let (o, mut guard) = gated_proto(&log, &pg, kind, pid).await;
                        guard.finish();
                        log.push(Rec::PExit { k: guard.k });
                        match o {
                            GateOutcome::Err => Err(TErr::Plain),
                            _ => Ok(other.ack()),
                        }
                    }
                }
            }
        };
        let r = if c.router {
            let mk = || {
                let (log, g, rg, c) = (log.clone(), g.clone(), rg.clone(), c.clone());
                move |p: v3::Publish| v3_publish_handler(p, c.clone(), log.clone(), g.clone(), rg.clone())
            };
            let r = client.resource("t", mk()).resource("a", mk()).resource("b", mk()).start(protocol).await;
            format!("{r:?}")
        } else {
            let (logc, mode) = (log.clone(), c.ctl);
            let control = fn_service(move |ctl: Control<TErr>| ctl_service::<v3::codec::Encoded>(ctl, logc.clone(), mode, None));
            let r = if c.ready_gate {
                client.start_with_control(ReadyGate { f: protocol, st: new_ready_state() }, control).await
            } else {
                client.start_with_control(protocol, control).await
            };
            format!("{r:?}")
        };
        log.push(Rec::ConnDone(r));
    });
    mk_conn(cfg, peer, h)
}

/// Start the endpoint described by `cfg`; for servers the harness also sends CONNECT
/// (`connect_props` are the v5 CONNECT properties) unless `send_connect` is false.
pub async fn start_endpoint(cfg: &EpCfg, connect_props: rf::Props, send_connect: bool) -> Conn {
    match (cfg.ver, cfg.role) {
        (Ver::V5, Role::Server) => {
            let mut c = start_v5_server(cfg).await;
            if send_connect {
                c.send(&rf::connect(Ver::V5, "c", cfg.client_keepalive, connect_props));
            }
            c
        }
        (Ver::V3, Role::Server) => {
            let mut c = start_v3_server(cfg).await;
            if send_connect {
                c.send(&rf::connect(Ver::V3, "c", cfg.client_keepalive, vec![]));
            }
            c
        }
        (Ver::V5, Role::Client) => start_v5_client(cfg).await,
        (Ver::V3, Role::Client) => start_v3_client(cfg).await,
    }
}
