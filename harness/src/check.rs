//! Check framework shared by all properties: tiers, known findings, replay
//! files, evidence files, exit codes.
#![allow(dead_code)]
use std::collections::BTreeMap;
use std::path::PathBuf;
use std::time::{Duration, Instant};

use serde_json::{Value, json};

use crate::simnet::{ExploreCfg, Scenario, Stats, Violation, explore};

#[derive(Clone, Copy, Debug, PartialEq, Eq)]
pub enum Tier {
    Quick,
    Thorough,
}

impl Tier {
    pub fn name(self) -> &'static str {
        match self {
            Tier::Quick => "quick",
            Tier::Thorough => "thorough",
        }
    }
}

pub fn verif_root() -> PathBuf {
    std::env::var("VERIF_ROOT").map(PathBuf::from).unwrap_or_else(|_| PathBuf::from("/verif"))
}

#[derive(Clone, Debug)]
pub struct Known {
    pub id: String,
    pub status: String, // "known" | "fixed"
    pub clause: String,
    pub witness: String,
    pub text: String,
}

pub fn load_known(prop: &str) -> Vec<Known> {
    let p = verif_root().join("known_findings.json");
    let Ok(s) = std::fs::read_to_string(&p) else { return Vec::new() };
    let v: Value = serde_json::from_str(&s).expect("known_findings.json parses");
    let mut out = Vec::new();
    for f in v["findings"].as_array().cloned().unwrap_or_default() {
        if f["property"].as_str() == Some(prop) {
            out.push(Known {
                id: f["id"].as_str().unwrap_or("").into(),
                status: f["status"].as_str().unwrap_or("known").into(),
                clause: f["clause"].as_str().unwrap_or("").into(),
                witness: f["witness"].as_str().unwrap_or("").into(),
                text: f["text"].as_str().unwrap_or("").into(),
            });
        }
    }
    out
}

/// One violating case found by a check.
#[derive(Clone, Debug)]
pub struct Finding {
    pub clause: String,
    pub witness: String,
    pub detail: String,
    /// everything needed to replay: engine-specific JSON
    pub replay: Value,
}

pub struct Check {
    pub prop: &'static str,
    pub tier: Tier,
    pub seed: i64,
    pub start: Instant,
    pub deadline: Instant,
    pub known: Vec<Known>,
    pub level: &'static str,
    // accumulated coverage
    pub evaluations: u64,
    pub states: u64,
    pub transitions: u64,
    pub distinct_nontrivial: u64,
    pub exhaustive: bool,
    pub caps: Vec<String>,
    pub rule: String,
    pub samples: Vec<Value>,
    pub per_config: Vec<Value>,
    pub assumptions: Vec<String>,
    pub extra: BTreeMap<String, Value>,
    pub findings: Vec<Finding>,
    pub finding_counts: BTreeMap<String, u64>,
    pub machinery: Vec<String>,
    /// violations whose schedule reproduced twice on fresh threads before being reported
    pub replays_confirmed: u64,
    /// executions in which the endpoint busy-looped (no property speaks about that; reported as an observation)
    pub busy_loops: u64,
    pub busy_loop_sample: Option<Value>,
}

impl Check {
    pub fn new(prop: &'static str, tier: Tier, budget: Duration) -> Self {
        let seed = std::env::var("VERIF_SEED").ok().and_then(|s| s.parse().ok()).unwrap_or(0);
        let start = Instant::now();
        Self::install_hang_handler(prop, tier, seed, start);
        b_start_monitor(prop, tier, seed, start);
        Check {
            prop,
            tier,
            seed,
            start,
            deadline: start + budget,
            known: load_known(prop),
            level: "model_checking",
            evaluations: 0,
            states: 0,
            transitions: 0,
            distinct_nontrivial: 0,
            exhaustive: true,
            caps: Vec::new(),
            rule: String::new(),
            samples: Vec::new(),
            per_config: Vec::new(),
            assumptions: Vec::new(),
            extra: BTreeMap::new(),
            findings: Vec::new(),
            finding_counts: BTreeMap::new(),
            machinery: Vec::new(),
            replays_confirmed: 0,
            busy_loops: 0,
            busy_loop_sample: None,
        }
    }

    /// Install the watchdog's handler: an execution whose task poll never returns ends the run with a
    /// replay file, an evidence file that says the exploration was aborted, and a verdict line.
    fn install_hang_handler(prop: &'static str, tier: Tier, seed: i64, start: Instant) {
        *crate::simnet::HANG_HANDLER.lock().unwrap() = Some(Box::new(move |kind, rec, cfg, is_violation| {
            let abort = kind == "process-abort";
            let root = verif_root();
            let execs = crate::simnet::EXECS_DONE.load(std::sync::atomic::Ordering::Relaxed);
            let dir = root.join("replays").join(prop);
            let _ = std::fs::create_dir_all(&dir);
            let path = dir.join(format!("{kind}.json"));
            let witness = if abort { crate::simnet::panic_site(rec.panic.as_deref().unwrap_or("?")) } else { "a task poll never returned".to_string() };
            let detail = if abort {
                format!(
                    "the library panicked ({}) and panicked again in a destructor while unwinding: the Rust runtime aborts the process, as it would abort the user's; the exploration ended after {execs} executions; events so far {:?}",
                    rec.panic.as_deref().unwrap_or("?"),
                    rec.labels
                )
            } else if kind == "memory-runaway" {
                format!(
                    "the process grew past its memory cap while a task poll of the endpoint had not returned for seconds (an endless loop that allocates); the exploration was aborted after {execs} executions; events so far {:?}",
                    rec.labels
                )
            } else {
                format!(
                    "a task poll of the endpoint did not return within the watchdog limit (an endless loop inside one poll): the execution cannot continue and the exploration was aborted after {execs} executions; events so far {:?}",
                    rec.labels
                )
            };
            let body = json!({
                "property": prop, "tier": tier.name(), "clause": kind, "witness": witness,
                "detail": detail,
                "replay": {"engine": "simnet", "cfg_index": crate::simnet::CUR_CFG_INDEX.load(std::sync::atomic::Ordering::Relaxed), "max_polls": crate::simnet::CUR_MAX_POLLS.load(std::sync::atomic::Ordering::Relaxed), "cfg": cfg, "choices": rec.choices, "events": rec.labels, "log": rec.log, "note": if abort { "replaying this schedule aborts the replaying process as well" } else { "replaying this schedule does not terminate either; run `mc replay` under a timeout" }},
            });
            let _ = std::fs::write(&path, serde_json::to_string_pretty(&body).unwrap());
            let ev = json!({
                "property_id": prop, "tier": tier.name(), "seed": seed, "level": "model_checking",
                "coverage": {
                    "evaluations": execs, "distinct_nontrivial": 0,
                    "rule": format!("ABORTED ({kind}) in the execution written to the replay file; counts are the executions completed before that"),
                    "samples": [rec.labels], "states": execs.max(1), "transitions": execs.max(1), "traces_validated_against_impl": execs,
                    "exhaustive": false, "caps_hit": [format!("aborted: {kind}")],
                },
                "assumptions": [], "wall_s": start.elapsed().as_secs_f64(), "violations": if is_violation { 1 } else { 0 },
            });
            let evdir = root.join("evidence");
            let _ = std::fs::create_dir_all(&evdir);
            let _ = std::fs::write(evdir.join(format!("{prop}.json")), serde_json::to_string_pretty(&ev).unwrap());
            if is_violation {
                println!("VIOLATION property={prop} replay={}", path.display());
                println!("  clause={kind} witness={witness}");
                println!("  {}", detail.chars().take(600).collect::<String>());
                println!("{prop} {}: evaluations={execs} exhaustive=false unknown_violations=1 (aborted) wall={:.1}s", tier.name(), start.elapsed().as_secs_f64());
                use std::io::Write;
                let _ = std::io::stdout().flush();
                if abort {
                    unsafe { libc::_exit(1) };
                }
                std::process::exit(1);
            }
        }));
    }

    pub fn time_left(&self) -> Duration {
        self.deadline.saturating_duration_since(Instant::now())
    }

    pub fn is_known(&self, clause: &str, witness: &str) -> Option<&Known> {
        self.known.iter().find(|k| k.status == "known" && k.clause == clause && k.witness == witness)
    }

    pub fn add_finding(&mut self, f: Finding) {
        let key = format!("{}|{}", f.clause, f.witness);
        let n = self.finding_counts.entry(key).or_default();
        *n += 1;
        if *n == 1 && self.findings.len() < 200 {
            self.findings.push(f);
        }
    }

    pub fn add_finding_n(&mut self, f: Finding, n: u64) {
        let key = format!("{}|{}", f.clause, f.witness);
        self.add_finding(f);
        *self.finding_counts.entry(key).or_default() += n.saturating_sub(1);
    }

    pub fn unknown_classes(&self) -> usize {
        self.findings.iter().filter(|f| self.is_known(&f.clause, &f.witness).is_none()).count()
    }

    /// Explore one configuration of an Engine A scenario and fold the result in.
    pub fn explore<S: Scenario>(&mut self, scenario: &str, cfg_index: usize, cfg: &S::Cfg, ecfg: &ExploreCfg) -> Stats {
        if Instant::now() >= self.deadline {
            self.exhaustive = false;
            self.caps.push(format!("time budget exhausted before config #{cfg_index} {cfg:?}"));
            return Stats::default();
        }
        crate::simnet::CUR_CFG_INDEX.store(cfg_index, std::sync::atomic::Ordering::Relaxed);
        crate::simnet::CUR_MAX_POLLS.store(ecfg.max_polls, std::sync::atomic::Ordering::Relaxed);
        let st = explore::<S>(cfg, ecfg, self.deadline);
        if std::env::var("VERIF_RSSDBG").is_ok() {
            let rss = std::fs::read_to_string("/proc/self/statm").ok().and_then(|s| s.split_whitespace().nth(1).and_then(|x| x.parse::<u64>().ok())).unwrap_or(0) * 4096 / (1 << 20);
            eprintln!("rss after config #{cfg_index}: {rss} MiB ({} executions)", st.execs);
        }
        self.evaluations += st.execs;
        self.states += st.points;
        self.transitions += st.transitions;
        if let Some(c) = &st.cap_hit {
            self.exhaustive = false;
            self.caps.push(format!("config #{cfg_index} {cfg:?}: {c}"));
        }
        for m in &st.machinery_errors {
            self.machinery.push(m.clone());
        }
        for s in st.samples.iter().take(1) {
            if self.samples.len() < 5 {
                self.samples.push(json!({"scenario": scenario, "config": format!("{cfg:?}"), "events": s}));
            }
        }
        self.per_config.push(json!({
            "scenario": scenario,
            "index": cfg_index,
            "config": format!("{cfg:?}"),
            "max_deviations": ecfg.max_dev,
            "executions": st.execs,
            "choice_points": st.points,
            "transitions": st.transitions,
            "distinct_outcomes": st.outcomes.len(),
            "distinct_nontrivial_outcomes": st.nontrivial_outcomes.len(),
            "nontrivial_executions": st.nontrivial_execs,
            "max_depth": st.max_depth,
            "violation_classes": st.violation_classes,
            "cap_hit": st.cap_hit,
            "isolation": st.isolation,
        }));
        self.distinct_nontrivial += st.nontrivial_outcomes.len() as u64;
        self.busy_loops += st.spin_execs;
        if self.busy_loop_sample.is_none() {
            if let Some(l) = &st.spin_sample {
                self.busy_loop_sample = Some(json!({"scenario": scenario, "cfg_index": cfg_index, "events": l}));
            }
        }
        for v in &st.violations {
            // a violation is only believed if its schedule reproduces it, twice, on fresh OS threads
            // (no state shared with any other execution); otherwise it is a machinery problem, never a verdict
            let mut reproduced = 0;
            for _ in 0..2 {
                let rec = crate::simnet::run_one::<S>(cfg, &v.choices, ecfg.max_polls);
                if let Some(crate::simnet::Verdict::Violation(vv)) = &rec.verdict {
                    if vv.clause == v.violation.clause && vv.witness == v.violation.witness {
                        reproduced += 1;
                    }
                }
            }
            if reproduced != 2 {
                self.machinery.push(format!(
                    "violation [{}] {} of config #{cfg_index} reproduced {reproduced}/2 times on fresh threads (choices {:?})",
                    v.violation.clause, v.violation.witness, v.choices
                ));
                continue;
            }
            self.replays_confirmed += 1;
            let n = st.violation_classes.get(&format!("{}|{}", v.violation.clause, v.violation.witness)).copied().unwrap_or(1);
            self.add_finding_n(Finding {
                clause: v.violation.clause.clone(),
                witness: v.violation.witness.clone(),
                detail: v.violation.detail.clone(),
                replay: json!({
                    "engine": "simnet",
                    "scenario": scenario,
                    "cfg_index": cfg_index,
                    "config": v.cfg,
                    "max_polls": ecfg.max_polls,
                    "choices": v.choices,
                    "events": v.labels,
                    "log": v.log,
                }),
            }, n);
        }
        st
    }

    /// Write evidence + replays, print verdict lines, return process exit code.
    pub fn finish(mut self) -> i32 {
        let root = verif_root();
        let wall = self.start.elapsed().as_secs_f64();
        let mut unknown = 0;
        let mut known_hits: Vec<String> = Vec::new();
        let mut lines: Vec<String> = Vec::new();
        let findings = std::mem::take(&mut self.findings);
        // the replay directory mirrors the last run of this property: stale witnesses are removed
        if let Ok(rd) = std::fs::read_dir(root.join("replays").join(self.prop)) {
            for e in rd.flatten() {
                if e.path().extension().is_some_and(|x| x == "json") {
                    let _ = std::fs::remove_file(e.path());
                }
            }
        }
        for f in &findings {
            if let Some(k) = self.is_known(&f.clause, &f.witness) {
                if !known_hits.contains(&k.id) {
                    known_hits.push(k.id.clone());
                    lines.push(format!("KNOWN-FINDING: property={} {} [{}] {}", self.prop, k.id, k.clause, k.text));
                }
            } else {
                unknown += 1;
                let dir = root.join("replays").join(self.prop);
                let _ = std::fs::create_dir_all(&dir);
                let mut h = std::collections::hash_map::DefaultHasher::new();
                use std::hash::{Hash, Hasher};
                f.clause.hash(&mut h);
                f.witness.hash(&mut h);
                let path = dir.join(format!("{:016x}.json", h.finish()));
                let body = json!({
                    "property": self.prop,
                    "tier": self.tier.name(),
                    "clause": f.clause,
                    "witness": f.witness,
                    "detail": f.detail,
                    "replay": f.replay,
                });
                let _ = std::fs::write(&path, serde_json::to_string_pretty(&body).unwrap());
                lines.push(format!("VIOLATION property={} replay={}", self.prop, path.display()));
                lines.push(format!("  clause={} witness={}", f.clause, f.witness));
                lines.push(format!("  {}", f.detail.chars().take(600).collect::<String>()));
            }
        }
        if self.samples.is_empty() {
            self.samples.push(json!("(no sample recorded)"));
        }
        let mut coverage = json!({
            "evaluations": self.evaluations,
            "distinct_nontrivial": self.distinct_nontrivial,
            "rule": self.rule,
            "samples": self.samples,
            "states": self.states.max(if self.level == "model_checking" { 1 } else { 0 }),
            "transitions": self.transitions.max(if self.level == "model_checking" { 1 } else { 0 }),
            "traces_validated_against_impl": self.evaluations,
            "exhaustive": self.exhaustive && self.caps.is_empty(),
            "caps_hit": self.caps,
            "per_config": self.per_config,
            "finding_classes": self.finding_counts,
            "known_findings_hit": known_hits,
            "unknown_violation_classes": unknown,
            "violations_reproduced_twice_on_fresh_threads": self.replays_confirmed,
            "busy_loop_executions": self.busy_loops,
            "busy_loop_sample": self.busy_loop_sample,
        });
        for (k, v) in &self.extra {
            coverage[k] = v.clone();
        }
        let ev = json!({
            "property_id": self.prop,
            "tier": self.tier.name(),
            "seed": self.seed,
            "level": self.level,
            "coverage": coverage,
            "assumptions": self.assumptions,
            "wall_s": wall,
            "violations": unknown,
        });
        let evdir = root.join("evidence");
        let _ = std::fs::create_dir_all(&evdir);
        std::fs::write(evdir.join(format!("{}.json", self.prop)), serde_json::to_string_pretty(&ev).unwrap())
            .expect("write evidence");
        for l in &lines {
            println!("{l}");
        }
        println!(
            "{} {}: evaluations={} states={} transitions={} distinct_nontrivial={} exhaustive={} unknown_violations={} wall={:.1}s",
            self.prop,
            self.tier.name(),
            self.evaluations,
            self.states,
            self.transitions,
            self.distinct_nontrivial,
            self.exhaustive && self.caps.is_empty(),
            unknown,
            wall
        );
        if !self.machinery.is_empty() {
            eprintln!("MACHINERY ERROR ({}): {}", self.machinery.len(), self.machinery[0]);
            return 2;
        }
        if unknown > 0 { 1 } else { 0 }
    }
}

pub fn viol_finding(v: &Violation, replay: Value) -> Finding {
    Finding { clause: v.clause.clone(), witness: v.witness.clone(), detail: v.detail.clone(), replay }
}

// ---------------------------------------------------------------------------------------------------------------
// Engine B guard: a library call (decode / encode / match) that never returns.
// Engine B drives pure functions from plain worker threads; there is no runtime whose poll callback could beat. Each
// worker announces the input it is about to hand to the library; a monitor thread reports the input of a worker
// that has been inside one call for the watchdog limit while burning CPU (an endless loop), as clause `never-returns`.
// ---------------------------------------------------------------------------------------------------------------
pub struct BSlot {
    seq: std::sync::atomic::AtomicU64,
    busy: std::sync::atomic::AtomicBool,
    cpu_clock: libc::clockid_t,
    // (label, input) of the call in progress as raw (pointer, length) pairs: written by the owning thread with plain
    // stores, read by the monitor only after the sequence number has stood still for the whole watchdog limit with the
    // slot busy - the owner is then stuck inside the announced region, where both referents are alive and unchanged
    label: (std::sync::atomic::AtomicUsize, std::sync::atomic::AtomicUsize),
    input: (std::sync::atomic::AtomicUsize, std::sync::atomic::AtomicUsize),
}
static BSLOTS: std::sync::Mutex<Vec<std::sync::Arc<BSlot>>> = std::sync::Mutex::new(Vec::new());
static BINFO: std::sync::OnceLock<(&'static str, Tier, i64, Instant)> = std::sync::OnceLock::new();
thread_local! {
    static BSLOT: std::sync::Arc<BSlot> = {
        let mut cid: libc::clockid_t = 0;
        if unsafe { libc::pthread_getcpuclockid(libc::pthread_self(), &mut cid) } != 0 {
            cid = -1;
        }
        let s = std::sync::Arc::new(BSlot { seq: 0.into(), busy: false.into(), cpu_clock: cid, label: (0.into(), 0.into()), input: (0.into(), 0.into()) });
        BSLOTS.lock().unwrap().push(s.clone());
        s
    };
}

/// Announce that `bytes` are about to be handed to the library function `what` on this thread. `bytes` must stay
/// alive and unchanged until `b_leave()` (callers pass the immutable input of the whole evaluation).
#[inline]
pub fn b_enter(what: &'static str, bytes: &[u8]) {
    use std::sync::atomic::Ordering::Relaxed;
    BSLOT.with(|s| {
        s.label.0.store(what.as_ptr() as usize, Relaxed);
        s.label.1.store(what.len(), Relaxed);
        s.input.0.store(bytes.as_ptr() as usize, Relaxed);
        s.input.1.store(bytes.len().min(512), Relaxed);
        s.seq.fetch_add(1, Relaxed);
        s.busy.store(true, Relaxed);
    });
}

/// The call announced by `b_enter` has returned.
#[inline]
pub fn b_leave() {
    use std::sync::atomic::Ordering::Relaxed;
    BSLOT.with(|s| {
        s.seq.fetch_add(1, Relaxed);
        s.busy.store(false, Relaxed);
    });
}

fn b_cpu(cid: libc::clockid_t) -> Option<f64> {
    if cid == -1 {
        return None;
    }
    let mut ts = libc::timespec { tv_sec: 0, tv_nsec: 0 };
    if unsafe { libc::clock_gettime(cid, &mut ts) } == 0 { Some(ts.tv_sec as f64 + ts.tv_nsec as f64 / 1e9) } else { None }
}

fn b_monitor() {
    use std::sync::atomic::Ordering::Relaxed;
    let limit: u64 = std::env::var("VERIF_HANG_SECS").ok().and_then(|s| s.parse().ok()).unwrap_or(30);
    let mut last: std::collections::HashMap<usize, (u64, Instant, Option<f64>)> = std::collections::HashMap::new();
    loop {
        std::thread::sleep(Duration::from_millis(1000));
        let slots: Vec<std::sync::Arc<BSlot>> = BSLOTS.lock().unwrap().clone();
        for s in &slots {
            let key = std::sync::Arc::as_ptr(s) as usize;
            let seq = s.seq.load(Relaxed);
            let cpu = b_cpu(s.cpu_clock);
            let e = last.entry(key).or_insert((seq, Instant::now(), cpu));
            if !s.busy.load(Relaxed) || seq != e.0 {
                *e = (seq, Instant::now(), cpu);
                continue;
            }
            // (a thread that has exited has no CPU clock any more: never a verdict)
            let burnt = match (cpu, e.2) {
                (Some(a), Some(b)) => a - b,
                _ => 0.0,
            };
            if e.1.elapsed().as_secs() < limit || burnt < limit as f64 * 2.0 / 3.0 {
                continue;
            }
            let Some((prop, tier, seed, start)) = BINFO.get().copied() else { continue };
            let (what, bytes): (String, Vec<u8>) = unsafe {
                let l = std::slice::from_raw_parts(s.label.0.load(Relaxed) as *const u8, s.label.1.load(Relaxed));
                let b = std::slice::from_raw_parts(s.input.0.load(Relaxed) as *const u8, s.input.1.load(Relaxed));
                (String::from_utf8_lossy(l).into_owned(), b.to_vec())
            };
            let root = verif_root();
            let dir = root.join("replays").join(prop);
            let _ = std::fs::create_dir_all(&dir);
            let path = dir.join("never-returns.json");
            let hex: String = bytes.iter().map(|b| format!("{b:02x}")).collect();
            let detail = format!("the library call `{what}` did not return within {limit} s while its thread kept a CPU busy (an endless loop) on input {hex}");
            let body = json!({"property": prop, "tier": tier.name(), "clause": "never-returns", "witness": what, "detail": detail,
                "replay": {"engine": "codec", "call": what, "hex_full": hex, "note": "handing these bytes to the named library function does not return"}});
            let _ = std::fs::write(&path, serde_json::to_string_pretty(&body).unwrap());
            let ev = json!({"property_id": prop, "tier": tier.name(), "seed": seed, "level": "model_checking",
                "coverage": {"evaluations": 0, "distinct_nontrivial": 0, "rule": "ABORTED (never-returns): a library call did not return on the input written to the replay file",
                    "samples": [hex], "states": 1, "transitions": 1, "traces_validated_against_impl": 0, "exhaustive": false, "caps_hit": ["aborted: never-returns"]},
                "assumptions": [], "wall_s": start.elapsed().as_secs_f64(), "violations": 1});
            let evdir = root.join("evidence");
            let _ = std::fs::create_dir_all(&evdir);
            let _ = std::fs::write(evdir.join(format!("{prop}.json")), serde_json::to_string_pretty(&ev).unwrap());
            println!("VIOLATION property={prop} replay={}", path.display());
            println!("  clause=never-returns witness={what}");
            println!("  {detail}");
            println!("{prop} {}: exhaustive=false unknown_violations=1 (aborted) wall={:.1}s", tier.name(), start.elapsed().as_secs_f64());
            use std::io::Write;
            let _ = std::io::stdout().flush();
            std::process::exit(1);
        }
    }
}

pub fn b_start_monitor(prop: &'static str, tier: Tier, seed: i64, start: Instant) {
    if BINFO.set((prop, tier, seed, start)).is_ok() {
        let _ = std::thread::Builder::new().name("b-monitor".into()).spawn(b_monitor);
    }
}
