//! C18 (connection part): SUBSCRIBE / UNSUBSCRIBE whose filter list contains a filter that section 4.7 does not
//! allow ends the connection with a protocol error before the application sees it; a list of valid filters reaches
//! the protocol service unchanged. v3 and v5 server, every list over a small set of valid and invalid filters.
use std::future::Future;
use std::pin::Pin;

use crate::check::Check;
use crate::refmqtt::{Pkt, Ver};
use crate::simnet::{ExploreCfg, Outcome, Scenario, Violation};
use crate::world::*;

#[derive(Clone, Debug)]
pub struct FvCfg {
    pub ep: EpCfg,
    pub unsub: bool,
    pub lists: Vec<Vec<String>>,
    /// a QoS 1 PUBLISH with the request's packet id is still being handled (gated handler) when the request arrives:
    /// an invalid filter is a protocol error all the same, whatever else is wrong with the packet (seeded change
    /// C18_r10 looked at the packet id first and answered "identifier in use"); only lists with an invalid filter
    /// are judged in this variant
    pub busy_id: bool,
}

#[derive(Clone, Copy, Debug, PartialEq, Eq)]
pub enum FEv {
    Case(u16),
}

pub struct Fv {
    cfg: FvCfg,
    conn: Conn,
    case: Option<usize>,
}

impl Fv {
    fn wit(&self, what: &str) -> String {
        format!("{} {} {what}", self.cfg.ep.label(), if self.cfg.unsub { "UNSUBSCRIBE" } else { "SUBSCRIBE" })
    }
    fn detail(&self) -> String {
        format!("filters={:?} wire_out={:?} log={:?}", self.case.map(|c| self.cfg.lists[c].clone()), self.conn.out_short(), self.conn.log.render())
    }
}

impl Scenario for Fv {
    type Cfg = FvCfg;
    type Ev = FEv;

    fn build(cfg: &FvCfg) -> Pin<Box<dyn Future<Output = Self>>> {
        let cfg = cfg.clone();
        Box::pin(async move {
            let conn = start_endpoint(&cfg.ep, vec![], true).await;
            Fv { cfg, conn, case: None }
        })
    }

    fn enabled(&self, q: bool) -> Vec<FEv> {
        let handshaken = self.conn.sink.borrow().is_some() && self.conn.log.count(|r| matches!(r, Rec::Handshake(s) if s == "accepted")) > 0;
        if !q || !handshaken || self.case.is_some() {
            return vec![];
        }
        (0..self.cfg.lists.len()).map(|i| FEv::Case(i as u16)).collect()
    }

    fn apply(&mut self, ev: FEv) {
        let FEv::Case(i) = ev;
        self.case = Some(i as usize);
        let l = &self.cfg.lists[i as usize];
        if self.cfg.busy_id {
            self.conn.send(&crate::refmqtt::publish(1, 7, "t", b"p"));
        }
        let p = if self.cfg.unsub {
            Pkt::Unsubscribe { pid: 7, props: vec![], filters: l.clone() }
        } else {
            Pkt::Subscribe { pid: 7, props: vec![], filters: l.iter().map(|f| (f.clone(), 0u8)).collect() }
        };
        self.conn.send(&p);
    }

    fn check(&mut self, _q: bool) -> Result<(), Violation> {
        self.conn.pump();
        Ok(())
    }

    fn drain(&mut self) -> bool {
        false
    }

    fn finish(&mut self) -> Result<Outcome, Violation> {
        self.conn.pump();
        let Some(c) = self.case else { return Ok(Outcome { obs: "no case".into(), nontrivial: false }) };
        let l = self.cfg.lists[c].clone();
        let all_valid = l.iter().all(|f| crate::c18::ref_valid_filter(f));
        let stops = self.conn.log.stops();
        let want_kind = format!("{}:{}", if self.cfg.unsub { "unsub" } else { "sub" }, l.join(","));
        let seen: Vec<String> = self.conn.log.snapshot().iter().filter_map(|(_, r)| if let Rec::PEnter { kind, .. } = r { Some(kind.clone()) } else { None }).collect();
        let acked = self.conn.out.iter().any(|(_, p)| matches!(p, Pkt::SubAck { pid: 7, .. } | Pkt::UnsubAck { pid: 7, .. }));
        if all_valid && self.cfg.busy_id {
            return Ok(Outcome { obs: "valid list with a busy id: not judged".into(), nontrivial: false });
        }
        if all_valid {
            if !stops.is_empty() || self.conn.done() {
                return Err(Violation::new("connection-validation", self.wit("rejects-valid"), format!("a list of valid filters ended the connection ({stops:?}): {}", self.detail())));
            }
            if seen != vec![want_kind.clone()] {
                return Err(Violation::new("connection-validation", self.wit("filters-altered"), format!("the protocol service saw {seen:?}, expected [{want_kind}]: {}", self.detail())));
            }
            if !acked {
                return Err(Violation::new("connection-validation", self.wit("not-acknowledged"), format!("no acknowledgement for a valid request: {}", self.detail())));
            }
        } else {
            if !seen.is_empty() || acked {
                return Err(Violation::new("connection-validation", self.wit("accepts-invalid"), format!("a list with a filter section 4.7 does not allow reached the application (seen {seen:?}, acknowledged {acked}): {}", self.detail())));
            }
            if stops.len() != 1 || !stops[0].starts_with("Stop:Proto") {
                return Err(Violation::new("connection-validation", self.wit("no-protocol-error"), format!("expected the connection to end with one protocol error, control service saw {stops:?}: {}", self.detail())));
            }
        }
        Ok(Outcome { obs: format!("{l:?} valid={all_valid} stops={}", stops.len()), nontrivial: l.len() > 1 })
    }
}

pub fn configs(full: bool) -> Vec<FvCfg> {
    let valid: Vec<&str> = if full { vec!["a", "a/b", "+", "#", "a/#", "+/b/#", "$a/#", "/", "a//b"] } else { vec!["a", "+", "a/#", "+/b/#", "$a/#"] };
    let invalid: Vec<&str> = if full { vec!["a#", "#/a", "a/#/b", "a+", "+a/b", "a/#/#", "", "a/b#"] } else { vec!["a#", "#/a", "a/+b", "a/#/#", ""] };
    let mut lists: Vec<Vec<String>> = Vec::new();
    let s = |x: &str| x.to_string();
    for v in &valid {
        lists.push(vec![s(v)]);
    }
    for i in &invalid {
        lists.push(vec![s(i)]);
    }
    for v in &valid {
        for i in &invalid {
            lists.push(vec![s(v), s(i)]);
            lists.push(vec![s(i), s(v)]);
        }
        for w in &valid {
            lists.push(vec![s(v), s(w)]);
        }
    }
    for i in &invalid {
        lists.push(vec![s(valid[0]), s(valid[1]), s(i)]);
        lists.push(vec![s(valid[0]), s(i), s(valid[1])]);
        lists.push(vec![s(i), s(valid[0]), s(valid[1])]);
        lists.push(vec![s(i), s(invalid[0])]);
    }
    lists.push(valid.iter().map(|v| s(v)).collect());
    let mut v = vec![];
    for ver in [Ver::V3, Ver::V5] {
        for unsub in [false, true] {
            let mut ep = EpCfg::new(ver, Role::Server);
            ep.proto_auto = true;
            v.push(FvCfg { ep: ep.clone(), unsub, lists: lists.clone(), busy_id: false });
            ep.handler_auto = false;
            v.push(FvCfg { ep, unsub, lists: lists.iter().filter(|l| l.iter().any(|f| !crate::c18::ref_valid_filter(f))).cloned().collect(), busy_id: true });
        }
    }
    v
}

pub fn run_conn_part(ck: &mut Check, full: bool) {
    let ecfg = ExploreCfg { max_dev: 0, max_execs: 100_000, ..Default::default() };
    for (i, c) in configs(full).iter().enumerate() {
        ck.explore::<Fv>("filters-on-connection", i, c, &ecfg);
    }
}

pub fn trace(full: bool, idx: usize, choices: &[u16], script: Option<Vec<String>>, max_polls: u64) -> crate::simnet::ExecRecord {
    let cfgs = configs(full);
    let c = &cfgs[idx];
    println!("filters #{idx}: {} unsub={}", c.ep.label(), c.unsub);
    match script {
        Some(sc) => crate::simnet::run_script::<Fv>(c, &sc, max_polls),
        None => crate::simnet::run_one::<Fv>(c, choices, max_polls),
    }
}
