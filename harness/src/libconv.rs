//! Bridges between ntex-mqtt's packet types and the reference model (`refmqtt::Pkt`),
//! plus thin wrappers that call the library codec and catch panics.
#![allow(dead_code)]
use std::panic::{AssertUnwindSafe, catch_unwind};

use ntex_bytes::{BytePages, Bytes, BytesMut};
use ntex_codec::{Decoder, Encoder};
use ntex_mqtt::error::{DecodeError, EncodeError};
use ntex_mqtt::{v3, v5};

use crate::refmqtt::{PVal, Pkt, Props, Will};

fn user(props: &mut Props, up: &[(ntex_bytes::ByteString, ntex_bytes::ByteString)]) {
    for (k, v) in up {
        props.push((0x26, PVal::Pair(k.to_string(), v.to_string())));
    }
}

fn qos(q: ntex_mqtt::QoS) -> u8 {
    u8::from(q)
}

pub fn v5_publish_to_ref(p: &v5::codec::Publish, payload: &[u8]) -> Pkt {
    let mut props: Props = Vec::new();
    let pp = &p.properties;
    if let Some(a) = pp.topic_alias {
        props.push((0x23, PVal::U16(a.get())));
    }
    if let Some(c) = &pp.correlation_data {
        props.push((0x09, PVal::Bin(c.to_vec())));
    }
    if let Some(e) = pp.message_expiry_interval {
        props.push((0x02, PVal::U32(e.get())));
    }
    if let Some(c) = &pp.content_type {
        props.push((0x03, PVal::Str(c.to_string())));
    }
    props.push((0x01, PVal::Byte(u8::from(pp.is_utf8_payload))));
    if let Some(c) = &pp.response_topic {
        props.push((0x08, PVal::Str(c.to_string())));
    }
    for s in &pp.subscription_ids {
        props.push((0x0B, PVal::VarInt(s.get())));
    }
    user(&mut props, &pp.user_properties);
    Pkt::Publish {
        dup: p.dup,
        qos: qos(p.qos),
        retain: p.retain,
        topic: p.topic.to_string(),
        pid: p.packet_id.map(|i| i.get()),
        props,
        payload: payload.to_vec(),
    }
}

fn ack_props(up: &[(ntex_bytes::ByteString, ntex_bytes::ByteString)], rs: &Option<ntex_bytes::ByteString>) -> Props {
    let mut props: Props = Vec::new();
    if let Some(r) = rs {
        props.push((0x1F, PVal::Str(r.to_string())));
    }
    user(&mut props, up);
    props
}

pub fn v5_to_ref(p: &v5::codec::Packet) -> Pkt {
    use v5::codec::Packet as P;
    match p {
        P::Connect(c) => {
            let mut props: Props = Vec::new();
            props.push((0x11, PVal::U32(c.session_expiry_interval_secs)));
            if let Some(m) = &c.auth_method {
                props.push((0x15, PVal::Str(m.to_string())));
            }
            if let Some(m) = &c.auth_data {
                props.push((0x16, PVal::Bin(m.to_vec())));
            }
            props.push((0x17, PVal::Byte(u8::from(c.request_problem_info))));
            props.push((0x19, PVal::Byte(u8::from(c.request_response_info))));
            if let Some(m) = c.receive_max {
                props.push((0x21, PVal::U16(m.get())));
            }
            if let Some(m) = c.max_packet_size {
                props.push((0x27, PVal::U32(m.get())));
            }
            props.push((0x22, PVal::U16(c.topic_alias_max)));
            user(&mut props, &c.user_properties);
            let will = c.last_will.as_ref().map(|w| {
                let mut wp: Props = Vec::new();
                if let Some(v) = w.will_delay_interval_sec {
                    wp.push((0x18, PVal::U32(v)));
                }
                if let Some(v) = &w.correlation_data {
                    wp.push((0x09, PVal::Bin(v.to_vec())));
                }
                if let Some(v) = w.message_expiry_interval {
                    wp.push((0x02, PVal::U32(v.get())));
                }
                if let Some(v) = &w.content_type {
                    wp.push((0x03, PVal::Str(v.to_string())));
                }
                if let Some(v) = w.is_utf8_payload {
                    wp.push((0x01, PVal::Byte(u8::from(v))));
                }
                if let Some(v) = &w.response_topic {
                    wp.push((0x08, PVal::Str(v.to_string())));
                }
                user(&mut wp, &w.user_properties);
                Will { qos: qos(w.qos), retain: w.retain, props: wp, topic: w.topic.to_string(), payload: w.message.to_vec() }
            });
            Pkt::Connect {
                name: b"MQTT".to_vec(),
                level: 5,
                clean: c.clean_start,
                keep_alive: c.keep_alive,
                props,
                client_id: c.client_id.to_string(),
                will,
                username: c.username.as_ref().map(|s| s.to_string()),
                password: c.password.as_ref().map(|s| s.to_vec()),
            }
        }
        P::ConnectAck(a) => {
            let mut props: Props = Vec::new();
            if let Some(v) = a.session_expiry_interval_secs {
                props.push((0x11, PVal::U32(v)));
            }
            props.push((0x21, PVal::U16(a.receive_max.get())));
            props.push((0x24, PVal::Byte(qos(a.max_qos))));
            if let Some(v) = a.max_packet_size {
                props.push((0x27, PVal::U32(v)));
            }
            if let Some(v) = &a.assigned_client_id {
                props.push((0x12, PVal::Str(v.to_string())));
            }
            props.push((0x22, PVal::U16(a.topic_alias_max)));
            props.push((0x25, PVal::Byte(u8::from(a.retain_available))));
            props.push((0x28, PVal::Byte(u8::from(a.wildcard_subscription_available))));
            props.push((0x29, PVal::Byte(u8::from(a.subscription_identifiers_available))));
            props.push((0x2A, PVal::Byte(u8::from(a.shared_subscription_available))));
            if let Some(v) = a.server_keepalive_sec {
                props.push((0x13, PVal::U16(v)));
            }
            if let Some(v) = &a.response_info {
                props.push((0x1A, PVal::Str(v.to_string())));
            }
            if let Some(v) = &a.server_reference {
                props.push((0x1C, PVal::Str(v.to_string())));
            }
            if let Some(v) = &a.auth_method {
                props.push((0x15, PVal::Str(v.to_string())));
            }
            if let Some(v) = &a.auth_data {
                props.push((0x16, PVal::Bin(v.to_vec())));
            }
            if let Some(v) = &a.reason_string {
                props.push((0x1F, PVal::Str(v.to_string())));
            }
            user(&mut props, &a.user_properties);
            Pkt::ConnAck { session_present: a.session_present, code: u8::from(a.reason_code), props }
        }
        P::PublishAck(a) => Pkt::Ack {
            typ: 4,
            pid: a.packet_id.get(),
            code: Some(u8::from(a.reason_code)),
            props: Some(ack_props(&a.properties, &a.reason_string)),
        },
        P::PublishReceived(a) => Pkt::Ack {
            typ: 5,
            pid: a.packet_id.get(),
            code: Some(u8::from(a.reason_code)),
            props: Some(ack_props(&a.properties, &a.reason_string)),
        },
        P::PublishRelease(a) => Pkt::Ack {
            typ: 6,
            pid: a.packet_id.get(),
            code: Some(u8::from(a.reason_code)),
            props: Some(ack_props(&a.properties, &a.reason_string)),
        },
        P::PublishComplete(a) => Pkt::Ack {
            typ: 7,
            pid: a.packet_id.get(),
            code: Some(u8::from(a.reason_code)),
            props: Some(ack_props(&a.properties, &a.reason_string)),
        },
        P::Subscribe(s) => {
            let mut props: Props = Vec::new();
            if let Some(i) = s.id {
                props.push((0x0B, PVal::VarInt(i.get())));
            }
            user(&mut props, &s.user_properties);
            Pkt::Subscribe {
                pid: s.packet_id.get(),
                props,
                filters: s
                    .topic_filters
                    .iter()
                    .map(|(f, o)| {
                        (
                            f.to_string(),
                            qos(o.qos)
                                | (u8::from(o.no_local) << 2)
                                | (u8::from(o.retain_as_published) << 3)
                                | (u8::from(o.retain_handling) << 4),
                        )
                    })
                    .collect(),
            }
        }
        P::SubscribeAck(a) => Pkt::SubAck {
            pid: a.packet_id.get(),
            props: ack_props(&a.properties, &a.reason_string),
            codes: a.status.iter().map(|c| u8::from(*c)).collect(),
        },
        P::Unsubscribe(s) => {
            let mut props: Props = Vec::new();
            user(&mut props, &s.user_properties);
            Pkt::Unsubscribe {
                pid: s.packet_id.get(),
                props,
                filters: s.topic_filters.iter().map(|f| f.to_string()).collect(),
            }
        }
        P::UnsubscribeAck(a) => Pkt::UnsubAck {
            pid: a.packet_id.get(),
            props: ack_props(&a.properties, &a.reason_string),
            codes: a.status.iter().map(|c| u8::from(*c)).collect(),
        },
        P::PingRequest => Pkt::PingReq,
        P::PingResponse => Pkt::PingResp,
        P::Disconnect(d) => {
            let mut props: Props = Vec::new();
            if let Some(v) = d.session_expiry_interval_secs {
                props.push((0x11, PVal::U32(v)));
            }
            if let Some(v) = &d.server_reference {
                props.push((0x1C, PVal::Str(v.to_string())));
            }
            if let Some(v) = &d.reason_string {
                props.push((0x1F, PVal::Str(v.to_string())));
            }
            user(&mut props, &d.user_properties);
            Pkt::Disconnect { code: Some(u8::from(d.reason_code)), props: Some(props) }
        }
        P::Auth(d) => {
            let mut props: Props = Vec::new();
            if let Some(v) = &d.auth_method {
                props.push((0x15, PVal::Str(v.to_string())));
            }
            if let Some(v) = &d.auth_data {
                props.push((0x16, PVal::Bin(v.to_vec())));
            }
            if let Some(v) = &d.reason_string {
                props.push((0x1F, PVal::Str(v.to_string())));
            }
            user(&mut props, &d.user_properties);
            Pkt::Auth { code: Some(u8::from(d.reason_code)), props: Some(props) }
        }
    }
}

pub fn v3_publish_to_ref(p: &v3::codec::Publish, payload: &[u8]) -> Pkt {
    Pkt::Publish {
        dup: p.dup,
        qos: qos(p.qos),
        retain: p.retain,
        topic: p.topic.to_string(),
        pid: p.packet_id.map(|i| i.get()),
        props: Vec::new(),
        payload: payload.to_vec(),
    }
}

pub fn v3_to_ref(p: &v3::codec::Packet) -> Pkt {
    use v3::codec::Packet as P;
    match p {
        P::Connect(c) => Pkt::Connect {
            name: b"MQTT".to_vec(),
            level: 4,
            clean: c.clean_session,
            keep_alive: c.keep_alive,
            props: Vec::new(),
            client_id: c.client_id.to_string(),
            will: c.last_will.as_ref().map(|w| Will {
                qos: qos(w.qos),
                retain: w.retain,
                props: Vec::new(),
                topic: w.topic.to_string(),
                payload: w.message.to_vec(),
            }),
            username: c.username.as_ref().map(|s| s.to_string()),
            password: c.password.as_ref().map(|s| s.to_vec()),
        },
        P::ConnectAck(a) => {
            Pkt::ConnAck { session_present: a.session_present, code: u8::from(a.return_code), props: Vec::new() }
        }
        P::PublishAck { packet_id } => Pkt::Ack { typ: 4, pid: packet_id.get(), code: None, props: None },
        P::PublishReceived { packet_id } => Pkt::Ack { typ: 5, pid: packet_id.get(), code: None, props: None },
        P::PublishRelease { packet_id } => Pkt::Ack { typ: 6, pid: packet_id.get(), code: None, props: None },
        P::PublishComplete { packet_id } => Pkt::Ack { typ: 7, pid: packet_id.get(), code: None, props: None },
        P::Subscribe { packet_id, topic_filters } => Pkt::Subscribe {
            pid: packet_id.get(),
            props: Vec::new(),
            filters: topic_filters.iter().map(|(f, q)| (f.to_string(), qos(*q))).collect(),
        },
        P::SubscribeAck { packet_id, status } => Pkt::SubAck {
            pid: packet_id.get(),
            props: Vec::new(),
            codes: status
                .iter()
                .map(|s| match s {
                    v3::codec::SubscribeReturnCode::Success(q) => qos(*q),
                    v3::codec::SubscribeReturnCode::Failure => 0x80,
                })
                .collect(),
        },
        P::Unsubscribe { packet_id, topic_filters } => Pkt::Unsubscribe {
            pid: packet_id.get(),
            props: Vec::new(),
            filters: topic_filters.iter().map(|f| f.to_string()).collect(),
        },
        P::UnsubscribeAck { packet_id } => Pkt::UnsubAck { pid: packet_id.get(), props: Vec::new(), codes: Vec::new() },
        P::PingRequest => Pkt::PingReq,
        P::PingResponse => Pkt::PingResp,
        P::Disconnect => Pkt::Disconnect { code: None, props: None },
    }
}

/// In v3 canonical form acks/disconnect carry no code at all.
pub fn canon_v3(p: &Pkt) -> Pkt {
    match p {
        Pkt::Ack { typ, pid, .. } => Pkt::Ack { typ: *typ, pid: *pid, code: None, props: None },
        Pkt::Disconnect { .. } => Pkt::Disconnect { code: None, props: None },
        other => crate::refmqtt::canon(other),
    }
}

// ---------------------------------------------------------------------------
// guarded library calls

pub fn panic_msg(e: Box<dyn std::any::Any + Send>) -> String {
    if let Some(s) = e.downcast_ref::<&str>() {
        (*s).to_string()
    } else if let Some(s) = e.downcast_ref::<String>() {
        s.clone()
    } else {
        "<panic>".into()
    }
}

#[derive(Debug, Clone, PartialEq, Eq)]
pub enum EncOut {
    Ok(Vec<u8>),
    /// error and the bytes left in the output buffer
    Err(String, Vec<u8>),
    Panic(String),
}

pub fn enc_v5(codec: &v5::codec::Codec, item: v5::codec::Encoded) -> EncOut {
    crate::check::b_enter("Codec::encode (the value is printed by the check's own findings; not recorded here)", b"");
    let r = catch_unwind(AssertUnwindSafe(|| {
        let mut dst = BytePages::default();
        let r = codec.encodev(item, &mut dst);
        (r, dst.freeze().to_vec())
    }));
    crate::check::b_leave();
    match r {
        Ok((Ok(()), b)) => EncOut::Ok(b),
        Ok((Err(e), b)) => EncOut::Err(format!("{e:?}"), b),
        Err(p) => EncOut::Panic(panic_msg(p)),
    }
}

pub fn enc_v3(codec: &v3::codec::Codec, item: v3::codec::Encoded) -> EncOut {
    crate::check::b_enter("Codec::encode (the value is printed by the check's own findings; not recorded here)", b"");
    let r = catch_unwind(AssertUnwindSafe(|| {
        let mut dst = BytePages::default();
        let r = codec.encodev(item, &mut dst);
        (r, dst.freeze().to_vec())
    }));
    crate::check::b_leave();
    match r {
        Ok((Ok(()), b)) => EncOut::Ok(b),
        Ok((Err(e), b)) => EncOut::Err(format!("{e:?}"), b),
        Err(p) => EncOut::Panic(panic_msg(p)),
    }
}

pub fn enc_err_is(e: &EncodeError) -> String {
    format!("{e:?}")
}

/// One decoded unit, version independent.
#[derive(Debug, Clone, PartialEq, Eq)]
pub enum Item {
    /// non-PUBLISH packet (reference form, library's reported size)
    Packet(Pkt, u32),
    /// PUBLISH announcement: reference form with the payload bytes delivered with it, declared payload size, reported size
    Publish(Pkt, u32, u32),
    Chunk(Vec<u8>, bool),
}

#[derive(Debug, Clone, PartialEq, Eq)]
pub enum DecOut {
    Item(Item),
    NeedMore,
    Err(String),
    Panic(String),
}

pub trait LibCodec {
    fn decode_one(&self, src: &mut BytesMut) -> DecOut;
    fn ver(&self) -> crate::refmqtt::Ver;
    /// re-encode + decode stability of the last accepted item (C02 clause); None = stable
    fn last_unstable(&self) -> Option<String>;
}

pub struct L5(pub v5::codec::Codec, pub std::cell::RefCell<Option<v5::codec::Decoded>>);
pub struct L3(pub v3::codec::Codec, pub std::cell::RefCell<Option<v3::codec::Decoded>>);

impl L5 {
    pub fn new(max_in: u32, min_chunk: u32) -> Self {
        let c = v5::codec::Codec::new();
        c.set_max_inbound_size(max_in);
        c.set_min_chunk_size(min_chunk);
        L5(c, std::cell::RefCell::new(None))
    }
}
impl L3 {
    pub fn new(max_in: u32, min_chunk: u32) -> Self {
        let c = v3::codec::Codec::new();
        c.set_max_size(max_in);
        c.set_min_chunk_size(min_chunk);
        L3(c, std::cell::RefCell::new(None))
    }
}

fn derr(e: &DecodeError) -> String {
    format!("{e:?}")
}

impl LibCodec for L5 {
    fn ver(&self) -> crate::refmqtt::Ver {
        crate::refmqtt::Ver::V5
    }
    fn last_unstable(&self) -> Option<String> {
        self.1.borrow().as_ref().and_then(restable_v5)
    }
    fn decode_one(&self, src: &mut BytesMut) -> DecOut {
        let r = catch_unwind(AssertUnwindSafe(|| self.0.decode(src)));
        match r {
            Err(p) => DecOut::Panic(panic_msg(p)),
            Ok(Err(e)) => DecOut::Err(derr(&e)),
            Ok(Ok(None)) => DecOut::NeedMore,
            Ok(Ok(Some(d))) => {
                *self.1.borrow_mut() = Some(d.clone());
                DecOut::Item(match d {
                    v5::codec::Decoded::Packet(p, sz) => Item::Packet(v5_to_ref(&p), sz),
                    v5::codec::Decoded::Publish(p, b, sz) => Item::Publish(v5_publish_to_ref(&p, &b), p.payload_size, sz),
                    v5::codec::Decoded::PayloadChunk(b, eof) => Item::Chunk(b.to_vec(), eof),
                })
            }
        }
    }
}

impl LibCodec for L3 {
    fn ver(&self) -> crate::refmqtt::Ver {
        crate::refmqtt::Ver::V3
    }
    fn last_unstable(&self) -> Option<String> {
        self.1.borrow().as_ref().and_then(restable_v3)
    }
    fn decode_one(&self, src: &mut BytesMut) -> DecOut {
        let r = catch_unwind(AssertUnwindSafe(|| self.0.decode(src)));
        match r {
            Err(p) => DecOut::Panic(panic_msg(p)),
            Ok(Err(e)) => DecOut::Err(derr(&e)),
            Ok(Ok(None)) => DecOut::NeedMore,
            Ok(Ok(Some(d))) => {
                *self.1.borrow_mut() = Some(d.clone());
                DecOut::Item(match d {
                    v3::codec::Decoded::Packet(p, sz) => Item::Packet(v3_to_ref(&p), sz),
                    v3::codec::Decoded::Publish(p, b, sz) => Item::Publish(v3_publish_to_ref(&p, &b), p.payload_size, sz),
                    v3::codec::Decoded::PayloadChunk(b, eof) => Item::Chunk(b.to_vec(), eof),
                })
            }
        }
    }
}

/// Re-encode the last decoded (non-chunk) item with a fresh codec and decode it again.
/// Returns None when stable, Some(description) otherwise. Only meaningful for items whose
/// payload arrived in full with the announcement.
pub fn restable_v5(d: &v5::codec::Decoded) -> Option<String> {
    let c = v5::codec::Codec::new();
    let enc = match d {
        v5::codec::Decoded::Packet(p, _) => v5::codec::Encoded::Packet(p.clone()),
        v5::codec::Decoded::Publish(p, b, _) => {
            if b.len() as u32 != p.payload_size {
                return None;
            }
            v5::codec::Encoded::Publish(p.clone(), Some(b.clone()))
        }
        v5::codec::Decoded::PayloadChunk(..) => return None,
    };
    match enc_v5(&c, enc) {
        EncOut::Ok(bytes) => {
            let c2 = v5::codec::Codec::new();
            let mut src = BytesMut::copy_from_slice(&bytes);
            match catch_unwind(AssertUnwindSafe(|| c2.decode(&mut src))) {
                Ok(Ok(Some(d2))) => {
                    let same = match (d, &d2) {
                        (v5::codec::Decoded::Packet(a, _), v5::codec::Decoded::Packet(b, _)) => a == b,
                        (v5::codec::Decoded::Publish(a, ab, _), v5::codec::Decoded::Publish(b, bb, _)) => a == b && ab == bb,
                        _ => false,
                    };
                    if same && src.is_empty() { None } else { Some(format!("re-decoded {d2:?} left {}", src.len())) }
                }
                other => Some(format!("re-decode of re-encoded packet gave {other:?}")),
            }
        }
        other => Some(format!("re-encode failed: {other:?}")),
    }
}

pub fn restable_v3(d: &v3::codec::Decoded) -> Option<String> {
    let c = v3::codec::Codec::new();
    let enc = match d {
        v3::codec::Decoded::Packet(p, _) => v3::codec::Encoded::Packet(p.clone()),
        v3::codec::Decoded::Publish(p, b, _) => {
            if b.len() as u32 != p.payload_size {
                return None;
            }
            v3::codec::Encoded::Publish(p.clone(), Some(b.clone()))
        }
        v3::codec::Decoded::PayloadChunk(..) => return None,
    };
    match enc_v3(&c, enc) {
        EncOut::Ok(bytes) => {
            let c2 = v3::codec::Codec::new();
            let mut src = BytesMut::copy_from_slice(&bytes);
            match catch_unwind(AssertUnwindSafe(|| c2.decode(&mut src))) {
                Ok(Ok(Some(d2))) => {
                    let same = match (d, &d2) {
                        (v3::codec::Decoded::Packet(a, _), v3::codec::Decoded::Packet(b, _)) => a == b,
                        (v3::codec::Decoded::Publish(a, ab, _), v3::codec::Decoded::Publish(b, bb, _)) => a == b && ab == bb,
                        _ => false,
                    };
                    if same && src.is_empty() { None } else { Some(format!("re-decoded {d2:?} left {}", src.len())) }
                }
                other => Some(format!("re-decode of re-encoded packet gave {other:?}")),
            }
        }
        other => Some(format!("re-encode failed: {other:?}")),
    }
}

pub fn bytes(b: &[u8]) -> Bytes {
    Bytes::copy_from_slice(b)
}
