//! Inbound scenario shared by C03, C04, C11, C12, C16, C17 and the connection part of C10:
//! the harness is the peer and sends packets chosen by the explorer from a small alphabet;
//! handler completion (publish handler, protocol service) is decided by the explorer.
#![allow(dead_code)]
use std::future::Future;
use std::pin::Pin;

use crate::refmqtt::{self as rf, PVal, Pkt, Props, Ver};
use crate::simnet::*;
use crate::world::*;

/// Packet templates. `id` 0 = a fresh, never used identifier.
#[derive(Clone, Copy, Debug, PartialEq, Eq, Hash)]
pub enum T {
    /// PUBLISH: qos, packet id selector, payload length, topic selector (0="t",1="a",2="b",3="" empty), alias (0 none)
    Pub { qos: u8, id: u16, len: u16, topic: u8, alias: u16 },
    /// PUBLISH delivered in two writes (header + half, rest)
    PubSplit { qos: u8, id: u16, len: u16 },
    /// PUBLISH delivered in three writes (header + first bytes, middle piece, final piece)
    PubSplit3 { qos: u8, id: u16, len: u16 },
    /// PUBLISH of which only the first part is ever sent
    PubPartial { qos: u8, id: u16, len: u16 },
    /// PUBREL for id; 0 = oldest QoS 2 publish that was sent and not yet released
    PubRel(u16),
    PubAck(u16),
    PubRec(u16),
    PubComp(u16),
    Sub(u16),
    /// SUBSCRIBE with a subscription identifier (v5)
    SubId(u16),
    /// SUBSCRIBE with an invalid filter
    SubBad(u16),
    /// SUBSCRIBE with 40 filters: its SUBACK (one code per filter) is larger than a small outbound packet limit and
    /// cannot be encoded
    SubMany(u16),
    Unsub(u16),
    SubAck(u16),
    UnsubAck(u16),
    Ping,
    PingResp,
    Connect,
    ConnAck,
    Disconnect,
    /// v5 DISCONNECT with Session Expiry Interval
    DisconnectExpiry,
    Auth,
    /// raw undecodable bytes
    Garbage,
    /// PUBLISH with retain flag
    PubRetain { qos: u8 },
    /// PUBLISH with the DUP flag and a fixed packet id (a re-delivery, or what claims to be one)
    PubDup { qos: u8, id: u16 },
    /// PUBLISH with a wildcard in the topic name
    PubWild,
}

#[derive(Clone, Debug)]
pub struct Sent {
    pub t: T,
    pub pkt: Option<Pkt>,
    pub step: u64,
    /// bytes still to deliver (second piece)
    pub rest: Vec<u8>,
    pub complete_step: Option<u64>,
    pub tag: u8,
    /// PubSplit3: the middle piece has been delivered
    pub half: bool,
}

#[derive(Clone, Debug)]
pub struct InCfg {
    pub ep: EpCfg,
    pub connect_props: Props,
    pub alphabet: Vec<T>,
    /// fixed prefix of packets sent (one per quiescent point) before the explored part
    pub prologue: Vec<T>,
    pub max_len: u8,
    /// outcomes the explorer may choose for a publish handler
    pub outcomes: Vec<GateOutcome>,
    /// outcomes for the protocol service (when gated)
    pub poutcomes: Vec<GateOutcome>,
    /// accumulate sends and write them with a Flush event (all splits of arrivals into reads)
    pub cork: bool,
    pub judge: u32,
    /// application state: sends started by the application before the explored part (C16)
    pub app_sends: Vec<crate::outbound::SK>,
    /// templates may be sent instead of the handshake (no CONNECT first)
    pub skip_connect: bool,
    /// "clause|witness" keys of known findings: the monitors keep judging after meeting one of these
    pub known: Vec<String>,
    /// write back-pressure: number of times the explorer may stop / resume the peer's reading
    pub bp: u8,
}

pub const J_C03: u32 = 1;
pub const J_C04: u32 = 2;
pub const J_C11: u32 = 4;
pub const J_C12: u32 = 8;
pub const J_C16: u32 = 16;
pub const J_C17: u32 = 32;
pub const J_C10: u32 = 64;

#[derive(Clone, Copy, Debug, PartialEq, Eq)]
pub enum Ev {
    Send(u8),
    Rest,
    Flush,
    Complete(u16, u8),
    PComplete(u16, u8),
    /// lazy reader: allow one more `read()`
    Read(u16),
    /// the peer stops (false) / resumes (true) reading what the endpoint writes
    Win(bool),
    /// C12 with keep-alive: half a second of virtual time passes while handlers hold the receive window shut
    /// (the first one is an explorer choice, the following ones are forced until several periods have passed)
    Wait,
    /// the application's publish service stops being ready (true) / is ready again (false)
    Hold(bool),
}

pub struct In {
    pub cfg: InCfg,
    pub conn: Conn,
    pub sent: Vec<Sent>,
    pub next_id: u16,
    pub corked: Vec<u8>,
    pub prologue_left: Vec<T>,
    pub explored: u8,
    pub drained_gates: bool,
    pub probe_sent: bool,
    pub probe_step: u64,
    pub app: crate::outbound::App,
    pub app_started: bool,
    pub rgates: std::rc::Rc<Gates>,
    pub window_open: bool,
    pub bp_left: u8,
    pub holds_left: u8,
    pub held: bool,
    /// C12 with keep-alive: half-second steps of virtual time that the (single) pause episode still lasts
    pub pause_time_left: u32,
    pub pause_started: bool,
}

pub fn topic_of(sel: u8) -> &'static str {
    match sel {
        0 => "t",
        1 => "a",
        2 => "b",
        _ => "",
    }
}

impl In {
    fn fresh_id(&mut self) -> u16 {
        self.next_id += 1;
        self.next_id
    }

    fn build(&mut self, t: T) -> (Option<Pkt>, Vec<u8>, Vec<u8>, u8) {
        let ver = self.conn.ver();
        let v5 = ver == Ver::V5;
        let tag = 0xC0 + (self.sent.len() as u8 & 0x1f);
        let idsel = |s: &mut Self, id: u16| if id == 0 { s.fresh_id() } else { id };
        let enc = |p: &Pkt| rf::encode(ver, p);
        match t {
            T::Pub { qos, id, len, topic, alias } => {
                let id = if qos > 0 { idsel(self, id) } else { 0 };
                let mut p = rf::publish(qos, id, topic_of(topic), &vec![tag; len as usize]);
                if alias != 0 {
                    if let Pkt::Publish { props, .. } = &mut p {
                        props.push((0x23, PVal::U16(alias)));
                    }
                }
                let b = enc(&p);
                (Some(p), b, vec![], tag)
            }
            T::PubSplit { qos, id, len } | T::PubSplit3 { qos, id, len } | T::PubPartial { qos, id, len } => {
                let id = if qos > 0 { idsel(self, id) } else { 0 };
                let payload: Vec<u8> = (0..len).map(|i| tag.wrapping_add((i % 7) as u8) | 0x80).collect();
                let p = rf::publish(qos, id, "t", &payload);
                let b = enc(&p);
                let cut = b.len() - (len as usize) / 2 - 1;
                let (a, r) = b.split_at(cut.min(b.len() - 1));
                if matches!(t, T::PubPartial { .. }) {
                    (Some(p), a.to_vec(), vec![], tag)
                } else {
                    (Some(p), a.to_vec(), r.to_vec(), tag)
                }
            }
            T::PubRel(id) => {
                let id = if id != 0 {
                    id
                } else {
                    // oldest QoS 2 publish sent and not yet released
                    let released: Vec<u16> = self.sent.iter().filter_map(|s| if let Some(Pkt::Ack { typ: 6, pid, .. }) = &s.pkt { Some(*pid) } else { None }).collect();
                    self.conn
                        .out
                        .iter()
                        .filter_map(|(_, p)| if let Pkt::Ack { typ: 5, pid, code, .. } = p { if code.unwrap_or(0) < 0x80 { Some(*pid) } else { None } } else { None })
                        .find(|p| !released.contains(p))
                        .unwrap_or(999)
                };
                let p = rf::ack(6, id);
                let b = enc(&p);
                (Some(p), b, vec![], tag)
            }
            T::PubAck(id) | T::PubRec(id) | T::PubComp(id) => {
                let typ = match t {
                    T::PubAck(_) => 4,
                    T::PubRec(_) => 5,
                    _ => 7,
                };
                let p = rf::ack(typ, id);
                let b = enc(&p);
                (Some(p), b, vec![], tag)
            }
            T::SubMany(id) => {
                let id = idsel(self, id);
                let filters: Vec<(String, u8)> = (0..40).map(|i| (format!("m{}/{i}", self.sent.len()), 0)).collect();
                let p = Pkt::Subscribe { pid: id, props: vec![], filters };
                let b = enc(&p);
                (Some(p), b, vec![], tag)
            }
            T::Sub(id) | T::SubId(id) | T::SubBad(id) => {
                let id = idsel(self, id);
                let mut props = vec![];
                if v5 && matches!(t, T::SubId(_)) {
                    props.push((0x0B, PVal::VarInt(5)));
                }
                let filter = if matches!(t, T::SubBad(_)) { "a/#/b".to_string() } else { format!("f/{}", self.sent.len()) };
                let p = Pkt::Subscribe { pid: id, props, filters: vec![(filter, 1)] };
                let b = enc(&p);
                (Some(p), b, vec![], tag)
            }
            T::Unsub(id) => {
                let id = idsel(self, id);
                let p = Pkt::Unsubscribe { pid: id, props: vec![], filters: vec![format!("f/{}", self.sent.len())] };
                let b = enc(&p);
                (Some(p), b, vec![], tag)
            }
            T::SubAck(id) => {
                let p = Pkt::SubAck { pid: id, props: vec![], codes: vec![0] };
                let b = enc(&p);
                (Some(p), b, vec![], tag)
            }
            T::UnsubAck(id) => {
                let p = Pkt::UnsubAck { pid: id, props: vec![], codes: if v5 { vec![0] } else { vec![] } };
                let b = enc(&p);
                (Some(p), b, vec![], tag)
            }
            T::Ping => (Some(Pkt::PingReq), enc(&Pkt::PingReq), vec![], tag),
            T::PingResp => (Some(Pkt::PingResp), enc(&Pkt::PingResp), vec![], tag),
            T::Connect => {
                let p = rf::connect(ver, "again", 0, vec![]);
                let b = enc(&p);
                (Some(p), b, vec![], tag)
            }
            T::ConnAck => {
                let p = Pkt::ConnAck { session_present: false, code: 0, props: vec![] };
                let b = enc(&p);
                (Some(p), b, vec![], tag)
            }
            T::Disconnect => {
                let p = Pkt::Disconnect { code: None, props: None };
                let b = enc(&p);
                (Some(p), b, vec![], tag)
            }
            T::DisconnectExpiry => {
                let p = Pkt::Disconnect { code: Some(0), props: Some(vec![(0x11, PVal::U32(30))]) };
                let b = enc(&p);
                (Some(p), b, vec![], tag)
            }
            T::Auth => {
                let p = Pkt::Auth { code: Some(0x18), props: Some(vec![(0x15, PVal::Str("m".into()))]) };
                let b = if v5 { enc(&p) } else { vec![0xf0, 0x00] };
                (Some(p), b, vec![], tag)
            }
            T::Garbage => (None, vec![0x00, 0x00], vec![], tag),
            T::PubRetain { qos } => {
                let id = if qos > 0 { self.fresh_id() } else { 0 };
                let mut p = rf::publish(qos, id, "t", &[tag]);
                if let Pkt::Publish { retain, .. } = &mut p {
                    *retain = true;
                }
                let b = enc(&p);
                (Some(p), b, vec![], tag)
            }
            T::PubDup { qos, id } => {
                let mut p = rf::publish(qos, id, "t", &[tag]);
                if let Pkt::Publish { dup, .. } = &mut p {
                    *dup = true;
                }
                let b = enc(&p);
                (Some(p), b, vec![], tag)
            }
            T::PubWild => {
                let p = rf::publish(0, 0, "t/#", &[tag]);
                let b = enc(&p);
                (Some(p), b, vec![], tag)
            }
        }
    }

    fn send_template(&mut self, t: T) {
        let (pkt, first, rest, tag) = self.build(t);
        let done = rest.is_empty() && !matches!(t, T::PubPartial { .. });
        self.sent.push(Sent { t, pkt, step: step(), rest, complete_step: if done { Some(step()) } else { None }, tag, half: false });
        if self.cfg.cork {
            self.corked.extend_from_slice(&first);
        } else {
            self.conn.send_raw(&first);
        }
    }

    /// PUBREL(id) is only generated when the property says something about it: the id has an open
    /// QoS 2 exchange whose PUBREC the peer has seen, or no exchange with that id is open at all.
    /// (A PUBREL naming an id that is held by a QoS 1 / SUBSCRIBE exchange is outside the statement.)
    pub fn pubrel_meaningful(&self, id: u16) -> bool {
        let recs = self.conn.out.iter().filter(|(_, p)| matches!(p, Pkt::Ack { typ: 5, pid, code, .. } if *pid == id && code.unwrap_or(0) < 0x80)).count();
        let rels = self.sent.iter().filter(|s| matches!(&s.pkt, Some(Pkt::Ack { typ: 6, pid, .. }) if *pid == id)).count();
        if recs > rels {
            return true;
        }
        let reqs = self
            .sent
            .iter()
            .filter(|s| match &s.pkt {
                Some(Pkt::Publish { qos, pid: Some(p), .. }) => *qos > 0 && *p == id,
                Some(Pkt::Subscribe { pid, .. }) | Some(Pkt::Unsubscribe { pid, .. }) => *pid == id,
                _ => false,
            })
            .count();
        let q2_ok = self.conn.out.iter().filter(|(_, p)| matches!(p, Pkt::Ack { typ: 5, pid, code, .. } if *pid == id && code.unwrap_or(0) < 0x80)).count();
        let comps = self.conn.out.iter().filter(|(_, p)| matches!(p, Pkt::Ack { typ: 7, pid, code, .. } if *pid == id && code.unwrap_or(0) < 0x80)).count();
        let answered = self
            .conn
            .out
            .iter()
            .filter(|(_, p)| match p {
                Pkt::Ack { typ: 4, pid, .. } => *pid == id,
                Pkt::Ack { typ: 5, pid, code, .. } => *pid == id && code.unwrap_or(0) >= 0x80,
                Pkt::SubAck { pid, .. } | Pkt::UnsubAck { pid, .. } => *pid == id,
                _ => false,
            })
            .count();
        // every request with this id has been answered and every accepted QoS 2 exchange is complete
        reqs == answered + q2_ok && q2_ok == comps
    }

    /// publishes have been delivered completely that no handler has seen yet while handlers are gated: the receive
    /// limits keep them waiting
    pub fn window_shut(&self) -> bool {
        let handled = self.conn.log.count(|r| matches!(r, Rec::HEnter { .. }));
        let delivered = self.sent.iter().filter(|x| x.complete_step.is_some() && matches!(x.pkt, Some(Pkt::Publish { .. }))).count();
        delivered > handled && !self.conn.gates.waiting().is_empty() && !self.conn.done()
    }

    pub fn pending_rest(&self) -> bool {
        self.sent.last().is_some_and(|s| !s.rest.is_empty())
    }

    pub fn witness(&self) -> String {
        let ts: Vec<String> = self.sent.iter().map(|s| format!("{:?}", s.t)).collect();
        format!("{} {}", self.cfg.ep.label(), ts.join(" "))
    }

    pub fn detail(&self) -> String {
        format!(
            "sent={:?} wire_out={:?} log={:?}",
            self.sent.iter().map(|s| s.pkt.as_ref().map(|p| p.short()).unwrap_or_else(|| "garbage".into())).collect::<Vec<_>>(),
            self.conn.out_short(),
            self.conn.log.render()
        )
    }

    pub fn handshaken(&self) -> bool {
        self.conn.sink.borrow().is_some() && self.conn.log.count(|r| matches!(r, Rec::Handshake(s) if s == "accepted")) > 0
    }
}

impl Scenario for In {
    type Cfg = InCfg;
    type Ev = Ev;

    fn progress_marker(&self) -> Option<u64> {
        let g = |g: &Gates| (g.entered() * 31 + g.waiting().len() * 7 + g.executing()) as u64;
        Some(
            self.conn.log.snapshot().len() as u64 * 1_000_003
                + self.conn.wire.len() as u64 * 1_009
                + self.conn.sent.len() as u64 * 17
                + g(&self.conn.gates) * 101
                + g(&self.conn.pgates) * 103,
        )
    }

    fn build(cfg: &InCfg) -> Pin<Box<dyn Future<Output = Self>>> {
        let cfg = cfg.clone();
        Box::pin(async move {
            let conn = start_endpoint(&cfg.ep, cfg.connect_props.clone(), !cfg.skip_connect).await;
            let n = cfg.app_sends.len();
            let app: crate::outbound::App =
                std::rc::Rc::new(std::cell::RefCell::new((0..n).map(|_| crate::outbound::SenderSt::default()).collect()));
            let rgates = conn.gates.clone();
            In {
                prologue_left: cfg.prologue.clone(),
                conn,
                sent: Vec::new(),
                next_id: 0,
                corked: Vec::new(),
                explored: 0,
                drained_gates: false,
                probe_sent: false,
                probe_step: 0,
                app,
                app_started: false,
                rgates,
                window_open: true,
                bp_left: cfg.bp,
                holds_left: if cfg.ep.ready_gate { cfg.ep.holds } else { 0 },
                held: false,
                pause_time_left: if cfg.judge & J_C12 != 0 && cfg.ep.client_keepalive > 0 { 8 * cfg.ep.client_keepalive as u32 } else { 0 },
                pause_started: false,
                cfg,
            }
        })
    }

    fn enabled(&self, quiescent: bool) -> Vec<Ev> {
        let mut v = Vec::new();
        // a pause episode in progress: time is the only thing that happens
        if self.pause_started && self.pause_time_left > 0 {
            if quiescent && !self.conn.done() {
                v.push(Ev::Wait);
            }
            return v;
        }
        if !self.cfg.skip_connect && !self.handshaken() && self.cfg.ep.hs != HsMode::Gated {
            return v;
        }
        if self.pending_rest() {
            v.push(Ev::Rest);
        } else if !self.prologue_left.is_empty() {
            // prologue: one packet per quiescent point, handlers complete at once
            if quiescent {
                v.push(Ev::Send(255));
            }
            return v;
        } else if self.explored < self.cfg.max_len && !self.conn.done() {
            for i in 0..self.cfg.alphabet.len() {
                // PUBREL(auto) only when there is something to release
                if self.cfg.alphabet[i] == T::PubRel(0) {
                    // a correct peer releases a QoS 2 message only after it has received the PUBREC
                    let rel = self.sent.iter().filter(|s| matches!(s.pkt, Some(Pkt::Ack { typ: 6, .. }))).count();
                    let rec = self.conn.out.iter().filter(|(_, p)| matches!(p, Pkt::Ack { typ: 5, code, .. } if code.unwrap_or(0) < 0x80)).count();
                    if rel >= rec {
                        continue;
                    }
                }
                if let T::PubRel(id) = self.cfg.alphabet[i] {
                    // (C16 sends any packet with any identifier, also a PUBREL that names an id held by a QoS 1 publish
                    // or a SUBSCRIBE that is still being handled - seeded change C16_r8 panicked on exactly that)
                    if id != 0 && self.cfg.judge & J_C16 == 0 && !self.pubrel_meaningful(id) {
                        continue;
                    }
                }
                v.push(Ev::Send(i as u8));
            }
        }
        if self.cfg.cork && !self.corked.is_empty() {
            v.push(Ev::Flush);
        }
        if self.prologue_left.is_empty() && quiescent && (self.bp_left > 0 || !self.window_open) && !self.conn.done() {
            v.push(Ev::Win(!self.window_open));
        }
        if self.prologue_left.is_empty() && quiescent && (self.holds_left > 0 || self.held) && !self.conn.done() {
            v.push(Ev::Hold(!self.held));
        }
        if quiescent && !self.pause_started && self.pause_time_left > 0 && self.window_shut() {
            v.push(Ev::Wait);
        }
        if self.prologue_left.is_empty() {
            for k in self.conn.gates.waiting() {
                for (oi, _) in self.cfg.outcomes.iter().enumerate() {
                    v.push(Ev::Complete(k as u16, oi as u8));
                }
            }
            for k in self.conn.pgates.waiting() {
                for (oi, _) in self.cfg.poutcomes.iter().enumerate() {
                    v.push(Ev::PComplete(k as u16, oi as u8));
                }
            }
        }
        v
    }

    fn apply(&mut self, ev: Ev) {
        match ev {
            Ev::Send(255) => {
                let t = self.prologue_left.remove(0);
                self.send_template(t);
            }
            Ev::Send(i) => {
                self.explored += 1;
                let t = self.cfg.alphabet[i as usize];
                self.send_template(t);
            }
            Ev::Rest => {
                let s = self.sent.last_mut().unwrap();
                let rest = if matches!(s.t, T::PubSplit3 { .. }) && !s.half && s.rest.len() > 1 {
                    s.half = true;
                    let k = s.rest.len() / 2;
                    s.rest.drain(..k).collect()
                } else {
                    std::mem::take(&mut s.rest)
                };
                if s.rest.is_empty() {
                    s.complete_step = Some(step());
                }
                if self.cfg.cork {
                    self.corked.extend_from_slice(&rest);
                } else {
                    self.conn.send_raw(&rest);
                }
            }
            Ev::Flush => {
                let b = std::mem::take(&mut self.corked);
                self.conn.send_raw(&b);
            }
            Ev::Complete(k, oi) => self.conn.gates.open(k as usize, self.cfg.outcomes[oi as usize]),
            Ev::PComplete(k, oi) => self.conn.pgates.open(k as usize, self.cfg.poutcomes[oi as usize]),
            Ev::Read(_) => {}
            Ev::Win(open) => {
                if !open {
                    self.bp_left -= 1;
                }
                self.window_open = open;
                self.conn.window(open);
            }
            Ev::Hold(h) => {
                if h {
                    self.holds_left -= 1;
                }
                self.held = h;
                crate::world::hold_readiness(h);
            }
            Ev::Wait => {
                self.pause_started = true;
                self.pause_time_left -= 1;
                ntex_util::time::vclock::advance(std::time::Duration::from_millis(500));
            }
        }
    }

    fn check(&mut self, _quiescent: bool) -> Result<(), Violation> {
        self.conn.pump();
        // application state: start the configured sends as soon as the sink exists
        if !self.app_started && !self.cfg.app_sends.is_empty() && self.handshaken() {
            self.app_started = true;
            if let Some(sink) = self.conn.sink() {
                for (j, k) in self.cfg.app_sends.clone().into_iter().enumerate() {
                    crate::outbound::start_sender(&sink, k, j, self.app.clone());
                }
            }
        }
        // prologue handlers complete immediately
        if !self.prologue_left.is_empty() || (self.explored == 0 && !self.cfg.prologue.is_empty()) {
            self.conn.gates.open_all(GateOutcome::Ok);
            self.conn.pgates.open_all(GateOutcome::Ok);
        }
        if let Some(e) = &self.conn.parse_err {
            return Err(Violation::new("wire-garbage", self.cfg.ep.label(), format!("{e}; {}", self.detail())));
        }
        crate::inbound_oracles::step_check(self)?;
        if _quiescent && self.cfg.judge & J_C12 != 0 {
            crate::c12::stall_check(self)?;
        }
        Ok(())
    }

    fn drain(&mut self) -> bool {
        crate::inbound_oracles::drain(self)
    }

    fn finish(&mut self) -> Result<Outcome, Violation> {
        self.conn.pump();
        crate::inbound_oracles::final_check(self)
    }
}
