mod c01;
mod c02;
mod c09;
mod c10;
mod c10conn;
mod c18;
mod genpkt;
mod libconv;
mod check;
mod refmqtt;
mod simnet;
mod smoke;
mod world;

use check::Tier;

fn tier(s: Option<&String>) -> Tier {
    match s.map(|s| s.as_str()) {
        Some("thorough") => Tier::Thorough,
        _ => Tier::Quick,
    }
}

fn main() {
    let args: Vec<String> = std::env::args().collect();
    let code = match args.get(1).map(|s| s.as_str()) {
        Some("smoke") => {
            smoke::run();
            0
        }
        Some("selftest") => smoke::selftest(),
        Some("check") => {
            let t = tier(args.get(3));
            match args.get(2).map(|s| s.as_str()) {
                Some("C01") => c01::run(t),
                Some("C02") => c02::run(t),
                Some("C09") => c09::run(t),
                Some("C10") => c10::run(t),
                Some("C18") => c18::run(t),
                other => {
                    eprintln!("unknown property {other:?}");
                    2
                }
            }
        }
        _ => {
            eprintln!("usage: mc check <ID> <quick|thorough> | mc replay <file> | mc smoke");
            2
        }
    };
    std::process::exit(code);
}
