mod c01;
mod c02;
mod c03;
mod c11;
mod c12;
mod c16;
mod c17;
mod c17x;
mod inbound;
mod inbound_oracles;
mod c05;
mod c06;
mod c06wrap;
mod c07;
mod c08;
mod c15;
mod c19;
mod c20;
mod c09;
mod c10;
mod c10conn;
mod c18;
mod c18conn;
mod genpkt;
mod libconv;
mod outbound;
mod check;
mod refmqtt;
mod simnet;
mod smoke;
mod world;

use check::Tier;

fn tier(s: Option<&String>) -> Tier {
    match s.map(|s| s.as_str()) {
        Some("thorough") => Tier::Thorough,
        _ => Tier::Quick,
    }
}

struct StderrLog;
impl log::Log for StderrLog {
    fn enabled(&self, _: &log::Metadata) -> bool {
        true
    }
    fn log(&self, r: &log::Record) {
        eprintln!("    [{:?} step {} {} {}] {}", ntex_util::time::vclock::elapsed(), crate::simnet::step(), r.level(), r.target(), r.args());
    }
    fn flush(&self) {}
}
static LOGGER: StderrLog = StderrLog;

fn main() {
    if std::env::var("VERIF_LOG").is_ok() {
        let _ = log::set_logger(&LOGGER);
        log::set_max_level(log::LevelFilter::Trace);
    }
    let args: Vec<String> = std::env::args().collect();
    let code = match args.get(1).map(|s| s.as_str()) {
        Some("smoke") => {
            smoke::run();
            0
        }
        Some("selftest") => smoke::selftest(),
        Some("bench") => { c05::bench(); 0 }
        Some("modes") => { smoke::compare_modes(); 0 }
        Some("leak") => { c03::bench_leak(); 0 }
        Some("trace") => {
            // mc trace <ID> <tier> <cfg_index> <c1,c2,...>
            let prop = args.get(2).cloned().unwrap_or_default();
            let t = tier(args.get(3));
            let idx: usize = args.get(4).and_then(|s| s.parse().ok()).unwrap_or(0);
            let raw = args.get(5).cloned().unwrap_or_default();
            let is_script = raw.chars().any(|c| c.is_alphabetic());
            let choices: Vec<u16> = if is_script { vec![] } else { raw.split(',').filter_map(|x| x.parse().ok()).collect() };
            let script: Option<Vec<String>> = if is_script { Some(raw.split(';').map(|x| x.trim().to_string()).filter(|x| !x.is_empty()).collect()) } else { None };
            let rec = match prop.as_str() {
                "C05" | "C13" | "C06" | "C14" | "C08" => c05::trace(&prop, t, idx, &choices, script, 20_000),
                "C07" => c07::trace(t, idx, &choices, script, 20_000),
                "C15" => c15::trace(t, idx, &choices, script, 20_000),
                "C20" => c20::trace(t, idx, &choices, script, 60_000),
                "C19" => c19::trace(t, idx, &choices, script, 20_000),
                "C10" => c10conn::trace(t == Tier::Thorough, idx, &choices, script, 20_000),
                "C18" => c18conn::trace(t == Tier::Thorough, idx, &choices, script, 20_000),
                "C03" | "C04" | "C11" | "C12" | "C16" | "C17" => c03::trace(&prop, t, idx, &choices, script, 20_000),
                _ => {
                    eprintln!("no trace support for {prop}");
                    std::process::exit(2);
                }
            };
            for l in &rec.log {
                println!("{l}");
            }
            println!("events: {:?}", rec.labels);
            println!("choices: {:?}", rec.choices);
            println!("alts: {:?}", rec.points.iter().map(|p| (p.n_alts, p.running)).collect::<Vec<_>>());
            println!("verdict: {:?}", rec.verdict);
            0
        }
        Some("replay") => {
            let path = args.get(2).cloned().unwrap_or_default();
            let v: serde_json::Value = serde_json::from_str(&std::fs::read_to_string(&path).expect("read replay file")).expect("json");
            let prop = v["property"].as_str().unwrap_or("").to_string();
            let t = if v["tier"].as_str() == Some("thorough") { Tier::Thorough } else { Tier::Quick };
            let r = &v["replay"];
            println!("replaying {} ({}): clause={} witness={}", prop, v["tier"], v["clause"], v["witness"]);
            if r["engine"].as_str() == Some("simnet") {
                let idx = r["cfg_index"].as_u64().unwrap_or(0) as usize;
                let choices: Vec<u16> = r["choices"].as_array().map(|a| a.iter().map(|x| x.as_u64().unwrap() as u16).collect()).unwrap_or_default();
                let max_polls = r["max_polls"].as_u64().unwrap_or(20_000);
                let rec = match prop.as_str() {
                    "C05" | "C13" | "C06" | "C14" | "C08" => c05::trace(&prop, t, idx, &choices, None, max_polls),
                    "C07" => c07::trace(t, idx, &choices, None, max_polls),
                    "C15" => c15::trace(t, idx, &choices, None, max_polls),
                    "C20" => c20::trace(t, idx, &choices, None, max_polls),
                    "C19" => c19::trace(t, idx, &choices, None, max_polls),
                    "C10" => c10conn::trace(t == Tier::Thorough, idx, &choices, None, max_polls),
                    "C18" => c18conn::trace(t == Tier::Thorough, idx, &choices, None, max_polls),
                    "C03" | "C04" | "C11" | "C12" | "C16" | "C17" => c03::trace(&prop, t, idx, &choices, None, max_polls),
                    _ => {
                        eprintln!("no simnet replay for {prop}");
                        std::process::exit(2);
                    }
                };
                for l in &rec.log {
                    println!("{l}");
                }
                println!("events: {:?}", rec.labels);
                match &rec.verdict {
                    Some(simnet::Verdict::Violation(vv)) => {
                        println!("VIOLATION property={prop} replay={path}");
                        println!("  clause={} witness={}\n  {}", vv.clause, vv.witness, vv.detail);
                        1
                    }
                    other => {
                        println!("no violation on replay: {other:?}");
                        0
                    }
                }
            } else {
                let found = match r["check"].as_str() {
                    Some("c18") => c18::replay(&r["input"]),
                    Some("c02") => c02::replay(&r["input"]),
                    _ => Vec::new(),
                };
                if found.is_empty() {
                    println!("no violation on replay");
                    0
                } else {
                    for f in &found {
                        println!("VIOLATION property={prop} replay={path}\n  clause={} witness={}\n  {}", f.clause, f.witness, f.detail);
                    }
                    1
                }
            }
        }
        Some("check") => {
            let t = tier(args.get(3));
            match args.get(2).map(|s| s.as_str()) {
                Some("C01") => c01::run(t),
                Some("C02") => c02::run(t),
                Some("C03") => c03::run_c03(t),
                Some("C04") => c03::run_c04(t),
                Some("C07") => c07::run(t),
                Some("C15") => c15::run(t),
                Some("C20") => c20::run(t),
                Some("C19") => c19::run(t),
                Some("C08") => c08::run(t),
                Some("C11") => c11::run(t),
                Some("C17") => c17::run(t),
                Some("C16") => c16::run(t),
                Some("C12") => c12::run(t),
                Some("C05") => c05::run(t),
                Some("C06") => c06::run_c06(t),
                Some("C14") => c06::run_c14(t),
                Some("C13") => c05::run_c13(t),
                Some("C09") => c09::run(t),
                Some("C10") => c10::run(t),
                Some("C18") => c18::run(t),
                other => {
                    eprintln!("unknown property {other:?}");
                    2
                }
            }
        }
        _ => {
            eprintln!("usage: mc check <ID> <quick|thorough> | mc replay <file> | mc smoke");
            2
        }
    };
    std::process::exit(code);
}
