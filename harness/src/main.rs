mod refmqtt;
mod simnet;
mod world;
mod smoke;

fn main() {
    let args: Vec<String> = std::env::args().collect();
    match args.get(1).map(|s| s.as_str()) {
        Some("smoke") => smoke::run(),
        _ => {
            eprintln!("usage: mc <cmd>");
            std::process::exit(2);
        }
    }
}
