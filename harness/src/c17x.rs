//! C17 (second part): alias bindings never leak between two connections on one runtime.
use std::future::Future;
use std::pin::Pin;

use crate::check::{Check, Tier};
use crate::refmqtt::{self as rf, PVal, Pkt, Ver};
use crate::simnet::*;
use crate::world::*;

pub struct Two {
    a: Conn,
    b: Conn,
    role: Role,
    /// events applied so far: (connection, topic selector, alias)
    hist: Vec<(u8, u8, u16)>,
    max_len: u8,
}

#[derive(Clone, Debug)]
pub struct TwoCfg {
    pub role: Role,
    pub router: bool,
    pub max_len: u8,
}

#[derive(Clone, Copy, Debug)]
pub enum Ev {
    /// publish on connection (0=A,1=B) with topic selector (1=a,2=b,3=empty) and alias
    Pub(u8, u8, u16),
}

fn topic_of(sel: u8) -> &'static str {
    match sel {
        1 => "a",
        2 => "b",
        _ => "",
    }
}

impl Scenario for Two {
    type Cfg = TwoCfg;
    type Ev = Ev;
    fn build(cfg: &TwoCfg) -> Pin<Box<dyn Future<Output = Self>>> {
        let cfg = cfg.clone();
        Box::pin(async move {
            let mut ep = EpCfg::new(Ver::V5, cfg.role);
            ep.router = cfg.router;
            ep.handler_auto = true;
            ep.max_topic_alias = 2;
            let a = start_endpoint(&ep, vec![], true).await;
            let mut epb = ep.clone();
            epb.tag = "EB";
            let b = start_endpoint(&epb, vec![], true).await;
            Two { a, b, role: cfg.role, hist: Vec::new(), max_len: cfg.max_len }
        })
    }
    fn enabled(&self, _q: bool) -> Vec<Ev> {
        let mut v = Vec::new();
        let ready = |c: &Conn| c.sink.borrow().is_some() && c.log.count(|r| matches!(r, Rec::Handshake(s) if s == "accepted")) > 0;
        if !ready(&self.a) || !ready(&self.b) || self.hist.len() >= self.max_len as usize {
            return v;
        }
        for c in 0..2u8 {
            let conn = if c == 0 { &self.a } else { &self.b };
            if conn.done() || !conn.log.stops().is_empty() {
                continue;
            }
            for (t, al) in [(1u8, 1u16), (2, 1), (3, 1), (2, 2), (3, 2), (1, 0)] {
                v.push(Ev::Pub(c, t, al));
            }
        }
        v
    }
    fn apply(&mut self, ev: Ev) {
        let Ev::Pub(c, t, al) = ev;
        let tag = 0xC0 + self.hist.len() as u8;
        self.hist.push((c, t, al));
        let mut p = rf::publish(0, 0, topic_of(t), &[tag]);
        if al != 0 {
            if let Pkt::Publish { props, .. } = &mut p {
                props.push((0x23, PVal::U16(al)));
            }
        }
        if c == 0 { self.a.send(&p) } else { self.b.send(&p) }
    }
    fn check(&mut self, _q: bool) -> Result<(), Violation> {
        self.a.pump();
        self.b.pump();
        Ok(())
    }
    fn finish(&mut self) -> Result<Outcome, Violation> {
        // reference: one map per connection
        for c in 0..2u8 {
            let conn = if c == 0 { &self.a } else { &self.b };
            let mut map = std::collections::HashMap::new();
            let mut bad = false;
            let mut want: Vec<(u8, String)> = Vec::new();
            for (i, (cc, t, al)) in self.hist.iter().enumerate() {
                if *cc != c || bad {
                    continue;
                }
                let tag = 0xC0 + i as u8;
                let topic = topic_of(*t).to_string();
                if *al == 0 {
                    want.push((tag, topic));
                } else if topic.is_empty() {
                    match map.get(al) {
                        Some(tp) => want.push((tag, String::clone(tp))),
                        None => bad = true,
                    }
                } else {
                    map.insert(*al, topic.clone());
                    want.push((tag, topic));
                }
            }
            let got: Vec<(u8, String)> = conn
                .log
                .snapshot()
                .iter()
                .filter_map(|(_, r)| if let Rec::HEnter { topic, .. } = r { Some(topic.clone()) } else { None })
                .zip(conn.log.snapshot().iter().filter_map(|(_, r)| if let Rec::HPayload { bytes, .. } = r { bytes.first().copied() } else { None }))
                .map(|(t, b)| (b, t.rsplit(':').next().unwrap_or("").to_string()))
                .collect();
            let wit = format!("v5-{} connection {}", if self.role == Role::Server { "server" } else { "client" }, if c == 0 { "A" } else { "B" });
            if got != want {
                return Err(Violation::new(
                    "alias-leak",
                    wit,
                    format!("history {:?}: handlers of connection {c} saw {got:?}, reference per-connection map says {want:?}", self.hist),
                ));
            }
            let stopped = !conn.log.stops().is_empty() || conn.done();
            if bad != stopped {
                return Err(Violation::new(
                    "alias-leak",
                    format!("{wit} stop"),
                    format!("history {:?}: connection {c} stopped={stopped}, reference says an unbound alias was used={bad}", self.hist),
                ));
            }
        }
        Ok(Outcome { obs: format!("{:?}", self.hist), nontrivial: self.hist.iter().any(|h| h.0 == 0) && self.hist.iter().any(|h| h.0 == 1) })
    }
}

pub fn two_connections(ck: &mut Check, tier: Tier) {
    let ecfg = ExploreCfg { max_dev: 0, max_execs: 2_000_000, ..Default::default() };
    let mut i = 100;
    for role in [Role::Server, Role::Client] {
        for router in [false, true] {
            let cfg = TwoCfg { role, router, max_len: if tier == Tier::Quick { 3 } else { 4 } };
            ck.explore::<Two>("two-connections", i, &cfg, &ecfg);
            i += 1;
        }
    }
}
