//! C20: idle and too-slow peers are timed out, live peers are not.
//!
//! Time is the virtual clock of the vendored ntex-util; it only moves with the explorer's `Tick`
//! event (half a second).  The first alternative at every quiescent point is `Tick`; every other
//! event (a packet, a fragment, traffic stopping, a handler getting busy / done) costs one deviation,
//! so the explorer enumerates every placement of up to `max_dev` such events on the half-second grid,
//! on top of an optional steady background traffic pattern.
use std::future::Future;
use std::pin::Pin;
use std::time::Duration;

use crate::check::{Check, Tier};
use crate::refmqtt::{self as rf, Pkt, Ver};
use crate::simnet::{ExploreCfg, Outcome, Scenario, Violation};
use crate::world::*;

/// a half-second tick is delivered as SUB sub-steps so that one-second library timers re-arm close to their deadline
const SUB: u32 = 5;
const SUBSTEP: Duration = Duration::from_millis(100);

#[derive(Clone, Copy, Debug, PartialEq, Eq)]
pub enum Kind {
    /// server keep-alive
    KeepAlive,
    /// server frame read rate
    ReadRate,
    /// server connect timeout (CONNECT is not sent up front)
    Connect,
    /// client: own PINGREQs
    ClientPing,
}

/// how the packets of the steady background traffic are cut
#[derive(Clone, Copy, Debug, PartialEq, Eq)]
pub enum Frag {
    Whole,
    /// first byte now, rest in the same half-second slot (two writes)
    TwoWrites,
    /// first byte in this slot, rest in the next slot
    AcrossSlots,
    /// a 57-byte SUBSCRIBE in pieces of 12 bytes, one per half-second slot (two seconds per frame, always above a
    /// rate of 4 bytes per second, so that every frame lives through at least one read-timer period)
    Trickle,
}

#[derive(Clone, Copy, Debug, PartialEq, Eq, Hash)]
pub enum TEv {
    /// half a second passes (and the steady traffic, if on, does its thing)
    Tick,
    /// continuation of a Tick (forced, never an alternative)
    SubTick,
    /// steady traffic stops for good
    StopTraffic,
    /// one complete packet now
    Pkt,
    /// the first `n` bytes of a 22-byte PUBLISH (or of CONNECT in `Kind::Connect`)
    Part(u8),
    /// `n` more bytes of the frame in progress
    More(u8),
    /// the rest of the frame in progress
    Rest,
    /// a QoS 1 PUBLISH whose handler stays busy
    Busy,
    /// the busy handler completes
    Done,
    /// the application's publish service stops being ready (its own back-pressure) / is ready again
    Hold,
    Unhold,
    /// client: the application starts a streamed QoS 0 publish (6 bytes declared, first 3 sent)
    StreamStart,
    /// ... and delivers the remaining chunk
    StreamEnd,
    /// client: the application sends a QoS 1 publish that the peer never acknowledges (with max_send 1 the send
    /// window stays full; a second one parks on the window)
    SendQ1,
}

#[derive(Clone, Debug)]
pub struct TmCfg {
    pub ep: EpCfg,
    pub kind: Kind,
    /// steady traffic: one complete packet every `period` half-seconds
    pub steady: Option<(u32, Frag)>,
    pub horizon: u32,
    pub alphabet: Vec<TEv>,
    pub max_events: usize,
    /// Kind::Connect: use the combined (version-sniffing) server
    pub combined: bool,
    /// this many QoS 1 publishes with gated handlers arrive right after CONNECT (time 0); their completions
    /// (`Done`) are the only later activity: server-side work must not postpone the peer's keep-alive deadline
    pub prefill_busy: u8,
}

pub struct Tm {
    cfg: TmCfg,
    conn: Conn,
    /// half-seconds elapsed
    t: u32,
    traffic_on: bool,
    /// bytes of the steady packet still to deliver in the next slot
    carry: Vec<u8>,
    /// frame in progress (remaining bytes), time it started, bytes delivered per slot
    frame: Option<Vec<u8>>,
    frame_start: u32,
    /// slot in which the last frame was completed
    frame_end: Option<u32>,
    frame_bytes: Vec<(u32, usize)>,
    /// times (half-seconds) at which a complete packet had been delivered; starts with the CONNECT
    completes: Vec<u32>,
    events: Vec<(u32, TEv)>,
    stop_at: Option<u32>,
    done_at: Option<u32>,
    /// times at which the reading side was possibly paused (a handler was busy)
    busy_from: Option<u32>,
    busy_spans: Vec<(u32, u32, bool)>,
    /// the publish service is held not-ready since (`TEv::Hold`)
    held_from: Option<u32>,
    held_once: bool,
    pings_seen: Vec<u32>,
    next_pid: u16,
    frame_seq: u8,
    substeps: u32,
    app: crate::outbound::App,
    stream: u8,
    /// half-second slots during which a streamed publish was open (no other packet can be written)
    stream_span: Option<(u32, Option<u32>)>,
    sends_started: usize,
}

/// keep-alive period the client asked for / the timeout the library derives or is told to use
fn ka(cfg: &EpCfg) -> (u32, u32) {
    let k = cfg.client_keepalive as u32;
    let t = match cfg.hs_keepalive {
        Some(v) => v as u32,
        None if k == 0 => 30,
        None => k + k / 2,
    };
    (k, t)
}

/// half-seconds after which a library timeout of `t` seconds has certainly fired: the io timer counts
/// t + 1 ticks of one second each, every tick up to 30% late (timer wheel rounding + sub-step grid)
fn late(t: u32) -> u32 {
    ((t + 1) * 26).div_ceil(10) + 1
}

impl Tm {
    fn wit(&self, what: &str) -> String {
        format!("{} {:?} {what}", self.cfg.ep.label(), self.cfg.kind)
    }
    fn detail(&self) -> String {
        format!(
            "t={}s keep-alive={:?} steady={:?} events={:?} complete_packets_at={:?} frame_bytes={:?} stop_at={:?} stops={:?} wire_out={:?}",
            self.t as f32 / 2.0,
            ka(&self.cfg.ep),
            self.cfg.steady,
            self.events.iter().map(|(t, e)| format!("{}s:{e:?}", *t as f32 / 2.0)).collect::<Vec<_>>(),
            self.completes.iter().map(|t| *t as f32 / 2.0).collect::<Vec<_>>(),
            self.frame_bytes,
            self.stop_at.map(|t| t as f32 / 2.0),
            self.conn.log.stops(),
            self.conn.out_short()
        )
    }
    fn complete_pkt(&self) -> Vec<u8> {
        rf::encode(self.cfg.ep.ver, &Pkt::PingReq)
    }
    fn big_frame(&mut self) -> Vec<u8> {
        if self.cfg.kind == Kind::Connect {
            return rf::encode(self.cfg.ep.ver, &rf::connect(self.cfg.ep.ver, "c", self.cfg.ep.client_keepalive, vec![]));
        }
        self.frame_seq += 1;
        if self.frame_is_subscribe() {
            // a frame that is not announced before it is complete (a PUBLISH is, as soon as its header is decoded:
            // known findings C20-2/3), so the read-rate timer has to watch all of it
            let filter = format!("f/{}", "x".repeat(38));
            return rf::encode(self.cfg.ep.ver, &Pkt::Subscribe { pid: 100 + self.frame_seq as u16, props: vec![], filters: vec![(filter, 0)] });
        }
        rf::encode(self.cfg.ep.ver, &rf::publish(0, 0, "t", &[b'a' + self.frame_seq; 17]))
    }
    /// read-rate configurations without an overall limit use a 47-byte SUBSCRIBE as the slow frame
    fn frame_is_subscribe(&self) -> bool {
        self.cfg.kind == Kind::ReadRate && matches!(self.cfg.ep.frame_read_rate, Some((_, 0, _)))
    }
    fn deliver(&mut self, b: &[u8], completes: bool) {
        self.conn.send_raw(b);
        if completes {
            self.completes.push(self.t);
        }
    }
    fn ended(&self) -> bool {
        self.stop_at.is_some() || self.done_at.is_some()
    }
}

impl Scenario for Tm {
    type Cfg = TmCfg;
    type Ev = TEv;

    fn quiescent_alt_cost() -> u32 {
        1
    }

    fn build(cfg: &TmCfg) -> Pin<Box<dyn Future<Output = Self>>> {
        let cfg = cfg.clone();
        Box::pin(async move {
            let conn = if cfg.combined { start_combined_server(&cfg.ep).await } else { start_endpoint(&cfg.ep, vec![], cfg.kind != Kind::Connect).await };
            let prefill = cfg.prefill_busy;
            let ver = cfg.ep.ver;
            let mut tm = Tm {
                traffic_on: cfg.steady.is_some(),
                completes: if cfg.kind == Kind::Connect { vec![] } else { vec![0] },
                cfg,
                conn,
                t: 0,
                carry: vec![],
                frame: None,
                frame_start: 0,
                frame_end: None,
                frame_bytes: vec![],
                events: vec![],
                stop_at: None,
                done_at: None,
                busy_from: None,
                busy_spans: vec![],
                held_from: None,
                held_once: false,
                pings_seen: vec![],
                next_pid: 1,
                frame_seq: 0,
                substeps: 0,
                app: std::rc::Rc::new(std::cell::RefCell::new((0..4).map(|_| crate::outbound::SenderSt::default()).collect())),
                sends_started: 0,
                stream: 0,
                stream_span: None,
            };
            for _ in 0..prefill {
                let pid = tm.next_pid;
                tm.next_pid += 1;
                let p = rf::encode(ver, &rf::publish(1, pid, "t", b"b"));
                tm.deliver(&p, true);
            }
            tm
        })
    }

    fn enabled(&self, q: bool) -> Vec<TEv> {
        if self.substeps > 0 {
            return if q { vec![TEv::SubTick] } else { vec![] };
        }
        if self.t >= self.cfg.horizon {
            return vec![];
        }
        let mut v = if q { vec![TEv::Tick] } else { vec![] };
        if self.ended() || self.events.len() >= self.cfg.max_events || self.conn.peer_closed {
            return v;
        }
        for e in &self.cfg.alphabet {
            let ok = match e {
                TEv::Tick | TEv::SubTick => false,
                TEv::StopTraffic => self.traffic_on,
                TEv::Pkt => self.frame.is_none() && self.carry.is_empty(),
                TEv::Part(_) => self.frame.is_none() && self.carry.is_empty() && !self.traffic_on,
                TEv::More(n) => self.frame.as_ref().is_some_and(|f| f.len() > *n as usize),
                TEv::Rest => self.frame.is_some(),
                TEv::Busy => self.busy_from.is_none() && self.frame.is_none() && self.carry.is_empty() && self.cfg.kind != Kind::Connect,
                TEv::Done => !self.conn.gates.waiting().is_empty(),
                TEv::Hold => self.held_from.is_none() && !self.held_once,
                TEv::Unhold => self.held_from.is_some(),
                TEv::StreamStart => self.stream == 0 && self.conn.sink().is_some(),
                TEv::StreamEnd => self.stream == 1,
                TEv::SendQ1 => self.sends_started < 2 && self.conn.sink().is_some(),
            };
            if ok {
                v.push(*e);
            }
        }
        v
    }

    fn apply(&mut self, ev: TEv) {
        if !matches!(ev, TEv::Tick | TEv::SubTick) {
            self.events.push((self.t, ev));
        }
        match ev {
            TEv::SubTick => {
                self.substeps -= 1;
                ntex_util::time::vclock::advance(SUBSTEP);
            }
            TEv::Tick => {
                self.t += 1;
                self.substeps = SUB - 1;
                ntex_util::time::vclock::advance(SUBSTEP);
                if !self.carry.is_empty() {
                    let mut c = std::mem::take(&mut self.carry);
                    if matches!(self.cfg.steady, Some((_, Frag::Trickle))) && c.len() > 12 {
                        self.carry = c.split_off(12);
                        self.deliver(&c, false);
                    } else {
                        self.deliver(&c, true);
                    }
                }
                if let (true, Some((period, frag))) = (self.traffic_on && !self.ended(), self.cfg.steady) {
                    if self.t % period == 0 && self.frame.is_none() {
                        let p = self.complete_pkt();
                        match frag {
                            Frag::Whole => self.deliver(&p, true),
                            Frag::TwoWrites => {
                                self.deliver(&p[..1], false);
                                self.deliver(&p[1..], true);
                            }
                            Frag::Trickle => {
                                self.frame_seq += 1;
                                let filter = format!("s/{}", "y".repeat(48));
                                let f = rf::encode(self.cfg.ep.ver, &Pkt::Subscribe { pid: 200 + self.frame_seq as u16, props: vec![], filters: vec![(filter, 0)] });
                                self.deliver(&f[..12], false);
                                self.carry = f[12..].to_vec();
                            }
                            Frag::AcrossSlots => {
                                self.deliver(&p[..1], false);
                                self.carry = p[1..].to_vec();
                            }
                        }
                    }
                }
            }
            TEv::StopTraffic => self.traffic_on = false,
            TEv::Pkt => {
                let p = self.complete_pkt();
                self.deliver(&p, true);
            }
            TEv::Part(n) => {
                let f = self.big_frame();
                let n = (n as usize).min(f.len() - 1);
                self.frame_start = self.t;
                self.frame_end = None;
                self.frame_bytes = vec![(self.t, n)];
                self.deliver(&f[..n], false);
                self.frame = Some(f[n..].to_vec());
            }
            TEv::More(n) => {
                let mut f = self.frame.take().unwrap();
                let rest = f.split_off(n as usize);
                self.frame_bytes.push((self.t, n as usize));
                self.deliver(&f, false);
                self.frame = Some(rest);
            }
            TEv::Rest => {
                let f = self.frame.take().unwrap();
                self.frame_bytes.push((self.t, f.len()));
                self.frame_end = Some(self.t);
                self.deliver(&f, true);
            }
            TEv::Busy => {
                let pid = self.next_pid;
                self.next_pid += 1;
                self.busy_from = Some(self.t);
                let p = rf::encode(self.cfg.ep.ver, &rf::publish(1, pid, "t", b"b"));
                self.deliver(&p, true);
            }
            TEv::Hold => {
                self.held_from = Some(self.t);
                self.held_once = true;
                crate::world::hold_readiness(true);
            }
            TEv::Unhold => {
                crate::world::hold_readiness(false);
                let f = self.held_from.take().unwrap();
                self.busy_spans.push((f, self.t, true));
            }
            TEv::SendQ1 => {
                self.sends_started += 1;
                if let Some(sk) = self.conn.sink() {
                    crate::outbound::start_sender(&sk, crate::outbound::SK::Q1, self.sends_started, self.app.clone());
                }
            }
            TEv::StreamStart | TEv::StreamEnd => {
                if ev == TEv::StreamStart {
                    if let Some(sk) = self.conn.sink() {
                        crate::outbound::start_sender(&sk, crate::outbound::SK::Stream { qos: 0, size: 6, plan: 1 }, 0, self.app.clone());
                    }
                }
                self.stream += 1;
                self.stream_span = Some(match self.stream_span {
                    None => (self.t, None),
                    Some((a, _)) => (a, Some(self.t)),
                });
                let w = {
                    let mut a = self.app.borrow_mut();
                    a[0].chunks_allowed += 1;
                    a[0].chunk_waker.take()
                };
                if let Some(w) = w {
                    w.wake();
                }
            }
            TEv::Done => {
                let k = self.conn.gates.waiting()[0];
                self.conn.gates.open(k, GateOutcome::Ok);
                if let Some(f) = self.busy_from.take() {
                    self.busy_spans.push((f, self.t, false));
                }
            }
        }
    }

    fn check(&mut self, _q: bool) -> Result<(), Violation> {
        self.conn.pump();
        if self.stop_at.is_none() && !self.conn.log.stops().is_empty() {
            self.stop_at = Some(self.t);
        }
        if self.done_at.is_none() && self.conn.done() {
            self.done_at = Some(self.t);
        }
        let n = self.conn.out.iter().filter(|(_, p)| matches!(p, Pkt::PingReq)).count();
        while self.pings_seen.len() < n {
            self.pings_seen.push(self.t);
        }
        Ok(())
    }

    fn drain(&mut self) -> bool {
        false
    }

    fn finish(&mut self) -> Result<Outcome, Violation> {
        self.check(true)?;
        let stops = self.conn.log.stops();
        let ka_stop = stops.iter().any(|s| s.contains("KeepAliveTimeout"));
        let rd_stop = stops.iter().any(|s| s.contains("ReadTimeout"));
        let other_stop = !stops.is_empty() && !ka_stop && !rd_stop;
        let (k, t_impl) = ka(&self.cfg.ep);
        let end = self.stop_at.or(self.done_at);
        let now = self.t;
        let busy_ever = self.busy_from.is_some() || !self.busy_spans.is_empty();
        match self.cfg.kind {
            Kind::KeepAlive | Kind::ReadRate => {
                // period the peer has to respect: the client's own value, or the server's imposed one
                let period_hs = 2 * if self.cfg.ep.hs_keepalive.is_some() { t_impl } else { k };
                let ka_on = k != 0 || self.cfg.ep.hs_keepalive.is_some();
                if other_stop {
                    return Err(Violation::new("unexpected-stop", self.wit("other"), format!("connection ended for another reason: {}", self.detail())));
                }
                // ---- live peers are not timed out
                if ka_stop {
                    let e = end.unwrap();
                    let last = self.completes.iter().filter(|c| **c <= e).max().copied().unwrap_or(0);
                    // gaps between complete packets up to the end
                    let mut cs: Vec<u32> = self.completes.iter().filter(|c| **c <= e).copied().collect();
                    cs.sort();
                    let max_gap = cs.windows(2).map(|w| w[1] - w[0]).chain(std::iter::once(e - last)).max().unwrap_or(0);
                    if !ka_on {
                        return Err(Violation::new("keepalive-although-disabled", self.wit("disabled"), format!("keep-alive timeout although keep-alive is disabled: {}", self.detail())));
                    }
                    if max_gap < period_hs {
                        return Err(Violation::new(
                            "live-peer-timed-out",
                            self.wit(&format!("keep-alive {k}s/{t_impl}s{}{}", if busy_ever { " busy handler" } else { "" }, if self.cfg.steady.is_some_and(|s| s.1 != Frag::Whole) { " fragmented" } else { "" })),
                            format!("keep-alive timeout at {}s although complete packets never were more than {}s apart (period {}s): {}", e as f32 / 2.0, max_gap as f32 / 2.0, period_hs as f32 / 2.0, self.detail()),
                        ));
                    }
                    if self.cfg.ep.ver == Ver::V5 && !self.conn.out.iter().any(|(_, p)| matches!(p, Pkt::Disconnect { code: Some(0x8D), .. })) && !self.conn.peer_closed {
                        return Err(Violation::new("keepalive-without-0x8d", self.wit("v5"), format!("keep-alive timeout without DISCONNECT 0x8D: {}", self.detail())));
                    }
                }
                if rd_stop {
                    let e = end.unwrap();
                    let Some((timeout, max_timeout, rate)) = self.cfg.ep.frame_read_rate else {
                        return Err(Violation::new("read-timeout-unconfigured", self.wit(""), format!("read timeout without a configured read rate: {}", self.detail())));
                    };
                    // a frame completed in the very slot of the timeout still counts as in progress
                    let in_progress = self.frame.is_some() || self.frame_end.is_some_and(|fe| fe >= e);
                    if !in_progress && self.carry.is_empty() {
                        return Err(Violation::new("read-timeout-without-partial-frame", self.wit(""), format!("read timeout although no frame was in progress: {}", self.detail())));
                    }
                    let started = if in_progress { self.frame_start } else { e.saturating_sub(1) };
                    if e - started < 2 * timeout as u32 {
                        return Err(Violation::new("read-timeout-early", self.wit(&format!("rate {timeout}s")), format!("read timeout {}s after the frame started, configured {timeout}s: {}", (e - started) as f32 / 2.0, self.detail())));
                    }
                    // every timer period lasts at least one second and so spans two delivery instants of the
                    // half-second grid: a frame with more than `rate` bytes in every two consecutive slots is
                    // above the rate in every period and must not be cut before the overall limit
                    let slots = e - started;
                    let at = |s: u32| self.frame_bytes.iter().filter(|(t, _)| *t == s).map(|(_, n)| *n).sum::<usize>() as u32;
                    let fast_everywhere = in_progress && slots >= 2 && (started..e - 1).all(|s| at(s) + at(s + 1) > rate);
                    if fast_everywhere && slots < 2 * max_timeout as u32 {
                        return Err(Violation::new("fast-frame-timed-out", self.wit(&format!("rate {rate}B/{timeout}s")), format!("frame delivered faster than the configured rate in every period was cut after {}s: {}", slots as f32 / 2.0, self.detail())));
                    }
                }
                // ---- idle peers are timed out (judged while nothing pauses the reading side: a v3 server
                // with max_receive 1 stops reading, and its timers, while a handler is busy)
                // ... and there the period starts over when the last busy handler completes and reading resumes)
                // ... and so does any endpoint while the publish service is not ready
                let pausing = self.cfg.ep.ver == Ver::V3 && self.cfg.ep.max_receive == 1;
                let paused_now = (pausing && (self.busy_from.is_some() || !self.conn.gates.waiting().is_empty())) || self.held_from.is_some();
                let resumed = self.busy_spans.iter().filter(|s| pausing || s.2).map(|s| s.1).max().unwrap_or(0);
                if let (true, Some(e), true) = (ka_stop, end, !paused_now) {
                    let last = self.completes.iter().filter(|c| **c <= e).max().copied().unwrap_or(0).max(resumed.min(e));
                    if e - last > late(t_impl) && self.cfg.kind == Kind::KeepAlive && self.frame.is_none() {
                        return Err(Violation::new(
                            "idle-peer-timed-out-late",
                            self.wit(&format!("keep-alive {k}s/{t_impl}s{}", if self.cfg.prefill_busy > 0 || busy_ever { " handlers completing" } else { "" })),
                            format!("keep-alive timeout only {}s after the last complete packet (timeout {t_impl}s): {}", (e - last) as f32 / 2.0, self.detail()),
                        ));
                    }
                }
                if end.is_none() && !paused_now {
                    let last = self.completes.iter().max().copied().unwrap_or(0).max(resumed);
                    let idle = now - last;
                    if ka_on && idle >= late(t_impl) && self.cfg.kind == Kind::KeepAlive {
                        return Err(Violation::new(
                            "idle-peer-not-timed-out",
                            self.wit(&format!("keep-alive {k}s/{t_impl}s{}", if self.frame.is_some() { " partial frame" } else { "" })),
                            format!("no complete packet for {}s (timeout {t_impl}s) and the connection is still up: {}", idle as f32 / 2.0, self.detail()),
                        ));
                    }
                    if let (Some((timeout, _, _)), Some(_)) = (self.cfg.ep.frame_read_rate, &self.frame) {
                        let last_bytes = self.frame_bytes.iter().map(|(t, _)| *t).max().unwrap_or(self.frame_start);
                        // the period in which the last bytes arrived may still count as fast; the stall shows in the
                        // period after it, so the cut comes up to two timer periods after the last delivery
                        if now - last_bytes >= late(2 * timeout as u32) {
                            let delivered: usize = self.frame_bytes.iter().map(|(_, n)| *n).sum();
                            let hdr = if self.cfg.ep.ver == Ver::V5 { 6 } else { 5 };
                            return Err(Violation::new(
                                "slow-frame-not-timed-out",
                                self.wit(&if self.frame_is_subscribe() { format!("rate {timeout}s, stalled inside a SUBSCRIBE") } else { format!("rate {timeout}s, stalled inside the PUBLISH {}", if delivered >= hdr { "payload" } else { "header" }) }),
                                format!("a partial frame has been stalled for {}s (read timeout {timeout}s) and the connection is still up: {}", (now - last_bytes) as f32 / 2.0, self.detail()),
                            ));
                        }
                    }
                }
                if let Some(e) = end {
                    // the connection task completes soon after the Stop
                    if self.done_at.is_none() && now >= e + 6 {
                        return Err(Violation::new("task-not-completed", self.wit(""), format!("connection task still running {}s after the Stop: {}", (now - e) as f32 / 2.0, self.detail())));
                    }
                }
            }
            Kind::Connect => {
                // combined server: the protocol version must be readable within its own timeout, the rest of
                // CONNECT within the connect timeout counted from then; judged against the sum on the late side
                // and against the smaller one on the early side
                let pv = self.cfg.ep.pv_timeout as u32;
                let ct = if self.cfg.combined { self.cfg.ep.connect_timeout as u32 + pv } else { self.cfg.ep.connect_timeout as u32 };
                let early = if self.cfg.combined { pv.min(self.cfg.ep.connect_timeout as u32) } else { ct };
                let accepted = self.conn.log.count(|r| matches!(r, Rec::Handshake(s) if s == "accepted")) > 0;
                let complete_at = self.completes.first().copied();
                let handlers = self.conn.log.count(|r| matches!(r, Rec::HEnter { .. } | Rec::PEnter { .. }));
                if !accepted && handlers > 0 {
                    return Err(Violation::new("handler-before-connect", self.wit(""), format!("handler invoked before CONNECT was accepted: {}", self.detail())));
                }
                match complete_at {
                    Some(c) if c < 2 * early => {
                        if !accepted {
                            return Err(Violation::new("connect-in-time-dropped", self.wit(&format!("timeout {ct}s")), format!("CONNECT completed after {}s (timeout {ct}s) but was not accepted: {}", c as f32 / 2.0, self.detail())));
                        }
                    }
                    Some(c) if c >= late(ct) => {
                        if accepted && ct != 0 {
                            return Err(Violation::new("late-connect-accepted", self.wit(&format!("timeout {ct}s")), format!("CONNECT completed after {}s (timeout {ct}s) and was still accepted: {}", c as f32 / 2.0, self.detail())));
                        }
                    }
                    None => {
                        if ct != 0 && now >= late(ct) && self.done_at.is_none() {
                            return Err(Violation::new("slow-connect-not-dropped", self.wit(&format!("timeout {ct}s")), format!("no complete CONNECT after {}s (timeout {ct}s) and the connection is still up: {}", now as f32 / 2.0, self.detail())));
                        }
                    }
                    _ => {}
                }
            }
            Kind::ClientPing => {
                // the period in force is the server's when the CONNACK carries a Server Keep Alive (v5)
                let kk = self.cfg.ep.client_connack_props.iter().find_map(|(id, v)| if let (0x13, crate::refmqtt::PVal::U16(s)) = (id, v) { Some(*s as u32) } else { None }).unwrap_or(self.cfg.ep.client_keepalive as u32);
                // a response that falls due while the application has a streamed publish open cannot be written and
                // ends the connection (C08 allows exactly that); it is not a timer matter
                if other_stop && self.stream_span.is_some() && stops.iter().all(|s| s.contains("ExpectPayload")) {
                    return Ok(Outcome { obs: "ended by a response during an open stream".into(), nontrivial: false });
                }
                if other_stop || ka_stop || rd_stop {
                    return Err(Violation::new("unexpected-stop", self.wit("client"), format!("client connection ended: {}", self.detail())));
                }
                if kk > 0 {
                    let mut prev = 0u32;
                    for p in self.pings_seen.iter().copied().chain(std::iter::once(now)) {
                        // while a streamed publish is open nothing else can be written: only the parts of the
                        // interval before the stream opened and after it was completed count
                        let pieces: Vec<(u32, u32)> = match self.stream_span {
                            Some((a, b)) if a < p && b.is_none_or(|b| b > prev) => {
                                let mut v = vec![(prev, a.max(prev))];
                                if let Some(b) = b {
                                    v.push((b.min(p), p));
                                }
                                v
                            }
                            _ => vec![(prev, p)],
                        };
                        for (a, b) in pieces {
                            if b - a > 2 * kk + 1 {
                                return Err(Violation::new(
                                    "client-ping-missing",
                                    self.wit(&format!("keep-alive {kk}s{}", if self.stream_span.is_some() { " after a streamed publish" } else { "" })),
                                    format!("no PINGREQ between {}s and {}s with keep-alive {kk}s: {}", a as f32 / 2.0, b as f32 / 2.0, self.detail()),
                                ));
                            }
                        }
                        prev = p;
                    }
                } else if !self.pings_seen.is_empty() {
                    return Err(Violation::new("client-ping-although-disabled", self.wit(""), format!("PINGREQ written with keep-alive 0: {}", self.detail())));
                }
            }
        }
        let obs = format!("end={:?} stops={} ev={:?} pings={:?}", end, stops.len(), self.events, self.pings_seen);
        Ok(Outcome { obs, nontrivial: end.is_some() || !self.events.is_empty() || !self.pings_seen.is_empty() })
    }
}

pub fn configs(tier: Tier) -> Vec<TmCfg> {
    use TEv::*;
    let mut v = Vec::new();
    let thorough = tier == Tier::Thorough;
    let max_events = if thorough { 4 } else { 3 };
    for ver in [Ver::V3, Ver::V5] {
        // ---- keep-alive: client value 1..3, server override, disabled
        let kas: Vec<(u16, Option<u16>)> = vec![(1, None), (2, None), (3, None), (2, Some(1)), (0, Some(2)), (4, Some(2))];
        for (k, over) in kas {
            let (_, t_impl) = {
                let mut e = EpCfg::new(ver, Role::Server);
                e.client_keepalive = k;
                e.hs_keepalive = over;
                ka(&e)
            };
            let period = 2 * if over.is_some() { t_impl } else { k as u32 };
            // steady traffic just inside the period (one half-second earlier), in each fragmentation; and none
            let mut steadies: Vec<Option<(u32, Frag)>> = vec![None];
            if period >= 2 {
                for f in [Frag::Whole, Frag::TwoWrites, Frag::AcrossSlots] {
                    if f == Frag::AcrossSlots && period < 3 {
                        continue;
                    }
                    steadies.push(Some((period - 1, f)));
                }
            }
            for steady in steadies {
                for max_receive in [16u16, 1] {
                    if max_receive == 1 && (ver == Ver::V5 || steady.is_none()) {
                        // v3 server with max_receive 1: a busy handler pauses reading
                        continue;
                    }
                    let mut ep = EpCfg::new(ver, Role::Server);
                    ep.client_keepalive = k;
                    ep.hs_keepalive = over;
                    ep.handler_auto = false;
                    ep.max_receive = max_receive;
                    let alphabet = if steady.is_some() { vec![StopTraffic, Pkt, Busy, Done] } else { vec![Pkt, Part(3), Rest, Busy, Done] };
                    v.push(TmCfg { ep, kind: Kind::KeepAlive, steady, horizon: late(t_impl.min(4)) + 6, alphabet, max_events, combined: false, prefill_busy: 0 });
                }
            }
        }
        // the application's publish service is not ready for a while (its own back-pressure): reading and the
        // timers pause; when it is ready again the keep-alive period starts over, with or without traffic
        for (k, over) in [(2u16, None), (2, Some(1u16))] {
            for steady in [None, Some((2 * if over.is_some() { 1 } else { k as u32 } - 1, Frag::Whole))] {
                let mut ep = EpCfg::new(ver, Role::Server);
                ep.client_keepalive = k;
                ep.hs_keepalive = over;
                ep.handler_auto = false;
                ep.ready_gate = true;
                let (_, t_impl) = ka(&ep);
                let alphabet = if steady.is_some() { vec![StopTraffic, Hold, Unhold, Busy, Done] } else { vec![Pkt, Part(3), Rest, Hold, Unhold, Busy, Done] };
                v.push(TmCfg { ep, kind: Kind::KeepAlive, steady, horizon: late(t_impl.min(4)) + 6, alphabet, max_events: max_events + 1, combined: false, prefill_busy: 0 });
            }
        }
        // handlers completing while the peer is silent: three publishes at time 0, their handlers complete at
        // explorer-chosen times; server-side activity must not postpone the keep-alive deadline
        for (k, over) in [(2u16, Some(1u16)), (2, None)] {
            let mut ep = EpCfg::new(ver, Role::Server);
            ep.client_keepalive = k;
            ep.hs_keepalive = over;
            ep.handler_auto = false;
            ep.max_receive = 16;
            let (_, t_impl) = ka(&ep);
            v.push(TmCfg { ep, kind: Kind::KeepAlive, steady: None, horizon: late(t_impl) + 8, alphabet: vec![Done], max_events: 3, combined: false, prefill_busy: 3 });
        }
        // keep-alive 0 and no override: the library's documented 30 s default applies; live traffic must survive it
        {
            let mut ep = EpCfg::new(ver, Role::Server);
            ep.client_keepalive = 0;
            ep.handler_auto = false;
            v.push(TmCfg { ep, kind: Kind::KeepAlive, steady: Some((20, Frag::Whole)), horizon: 70, alphabet: vec![Pkt], max_events: 1, combined: false, prefill_busy: 0 });
        }
        // ---- frame read rate: timeout 1 s, overall 3 s, more than 4 bytes per period
        for ka_k in [0u16, 3] {
            let mut ep = EpCfg::new(ver, Role::Server);
            ep.client_keepalive = ka_k;
            ep.hs_keepalive = if ka_k == 0 { None } else { Some(8) };
            ep.handler_auto = true;
            ep.frame_read_rate = Some((1, 3, 4));
            v.push(TmCfg { ep, kind: Kind::ReadRate, steady: None, horizon: 16, alphabet: vec![Part(3), Part(12), More(1), More(3), More(6), Rest, Pkt], max_events: if thorough { 6 } else { 5 }, combined: false, prefill_busy: 0 });
        }
        // ---- frame read rate without an overall limit (max_timeout 0): a frame that keeps above the rate for
        // several periods and then stalls must still be cut one period later (seeded change C20_r5 counted the
        // bytes of earlier periods again from the third rate check on)
        {
            let mut ep = EpCfg::new(ver, Role::Server);
            ep.client_keepalive = 0;
            ep.handler_auto = true;
            ep.proto_auto = true;
            ep.frame_read_rate = Some((1, 0, 4));
            v.push(TmCfg { ep, kind: Kind::ReadRate, steady: None, horizon: 18, alphabet: vec![Part(12), More(6), More(1), Rest], max_events: if thorough { 6 } else { 5 }, combined: false, prefill_busy: 0 });
        }
        // ---- frame read rate with an overall limit of three periods, steady traffic of slow-but-legal frames (2 s each,
        // 12 bytes every half second): every frame has its own overall budget - the fourth frame is as welcome as the
        // first (seeded change C20_r7 never refilled the budget, so the periods of all frames added up)
        {
            let mut ep = EpCfg::new(ver, Role::Server);
            ep.client_keepalive = 0;
            ep.handler_auto = true;
            ep.proto_auto = true;
            ep.frame_read_rate = Some((1, 3, 4));
            v.push(TmCfg { ep, kind: Kind::ReadRate, steady: Some((6, Frag::Trickle)), horizon: 30, alphabet: vec![Pkt], max_events: 1, combined: false, prefill_busy: 0 });
        }
        // ---- connect timeout 2 s
        {
            let mut ep = EpCfg::new(ver, Role::Server);
            ep.connect_timeout = 2;
            ep.handler_auto = true;
            v.push(TmCfg { ep: ep.clone(), kind: Kind::Connect, steady: None, horizon: 12, alphabet: vec![Part(5), More(3), Rest], max_events, combined: false, prefill_busy: 0 });
            // combined server: protocol-version timeout 2 s, then connect timeout 2 s
            ep.pv_timeout = 2;
            v.push(TmCfg { ep, kind: Kind::Connect, steady: None, horizon: 18, alphabet: vec![Part(5), More(3), More(6), Rest], max_events, combined: true, prefill_busy: 0 });
        }
        // ---- client pings
        for k in [0u16, 1, 2, 3] {
            let mut ep = EpCfg::new(ver, Role::Client);
            ep.client_keepalive = k;
            ep.handler_auto = false;
            v.push(TmCfg { ep: ep.clone(), kind: Kind::ClientPing, steady: None, horizon: 14, alphabet: vec![Busy, Done, StreamStart, StreamEnd], max_events: 3, combined: false, prefill_busy: 0 });
            // the client's send window is exhausted (max_send 1, a publish the peer does not acknowledge, a second
            // sender parked behind it): the connection is alive, pings must go on (seeded change C20_r4)
            // v5: the server imposes a shorter keep-alive in its CONNACK (Server Keep Alive 1 s against the client's
            // 3 s): the client pings at the server's period (seeded change C20_r13 took the larger of the two)
            if k == 3 && ver == Ver::V5 {
                let mut sep = ep.clone();
                sep.client_connack_props.push((0x13, crate::refmqtt::PVal::U16(1)));
                v.push(TmCfg { ep: sep, kind: Kind::ClientPing, steady: None, horizon: 14, alphabet: vec![Busy, Done], max_events: 2, combined: false, prefill_busy: 0 });
            }
            if k > 0 {
                ep.max_send = 1;
                v.push(TmCfg { ep, kind: Kind::ClientPing, steady: None, horizon: 14, alphabet: vec![SendQ1, Busy, Done], max_events: 3, combined: false, prefill_busy: 0 });
            }
        }
    }
    v
}

pub fn run(tier: Tier) -> i32 {
    let mut ck = Check::new("C20", tier, Duration::from_secs(if tier == Tier::Quick { 50 } else { 1800 }));
    let ecfg = ExploreCfg { max_dev: if tier == Tier::Quick { 2 } else { 4 }, max_execs: if tier == Tier::Quick { 600_000 } else { 20_000_000 }, max_polls: 60_000, ..Default::default() };
    let cfgs = configs(tier);
    // the cheap families first (read rate, connect timeout, client pings), the large keep-alive families last: a
    // thorough run that ends on its time budget has then covered every family (configuration indices stay those of
    // `configs()`, replay files refer to them)
    let mut order: Vec<usize> = (0..cfgs.len()).collect();
    order.sort_by_key(|i| cfgs[*i].kind == Kind::KeepAlive);
    for i in order {
        let c = &cfgs[i];
        // fragment placements need more events than the other families
        let mut e = ecfg.clone();
        if matches!(c.kind, Kind::ReadRate | Kind::Connect) || c.ep.ready_gate {
            e.max_dev += 1;
        }
        ck.explore::<Tm>("timers", i, c, &e);
    }
    ck.rule = format!(
        "virtual clock, half-second grid, horizon = timeout + 5 s: v3/v5 server with keep-alive 1,2,3 s (client value), server override smaller / larger / with client value 0, and 0 = library default; background traffic absent or one complete packet per (period - 0.5 s) delivered whole, in two writes, or split across two slots; on top every placement of up to {} events (one more for the fragment families) out of {{traffic stops, extra packet, partial frame + rest, a handler becomes busy / completes (v3 max_receive 1: reading paused)}}, and with one event more out of that set plus {{the application's publish service stops being ready / is ready again: reading and timers pause and the keep-alive period starts over afterwards}}; frame read rate (1 s, 3 s overall, > 4 bytes per period) with every placement of up to 5 fragment deliveries of 1 / 3 / 6 / rest bytes of a PUBLISH, and the same rate without an overall limit on a 47-byte SUBSCRIBE (not announced before it is complete) delivered in pieces of 12 / 6 / 1 / rest bytes, and with the three-period limit under steady traffic of such SUBSCRIBE frames trickling in over two seconds each (every frame has its own overall budget); connect timeout 2 s with CONNECT in up to three fragments (single-version servers, and the combined server with a 2 s protocol-version timeout in front of it); client keep-alive 0..3 s, idle or with a busy handler or with a streamed publish open across a ping or with the send window exhausted (max_send 1, unacknowledged publish, a second sender parked). Oracle: timeout only after a gap >= the period (never for live peers, also after a reading pause), with DISCONNECT 0x8D on v5; an idle connection is ended within timeout + 1.5 s; read timeout never earlier than configured nor for a frame above the rate, always for a stalled one; CONNECT in time accepted, late one dropped, no handler before acceptance; client writes PINGREQ at least once per keep-alive period",
        ecfg.max_dev
    );
    ck.assumptions = vec![
        "time = the vendored ntex-util virtual clock (vendor/ntex-util.vclock.patch); the io timer wheel of ntex-io counts one-second ticks, so deadlines are judged with 1.5 s of slack on the late side and none on the early side".into(),
        "keep-alive 0 in CONNECT: the library applies its documented 30 s default idle timeout; only 'live peers survive' is demanded there".into(),
        "FIFO task order of ntex-rt".into(),
    ];
    ck.finish()
}

pub fn trace(tier: Tier, idx: usize, choices: &[u16], script: Option<Vec<String>>, max_polls: u64) -> crate::simnet::ExecRecord {
    let cfgs = configs(tier);
    let c = &cfgs[idx];
    println!("config #{idx}: {} {:?} steady={:?} ka={:?} alphabet={:?}", c.ep.label(), c.kind, c.steady, ka(&c.ep), c.alphabet);
    match script {
        Some(sc) => crate::simnet::run_script::<Tm>(c, &sc, max_polls.max(60_000)),
        None => crate::simnet::run_one::<Tm>(c, choices, max_polls.max(60_000)),
    }
}
