//! C02: hostile / malformed bytes can neither crash nor desynchronise the decoders.
use std::sync::Mutex;
use std::sync::atomic::{AtomicU64, Ordering};
use std::time::Duration;

use ntex_bytes::BytesMut;
use serde_json::json;

use crate::check::{Check, Finding, Tier};
use crate::genpkt;
use crate::libconv::*;
use crate::refmqtt::{self as rf, DecErr, Mal, Pkt, Ver};

fn fnd(clause: &str, witness: String, detail: String, input: serde_json::Value) -> Finding {
    Finding { clause: clause.into(), witness, detail, replay: json!({"engine": "enum", "check": "c02", "input": input}) }
}

fn vname(v: Ver) -> &'static str {
    if v == Ver::V3 { "v3" } else { "v5" }
}

pub fn pkt_kind(first: u8) -> &'static str {
    ["RESERVED0", "CONNECT", "CONNACK", "PUBLISH", "PUBACK", "PUBREC", "PUBREL", "PUBCOMP", "SUBSCRIBE", "SUBACK", "UNSUBSCRIBE", "UNSUBACK", "PINGREQ", "PINGRESP", "DISCONNECT", "AUTH"]
        [(first >> 4) as usize]
}

/// Cut positions -> pieces.
pub fn pieces<'a>(input: &'a [u8], cuts: &[usize]) -> Vec<&'a [u8]> {
    let mut out = Vec::new();
    let mut prev = 0;
    for c in cuts {
        out.push(&input[prev..*c]);
        prev = *c;
    }
    out.push(&input[prev..]);
    out
}

#[derive(Default)]
pub struct DriveStats {
    pub items: u64,
    pub errs: u64,
    pub need_more: u64,
}

/// Feed `input` cut at `cuts` to a fresh decoder and check every C02 clause.
pub fn drive(ver: Ver, input: &[u8], cuts: &[usize], max_size: u32, min_chunk: u32, out: &mut Vec<Finding>, st: &mut DriveStats) {
    // "decoding terminates": the input is announced to the Engine B monitor for the duration of the evaluation
    crate::check::b_enter(if ver == Ver::V5 { "v5 Codec::decode" } else { "v3 Codec::decode" }, input);
    drive_inner(ver, input, cuts, max_size, min_chunk, out, st);
    crate::check::b_leave();
}

fn drive_inner(ver: Ver, input: &[u8], cuts: &[usize], max_size: u32, min_chunk: u32, out: &mut Vec<Finding>, st: &mut DriveStats) {
    let l5;
    let l3;
    let lib: &dyn LibCodec = if ver == Ver::V5 {
        l5 = L5::new(max_size, min_chunk);
        &l5
    } else {
        l3 = L3::new(max_size, min_chunk);
        &l3
    };
    let inp = || json!({"decoder": vname(ver), "bytes": rf::hex(input), "hex_full": input.iter().map(|b| format!("{b:02x}")).collect::<String>(), "cuts": cuts, "max_size": max_size, "min_chunk": min_chunk});
    let mut src = BytesMut::new();
    let mut fed = 0usize;
    let mut start = 0usize; // reference frame start
    let mut in_publish: Option<(usize, usize)> = None; // (frame end, payload remaining per library)
    'outer: for piece in pieces(input, cuts) {
        src.extend_from_slice(piece);
        fed += piece.len();
        loop {
            let avail_at_call = fed - start;
            // what the reference sees at the current frame start, given everything fed so far
            let fr = rf::frame(&input[start..fed]);
            let r = lib.decode_one(&mut src);
            let consumed = fed - src.len();
            match r {
                DecOut::Panic(m) => {
                    let site = m.split(" at ").next().unwrap_or(&m).to_string();
                    out.push(fnd("panic", format!("{} decoder: {}", vname(ver), site), format!("decode panicked: {m}"), inp()));
                    break 'outer;
                }
                DecOut::Err(_) => {
                    st.errs += 1;
                    break 'outer;
                }
                DecOut::NeedMore => {
                    st.need_more += 1;
                    // a frame that is completely available is a packet or an error, never need-more
                    if in_publish.is_none() {
                        if let Ok((first, hl, rl)) = fr {
                            if avail_at_call >= hl + rl {
                                let what = match rf::decode(ver, &input[start..start + hl + rl]) {
                                    Ok(_) => "valid".to_string(),
                                    Err(DecErr::Malformed(class, _)) => format!("malformed {class:?}"),
                                    Err(e) => format!("{e:?}"),
                                };
                                out.push(fnd(
                                    "stall",
                                    format!("{} {}: complete frame answered need-more ({what})", vname(ver), pkt_kind(first)),
                                    format!("the frame {} is completely available ({avail_at_call} bytes) but decode answered need-more", rf::hex(&input[start..start + hl + rl])),
                                    inp(),
                                ));
                                break 'outer;
                            }
                        }
                    }
                    // a Remaining Length whose fourth byte still has the continuation bit is malformed whatever follows
                    if in_publish.is_none() {
                        if let Err(DecErr::BadVarint) = fr {
                            out.push(fnd(
                                "accepts-malformed",
                                format!("{} decoder: Remaining Length longer than four bytes", vname(ver)),
                                format!("the fixed header {} has a Remaining Length of more than four bytes but decode answered need-more", rf::hex(&input[start..fed.min(start + 6)])),
                                inp(),
                            ));
                            break 'outer;
                        }
                    }
                    // oversize frames must be rejected as soon as the fixed header is complete
                    if in_publish.is_none() {
                        if let Ok((_, _, rl)) = fr {
                            if max_size != 0 && rl as u64 > max_size as u64 {
                                out.push(fnd(
                                    "max-size",
                                    format!("{} decoder: oversize frame not rejected at header", vname(ver)),
                                    format!("Remaining Length {rl} > max {max_size} but decode answered need-more with {avail_at_call} bytes available"),
                                    inp(),
                                ));
                                break 'outer;
                            }
                        }
                    }
                    break;
                }
                DecOut::Item(item) => {
                    st.items += 1;
                    let (first, hl, rl) = match fr {
                        Ok(x) => x,
                        Err(e) => {
                            if in_publish.is_none() {
                                out.push(fnd(
                                    "framing",
                                    format!("{} decoder: item without a complete fixed header", vname(ver)),
                                    format!("library produced {item:?} but reference framing at offset {start} says {e:?}"),
                                    inp(),
                                ));
                                break 'outer;
                            }
                            (0, 0, 0)
                        }
                    };
                    let frame_end = if let Some((fe, _)) = in_publish { fe } else { start + hl + rl };
                    if consumed > frame_end {
                        out.push(fnd(
                            "overconsume",
                            format!("{} decoder: consumed past the frame", vname(ver)),
                            format!("after {item:?} the decoder consumed {consumed} bytes but the frame at {start} ends at {frame_end}"),
                            inp(),
                        ));
                        break 'outer;
                    }
                    if in_publish.is_none() && max_size != 0 && rl as u64 > max_size as u64 {
                        out.push(fnd(
                            "max-size",
                            format!("{} decoder: oversize frame accepted", vname(ver)),
                            format!("Remaining Length {rl} > max {max_size} but decode produced {item:?}"),
                            inp(),
                        ));
                        break 'outer;
                    }
                    // classify the whole frame with the reference when it is completely inside the input
                    let complete_in_input = frame_end <= input.len();
                    let mut frame_done = false;
                    match &item {
                        Item::Packet(_, size) => {
                            frame_done = true;
                            if *size as usize != rl {
                                out.push(fnd("size", format!("{} decoder: reported size", vname(ver)), format!("reported size {size} but Remaining Length is {rl}"), inp()));
                            }
                        }
                        Item::Publish(_, psize, size) => {
                            if *size as usize != rl {
                                out.push(fnd("size", format!("{} decoder: reported size", vname(ver)), format!("reported size {size} but Remaining Length is {rl}"), inp()));
                            }
                            let got = if let Item::Publish(rf::Pkt::Publish { payload, .. }, _, _) = &item { payload.len() } else { 0 };
                            if got as u32 == *psize {
                                frame_done = true;
                            } else {
                                in_publish = Some((frame_end, *psize as usize - got));
                            }
                        }
                        Item::Chunk(b, eof) => {
                            if b.is_empty() && !*eof {
                                // "decoding terminates": a caller that decodes until need-more would spin for ever
                                out.push(fnd("no-progress", format!("{} decoder: empty payload piece that is not the end", vname(ver)), "decode handed out an empty, non-final payload piece without consuming input".to_string(), inp()));
                                break 'outer;
                            }
                            if let Some((fe, rem)) = in_publish {
                                if b.len() > rem || (*eof != (b.len() == rem)) {
                                    out.push(fnd(
                                        "chunk",
                                        format!("{} decoder: payload piece accounting", vname(ver)),
                                        format!("piece of {} bytes eof={eof} with {rem} bytes of payload remaining", b.len()),
                                        inp(),
                                    ));
                                    break 'outer;
                                }
                                if *eof {
                                    frame_done = true;
                                } else {
                                    in_publish = Some((fe, rem - b.len()));
                                }
                            } else {
                                out.push(fnd("chunk", format!("{} decoder: payload piece outside a PUBLISH", vname(ver)), format!("{item:?}"), inp()));
                                break 'outer;
                            }
                        }
                    }
                    if frame_done {
                        if consumed != frame_end {
                            out.push(fnd(
                                "desync",
                                format!("{} decoder: frame finished at the wrong offset", vname(ver)),
                                format!("frame at {start} ends at {frame_end} but decoder consumed {consumed} after {item:?}"),
                                inp(),
                            ));
                            break 'outer;
                        }
                        if complete_in_input {
                            // must-reject classes
                            let fr_first = input[start];
                            if let Err(DecErr::Malformed(class, why)) = rf::decode(ver, &input[start..frame_end]) {
                                if class != Mal::Other {
                                    out.push(fnd(
                                        "accepts-malformed",
                                        format!("{} {} {:?}: {}", vname(ver), pkt_kind(fr_first), class, why),
                                        format!("frame {} is malformed ({class:?}: {why}) but was accepted", rf::hex(&input[start..frame_end])),
                                        inp(),
                                    ));
                                }
                            }
                            let _ = first;
                        }
                        // stability of what was accepted
                        let unstable = lib.last_unstable();
                        if let (Some(u), Item::Packet(..) | Item::Publish(..)) = (unstable, &item) {
                            out.push(fnd(
                                "unstable",
                                format!("{} {}: accepted packet does not survive re-encoding", vname(ver), pkt_kind(input[start])),
                                format!("accepted {item:?}; {u}"),
                                inp(),
                            ));
                        }
                        start = frame_end;
                        in_publish = None;
                    }
                }
            }
            if src.is_empty() && start == fed {
                break;
            }
        }
    }
}

/// Protocol-version sniffer (combined server).
pub fn drive_sniff(input: &[u8], cuts: &[usize], out: &mut Vec<Finding>) {
    let inp = || json!({"decoder": "sniff", "bytes": rf::hex(input), "hex_full": input.iter().map(|b| format!("{b:02x}")).collect::<String>(), "cuts": cuts});
    let mut src = BytesMut::new();
    for piece in pieces(input, cuts) {
        src.extend_from_slice(piece);
        let before = src.to_vec();
        crate::check::b_enter("protocol-version sniffer", input);
        let r = std::panic::catch_unwind(std::panic::AssertUnwindSafe(|| ntex_mqtt::verif::sniff(&mut src)));
        crate::check::b_leave();
        match r {
            Err(p) => {
                out.push(fnd("panic", "sniff decoder".into(), format!("sniffer panicked: {}", panic_msg(p)), inp()));
                return;
            }
            Ok(res) => {
                if src.as_ref() != &before[..] {
                    out.push(fnd("sniff-consumes", "sniff decoder: consumed bytes".into(), format!("buffer changed from {} to {}", rf::hex(&before), rf::hex(&src)), inp()));
                    return;
                }
                // reference expectation from the bytes available
                let fr = rf::frame(&before);
                let expect: Option<Result<u8, ()>> = match fr {
                    Err(DecErr::Incomplete) => None,
                    Err(_) => Some(Err(())),
                    Ok((first, hl, _)) => {
                        if first != 0x10 {
                            Some(Err(()))
                        } else if before.len() < hl + 7 {
                            // protocol name + level not complete yet: a prefix mismatch may or may not be reported early
                            None
                        } else if &before[hl..hl + 6] != b"\x00\x04MQTT" {
                            Some(Err(()))
                        } else {
                            match before[hl + 6] {
                                4 => Some(Ok(3)),
                                5 => Some(Ok(5)),
                                _ => Some(Err(())),
                            }
                        }
                    }
                };
                match (expect, &res) {
                    (Some(Ok(v)), Ok(Some(g))) if v == *g => return,
                    (Some(Err(())), Err(_)) => return,
                    (None, Ok(None)) => {}
                    (None, Err(_)) => return, // early rejection of something that cannot become valid is allowed
                    (e, g) => {
                        out.push(fnd(
                            "sniff",
                            format!("sniff decoder: expected {e:?}"),
                            format!("with bytes {} the sniffer answered {g:?}, expected {e:?}", rf::hex(&before)),
                            inp(),
                        ));
                        return;
                    }
                }
            }
        }
    }
}

/// Variants of a v5 packet with one property repeated or one further property (any id of the
/// specification, minimal value) appended, in the packet's own and in the will's property list.
pub fn prop_mutants(p: &Pkt) -> Vec<Pkt> {
    use rf::{PTy, PVal};
    let minimal = |id: u8| -> Option<(u8, PVal)> {
        let (ty, _, _) = rf::prop_info(id)?;
        Some((
            id,
            match ty {
                PTy::Byte => PVal::Byte(1),
                PTy::U16 => PVal::U16(1),
                PTy::U32 => PVal::U32(1),
                PTy::VarInt => PVal::VarInt(1),
                PTy::Str => PVal::Str("s".into()),
                PTy::Bin => PVal::Bin(vec![1]),
                PTy::Pair => PVal::Pair("k".into(), "v".into()),
            },
        ))
    };
    let variants = |props: &rf::Props| -> Vec<rf::Props> {
        let mut v = Vec::new();
        for i in 0..props.len() {
            let mut q = props.clone();
            q.push(props[i].clone());
            v.push(q);
        }
        for id in rf::ALL_PROP_IDS {
            if let Some(x) = minimal(id) {
                let mut q = props.clone();
                q.push(x);
                v.push(q);
            }
        }
        v
    };
    let mut out = Vec::new();
    match p {
        Pkt::Connect { props, will, .. } => {
            for q in variants(props) {
                let mut m = p.clone();
                if let Pkt::Connect { props, .. } = &mut m {
                    *props = q;
                }
                out.push(m);
            }
            if let Some(w) = will {
                for q in variants(&w.props) {
                    let mut m = p.clone();
                    if let Pkt::Connect { will: Some(w), .. } = &mut m {
                        w.props = q;
                    }
                    out.push(m);
                }
            }
        }
        Pkt::ConnAck { props, .. } | Pkt::Publish { props, .. } | Pkt::Subscribe { props, .. } | Pkt::SubAck { props, .. } | Pkt::Unsubscribe { props, .. } | Pkt::UnsubAck { props, .. } => {
            for q in variants(props) {
                let mut m = p.clone();
                match &mut m {
                    Pkt::ConnAck { props, .. } | Pkt::Publish { props, .. } | Pkt::Subscribe { props, .. } | Pkt::SubAck { props, .. } | Pkt::Unsubscribe { props, .. } | Pkt::UnsubAck { props, .. } => *props = q,
                    _ => {}
                }
                out.push(m);
            }
        }
        Pkt::Ack { props, code, .. } | Pkt::Disconnect { code, props } | Pkt::Auth { code, props } => {
            for q in variants(&props.clone().unwrap_or_default()) {
                let mut m = p.clone();
                match &mut m {
                    Pkt::Ack { props, code: c, .. } | Pkt::Disconnect { code: c, props } | Pkt::Auth { code: c, props } => {
                        *props = Some(q);
                        if c.is_none() {
                            *c = Some(code.unwrap_or(0));
                        }
                    }
                    _ => {}
                }
                out.push(m);
            }
        }
        _ => {}
    }
    out
}

pub fn all_cuts(n: usize) -> Vec<Vec<usize>> {
    if n <= 1 {
        return vec![vec![]];
    }
    let mut out = Vec::new();
    for mask in 0..(1u32 << (n - 1)) {
        out.push((1..n).filter(|i| mask & (1 << (i - 1)) != 0).collect());
    }
    out
}

pub fn some_cuts(n: usize) -> Vec<Vec<usize>> {
    let mut out = vec![vec![], (1..n).collect()];
    for c in 1..n {
        out.push(vec![c]);
    }
    out
}

/// Short valid frames (reference-encoded canonical forms and library encodings), <= max_len bytes.
pub fn corpus(ver: Ver, max_len: usize, full: bool) -> Vec<Vec<u8>> {
    let mut set = std::collections::BTreeSet::new();
    if ver == Ver::V5 {
        genpkt::gen_v5(full, &mut |enc, pl| {
            let r = match &enc {
                ntex_mqtt::v5::codec::Encoded::Packet(p) => v5_to_ref(p),
                ntex_mqtt::v5::codec::Encoded::Publish(p, _) => {
                    if p.payload_size > 16 {
                        return;
                    }
                    v5_publish_to_ref(p, pl.as_deref().unwrap_or(&[]))
                }
                _ => return,
            };
            let b = rf::encode(Ver::V5, &rf::canon(&r));
            if b.len() <= max_len {
                set.insert(b);
            }
        });
    } else {
        genpkt::gen_v3(&mut |enc, pl| {
            let r = match &enc {
                ntex_mqtt::v3::codec::Encoded::Packet(p) => v3_to_ref(p),
                ntex_mqtt::v3::codec::Encoded::Publish(p, _) => {
                    if p.payload_size > 16 {
                        return;
                    }
                    v3_publish_to_ref(p, pl.as_deref().unwrap_or(&[]))
                }
                _ => return,
            };
            let b = rf::encode(Ver::V3, &canon_v3(&r));
            if b.len() <= max_len {
                set.insert(b);
            }
        });
    }
    set.into_iter().collect()
}

pub type FindMap = std::collections::BTreeMap<String, (u64, Finding)>;

pub fn fold(map: &mut FindMap, out: &mut Vec<Finding>) {
    for f in out.drain(..) {
        let key = format!("{}|{}", f.clause, f.witness);
        map.entry(key).and_modify(|e| e.0 += 1).or_insert((1, f));
    }
}

fn par_for<F: Fn(u64, &mut Vec<Finding>, &mut DriveStats) + Sync>(n: u64, grain: u64, f: F, findings: &Mutex<FindMap>, stats: &Mutex<DriveStats>) {
    let nthreads = std::thread::available_parallelism().map(|n| n.get()).unwrap_or(8);
    let next = AtomicU64::new(0);
    std::thread::scope(|s| {
        for _ in 0..nthreads {
            s.spawn(|| {
                let mut out = Vec::new();
                let mut local = FindMap::new();
                let mut st = DriveStats::default();
                loop {
                    let a = next.fetch_add(grain, Ordering::Relaxed);
                    if a >= n {
                        break;
                    }
                    for i in a..(a + grain).min(n) {
                        f(i, &mut out, &mut st);
                        if !out.is_empty() {
                            fold(&mut local, &mut out);
                        }
                    }
                }
                let mut g = findings.lock().unwrap();
                for (k, (n, f)) in local {
                    g.entry(k).and_modify(|e| e.0 += n).or_insert((n, f));
                }
                let mut g = stats.lock().unwrap();
                g.items += st.items;
                g.errs += st.errs;
                g.need_more += st.need_more;
            });
        }
    });
}

pub fn run(tier: Tier) -> i32 {
    let mut ck = Check::new("C02", tier, Duration::from_secs(if tier == Tier::Quick { 55 } else { 1200 }));
    let full = tier == Tier::Thorough;
    let findings: Mutex<FindMap> = Mutex::new(FindMap::new());
    let stats: Mutex<DriveStats> = Mutex::new(DriveStats::default());
    let evals = AtomicU64::new(0);
    let inputs = AtomicU64::new(0);
    // silence the default panic hook: decode panics are findings, not noise
    if std::env::var("VERIF_LOUD").is_err() {
        std::panic::set_hook(Box::new(|_| {}));
    }

    // (a) all byte strings of length <= 3, every fragmentation, max_size in {0, 2}
    let total: u64 = 1 + 256 + 65536 + 16_777_216;
    par_for(
        total,
        1 << 14,
        |i, out, st| {
            let (len, v) = if i == 0 {
                (0, 0)
            } else if i < 257 {
                (1, i - 1)
            } else if i < 257 + 65536 {
                (2, i - 257)
            } else {
                (3, i - 257 - 65536)
            };
            let b = [(v >> 16) as u8, (v >> 8) as u8, v as u8];
            let input = &b[3 - len..];
            inputs.fetch_add(1, Ordering::Relaxed);
            for cuts in all_cuts(len) {
                for ms in [0u32, 2] {
                    if !full && ms == 2 && !cuts.is_empty() {
                        continue;
                    }
                    drive(Ver::V3, input, &cuts, ms, 0, out, st);
                    drive(Ver::V5, input, &cuts, ms, 0, out, st);
                    evals.fetch_add(2, Ordering::Relaxed);
                }
                drive_sniff(input, &cuts, out);
                evals.fetch_add(1, Ordering::Relaxed);
            }
        },
        &findings,
        &stats,
    );

    // (a') first byte x Remaining Length 0..=L x bodies over an 8-symbol alphabet
    let alpha = [0x00u8, 0x01, 0x02, 0x7f, 0x80, 0xff, b'a', 0x23];
    let maxrl = if full { 6 } else { 4 };
    for rl in 0..=maxrl {
        let bodies = 8u64.pow(rl as u32);
        par_for(
            256 * bodies,
            1 << 12,
            |i, out, st| {
                let first = (i / bodies) as u8;
                let mut bi = i % bodies;
                let mut input = vec![first, rl as u8];
                for _ in 0..rl {
                    input.push(alpha[(bi % 8) as usize]);
                    bi /= 8;
                }
                input.extend_from_slice(&[0xc0, 0x00]); // trailing PINGREQ: resynchronisation probe
                inputs.fetch_add(1, Ordering::Relaxed);
                for ver in [Ver::V3, Ver::V5] {
                    drive(ver, &input, &[], 0, 0, out, st);
                    evals.fetch_add(1, Ordering::Relaxed);
                }
                if first == 0x10 {
                    drive_sniff(&input, &[], out);
                }
            },
            &findings,
            &stats,
        );
    }

    // (a'') fixed headers whose Remaining Length runs to four and five bytes: every first byte x four length bytes over
    // {80, 81, ff, 00, 01, 7f} (x a fifth byte where the fourth continues), delivered whole and byte by byte
    {
        let lb = [0x80u8, 0x81, 0xff, 0x00, 0x01, 0x7f];
        par_for(
            256 * 6 * 6 * 6 * 6,
            1 << 10,
            |i, out, st| {
                let first = (i / 1296) as u8;
                let mut k = i % 1296;
                let mut input = vec![first];
                for _ in 0..4 {
                    input.push(lb[(k % 6) as usize]);
                    k /= 6;
                }
                let tails: &[u8] = if input[1..].iter().all(|b| b & 0x80 != 0) { &[0x00, 0x01, 0x80] } else { &[0x00] };
                for t in tails {
                    let mut inp2 = input.clone();
                    inp2.push(*t);
                    inp2.extend_from_slice(&[0x00, 0x00]);
                    inputs.fetch_add(1, Ordering::Relaxed);
                    let bytewise: Vec<usize> = (1..inp2.len()).collect();
                    for ver in [Ver::V3, Ver::V5] {
                        drive(ver, &inp2, &[], 0, 0, out, st);
                        drive(ver, &inp2, &bytewise, 0, 0, out, st);
                        evals.fetch_add(2, Ordering::Relaxed);
                    }
                }
            },
            &findings,
            &stats,
        );
    }

    // (b) structure-aware mutants of valid frames
    let mut corpus_sizes = Vec::new();
    for ver in [Ver::V3, Ver::V5] {
        let corp = corpus(ver, 64, full);
        corpus_sizes.push(corp.len());
        let stride = if full { 1 } else { 6 };
        let sel: Vec<&Vec<u8>> = corp.iter().step_by(stride).collect();
        // originals, truncations: every fragmentation (<= 12 bytes) or whole / bytewise / every single cut
        par_for(
            sel.len() as u64,
            4,
            |i, out, st| {
                let f = sel[i as usize];
                let mut probe = f.clone();
                probe.extend_from_slice(&[0xc0, 0x00]);
                for t in 0..=probe.len() {
                    let input = &probe[..t];
                    let cutsets = if input.len() <= 12 { all_cuts(input.len()) } else { some_cuts(input.len()) };
                    inputs.fetch_add(1, Ordering::Relaxed);
                    for cuts in &cutsets {
                        for mc in [0u32, 1, 4] {
                            drive(ver, input, cuts, 0, mc, out, st);
                            evals.fetch_add(1, Ordering::Relaxed);
                        }
                    }
                    if f[0] == 0x10 {
                        for cuts in &cutsets {
                            drive_sniff(input, cuts, out);
                        }
                    }
                }
                // max_size exactly at / below the frame
                let (_, _, rl) = rf::frame(f).unwrap();
                for ms in [rl as u32, (rl as u32).saturating_sub(1).max(1), rl as u32 + 1] {
                    for cuts in some_cuts(f.len()) {
                        drive(ver, f, &cuts, ms, 0, out, st);
                        evals.fetch_add(1, Ordering::Relaxed);
                    }
                }
            },
            &findings,
            &stats,
        );
        // every single-byte substitution at every offset
        par_for(
            sel.len() as u64,
            1,
            |i, out, st| {
                let f = sel[i as usize];
                let mut m = f.clone();
                m.extend_from_slice(&[0xc0, 0x00]);
                let bytewise: Vec<usize> = (1..m.len()).collect();
                for off in 0..f.len() {
                    let orig = m[off];
                    for v in 0..=255u8 {
                        if v == orig {
                            continue;
                        }
                        m[off] = v;
                        inputs.fetch_add(1, Ordering::Relaxed);
                        drive(ver, &m, &[], 0, 0, out, st);
                        evals.fetch_add(1, Ordering::Relaxed);
                        if full {
                            drive(ver, &m, &bytewise, 0, 1, out, st);
                            evals.fetch_add(1, Ordering::Relaxed);
                        }
                        if f[0] == 0x10 && off < 12 {
                            drive_sniff(&m, &[], out);
                        }
                    }
                    m[off] = orig;
                }
                // Remaining-Length edits with the body unchanged
                let (_, hl, rl) = rf::frame(f).unwrap();
                for nrl in [rl.wrapping_sub(2), rl.wrapping_sub(1), rl + 1, rl + 2, rl * 2, 127, 128, 16383, 16384, 2_097_151, 268_435_455] {
                    if nrl > 268_435_455 {
                        continue;
                    }
                    let mut e = vec![f[0]];
                    rf::put_varint(&mut e, nrl as u32);
                    e.extend_from_slice(&f[hl..]);
                    e.extend_from_slice(&[0xc0, 0x00]);
                    inputs.fetch_add(1, Ordering::Relaxed);
                    drive(ver, &e, &[], 0, 0, out, st);
                    drive(ver, &e, &[], 4096, 0, out, st);
                    evals.fetch_add(2, Ordering::Relaxed);
                }
                // structure-aware property mutations (v5): every property of the frame repeated, and every
                // property id of the specification added once, with all enclosing lengths kept consistent
                if ver == Ver::V5 {
                    if let Ok((pkt, _)) = rf::decode(Ver::V5, f) {
                        for m in prop_mutants(&pkt) {
                            let Ok(mut e) = std::panic::catch_unwind(|| rf::encode(Ver::V5, &m)) else { continue };
                            e.extend_from_slice(&[0xc0, 0x00]);
                            inputs.fetch_add(1, Ordering::Relaxed);
                            drive(ver, &e, &[], 0, 0, out, st);
                            evals.fetch_add(1, Ordering::Relaxed);
                        }
                    }
                }
            },
            &findings,
            &stats,
        );
        // splices: prefix of one frame followed by another frame
        let short: Vec<&Vec<u8>> = sel.iter().copied().filter(|f| f.len() <= 24).step_by(if full { 3 } else { 17 }).collect();
        par_for(
            short.len() as u64,
            1,
            |i, out, st| {
                let a = short[i as usize];
                for b in &short {
                    for cut in 0..=a.len() {
                        let mut m = a[..cut].to_vec();
                        m.extend_from_slice(b);
                        inputs.fetch_add(1, Ordering::Relaxed);
                        drive(ver, &m, &[], 0, 0, out, st);
                        evals.fetch_add(1, Ordering::Relaxed);
                    }
                }
            },
            &findings,
            &stats,
        );
    }
    let _ = std::panic::take_hook();

    let st = stats.into_inner().unwrap();
    ck.evaluations = evals.load(Ordering::Relaxed);
    ck.states = inputs.load(Ordering::Relaxed);
    ck.transitions = ck.evaluations;
    ck.distinct_nontrivial = inputs.load(Ordering::Relaxed);
    ck.rule = format!(
        "(a'') every first byte x four Remaining Length bytes over {{80,81,ff,00,01,7f}} (x a fifth byte where the fourth continues), whole and byte by byte: a header that is malformed whatever follows must be rejected, not answered need-more; an empty non-final payload piece is 'no-progress'; (a) every byte string of length <= 3 in every fragmentation, max_size 0 and 2, for the v3, v5 and version-sniffing decoders; (a') first byte x Remaining Length 0..={maxrl} x all bodies over {{00,01,02,7f,80,ff,'a',23}} followed by a PINGREQ; (b) corpus of valid frames <= 64 bytes (v3 {} / v5 {} frames, every {}-th used): every truncation in every fragmentation (all 2^(n-1) up to 12 bytes, else whole/bytewise/single cuts) x min_chunk {{0,1,4}}, every single-byte substitution at every offset, Remaining-Length edits, prefix splices, and (v5) every property repeated / every property id of the specification added with consistent lengths. distinct_nontrivial = distinct inputs (each is a different byte string); states = inputs, transitions = decode runs",
        corpus_sizes[0], corpus_sizes[1], if full { 1 } else { 6 }
    );
    ck.samples = vec![
        json!({"input": "30020005", "why": "PUBLISH whose Remaining Length is smaller than its topic field"}),
        json!({"input": "1000", "why": "CONNECT with empty body"}),
        json!({"input": "e003008100c000", "why": "DISCONNECT with property length past the frame, then PINGREQ"}),
    ];
    ck.extra.insert("library_items".into(), json!(st.items));
    ck.extra.insert("library_errors".into(), json!(st.errs));
    ck.extra.insert("library_need_more".into(), json!(st.need_more));
    ck.assumptions = vec![
        "reference decoder refmqtt.rs classifies malformed frames per the OASIS specifications; only the classes listed in the property (length contradiction, unknown property / reason code, repeated once-only property, packet id 0, QoS 3, invalid UTF-8) are demanded to be rejected".into(),
        "harness built with overflow-checks so wrapping arithmetic shows up as a panic".into(),
    ];
    for (_, (n, f)) in findings.into_inner().unwrap() {
        ck.add_finding_n(f, n);
    }
    ck.finish()
}

pub fn replay(input: &serde_json::Value) -> Vec<Finding> {
    let mut out = Vec::new();
    let hexs = input["hex_full"].as_str().unwrap_or("");
    let bytes: Vec<u8> = (0..hexs.len() / 2).map(|i| u8::from_str_radix(&hexs[2 * i..2 * i + 2], 16).unwrap()).collect();
    let cuts: Vec<usize> = input["cuts"].as_array().map(|a| a.iter().map(|v| v.as_u64().unwrap() as usize).collect()).unwrap_or_default();
    let mut st = DriveStats::default();
    match input["decoder"].as_str() {
        Some("sniff") => drive_sniff(&bytes, &cuts, &mut out),
        Some(d) => drive(
            if d == "v3" { Ver::V3 } else { Ver::V5 },
            &bytes,
            &cuts,
            input["max_size"].as_u64().unwrap_or(0) as u32,
            input["min_chunk"].as_u64().unwrap_or(0) as u32,
            &mut out,
            &mut st,
        ),
        None => {}
    }
    out
}
