//! C18: topic filter validation / matching / covering vs a reference transcribed from MQTT §4.7.
use std::str::FromStr;
use std::sync::Mutex;
use std::time::Duration;

use ntex_mqtt::TopicFilter;
use serde_json::json;

use crate::check::{Check, Finding, Tier};

// ---- reference (MQTT 5 §4.7.1 - 4.7.3) -------------------------------------

pub fn ref_valid_filter(s: &str) -> bool {
    if s.is_empty() {
        return false;
    }
    let levels: Vec<&str> = s.split('/').collect();
    for (i, l) in levels.iter().enumerate() {
        if l.contains('#') && (*l != "#" || i != levels.len() - 1) {
            return false;
        }
        if l.contains('+') && *l != "+" {
            return false;
        }
    }
    true
}

pub fn ref_valid_topic(s: &str) -> bool {
    !s.is_empty() && !s.contains('#') && !s.contains('+')
}

fn m(f: &[&str], t: &[&str]) -> bool {
    match f.first() {
        None => t.is_empty(),
        Some(&"#") => true,
        Some(&"+") => !t.is_empty() && m(&f[1..], &t[1..]),
        Some(l) => !t.is_empty() && *l == t[0] && m(&f[1..], &t[1..]),
    }
}

pub fn ref_matches(filter: &str, topic: &str) -> bool {
    let f: Vec<&str> = filter.split('/').collect();
    let t: Vec<&str> = topic.split('/').collect();
    if topic.starts_with('$') && (f[0] == "#" || f[0] == "+") {
        return false;
    }
    m(&f, &t)
}

fn cov(f: &[&str], g: &[&str]) -> bool {
    match (f.first(), g.first()) {
        (Some(&"#"), _) => true,
        (None, None) => true,
        (None, Some(_)) => false,
        (Some(_), None) => false,
        (Some(_), Some(&"#")) => false,
        (Some(&"+"), Some(_)) => cov(&f[1..], &g[1..]),
        (Some(a), Some(b)) => a == b && cov(&f[1..], &g[1..]),
    }
}

/// every topic matched by `g` is matched by `f` (both valid filters)
pub fn ref_covers(f: &str, g: &str) -> bool {
    let fl: Vec<&str> = f.split('/').collect();
    let gl: Vec<&str> = g.split('/').collect();
    // g can match $-topics only if its first level is a literal starting with '$'
    if gl[0].starts_with('$') && (fl[0] == "#" || fl[0] == "+") {
        return false;
    }
    cov(&fl, &gl)
}

// ---- enumeration -----------------------------------------------------------

pub fn strings(alpha: &[char], max_len: usize) -> Vec<String> {
    let mut out = vec![String::new()];
    let mut prev = vec![String::new()];
    for _ in 0..max_len {
        let mut next = Vec::with_capacity(prev.len() * alpha.len());
        for p in &prev {
            for c in alpha {
                let mut s = p.clone();
                s.push(*c);
                next.push(s);
            }
        }
        out.extend(next.iter().cloned());
        prev = next;
    }
    out
}

fn par_chunks<T: Sync, F: Fn(&[T]) + Sync>(items: &[T], f: F) {
    let n = std::thread::available_parallelism().map(|n| n.get()).unwrap_or(8);
    let chunk = items.len().div_ceil(n * 8).max(1);
    let next = std::sync::atomic::AtomicUsize::new(0);
    std::thread::scope(|s| {
        for _ in 0..n {
            s.spawn(|| {
                loop {
                    let i = next.fetch_add(1, std::sync::atomic::Ordering::Relaxed);
                    let lo = i * chunk;
                    if lo >= items.len() {
                        break;
                    }
                    f(&items[lo..(lo + chunk).min(items.len())]);
                }
            });
        }
    });
}

struct Acc {
    evals: u64,
    nontrivial: u64,
    findings: Vec<Finding>,
}

fn finding(clause: &str, witness: String, detail: String, input: serde_json::Value) -> Finding {
    Finding { clause: clause.into(), witness, detail, replay: json!({"engine": "enum", "check": "c18", "input": input}) }
}

pub fn check_validators(s: &str, out: &mut Vec<Finding>) {
    let want = ref_valid_filter(s);
    let parsed = TopicFilter::from_str(s);
    if parsed.is_ok() != want {
        out.push(finding(
            "filter-validation",
            (if want { "rejects-valid" } else { "accepts-invalid" }).to_string(),
            format!("TopicFilter::from_str({s:?}).is_ok()={} but §4.7 says valid={want}", parsed.is_ok()),
            json!({"filter": s}),
        ));
    }
    let hv = ntex_mqtt::verif::topic_is_valid(s);
    if hv != want {
        out.push(finding(
            "dispatcher-validation",
            (if want { "rejects-valid" } else { "accepts-invalid" }).to_string(),
            format!("topic::is_valid({s:?})={hv} but §4.7 says valid={want}"),
            json!({"filter": s}),
        ));
    }
    if let Ok(f) = parsed {
        // the other constructors (from a slice / a vector of levels) agree with the parser
        let from_slice = TopicFilter::try_from(f.levels());
        let from_vec = TopicFilter::try_from(f.levels().to_vec());
        if !matches!(&from_slice, Ok(g) if *g == f) || !matches!(&from_vec, Ok(g) if *g == f) {
            out.push(finding(
                "level-constructors",
                "differs".to_string(),
                format!("{s:?}: TopicFilter::try_from(levels) gives {from_slice:?} (slice) / {from_vec:?} (vec), parser gives {f:?}"),
                json!({"filter": s}),
            ));
        }
        let shown = f.to_string();
        match TopicFilter::from_str(&shown) {
            Ok(g) if g == f && shown == s => {}
            other => out.push(finding(
                "display-roundtrip",
                "roundtrip".to_string(),
                format!("{s:?} displays as {shown:?} which parses to {other:?}"),
                json!({"filter": s}),
            )),
        }
    }
}

pub fn check_match(fs: &str, f: &TopicFilter, topic: &str, out: &mut Vec<Finding>) {
    let want = ref_matches(fs, topic);
    let got = f.matches_topic(topic);
    if got != want {
        let class = if topic.starts_with('$') { "dollar" } else if fs.contains('#') { "hash" } else if fs.contains('+') { "plus" } else { "literal" };
        out.push(finding(
            "matching",
            format!("{class}: library={got}"),
            format!("{fs:?}.matches_topic({topic:?})={got}, §4.7 answer is {want}"),
            json!({"filter": fs, "topic": topic}),
        ));
    }
}

pub fn check_cover(fs: &str, f: &TopicFilter, gs: &str, g: &TopicFilter, topics: &[String], out: &mut Vec<Finding>) {
    if f.matches_filter(g) {
        let sem = ref_covers(fs, gs);
        // brute-force confirmation with the library's own matcher on the bounded topic set
        let cex = topics.iter().find(|t| g.matches_topic(t.as_str()) && !f.matches_topic(t.as_str()));
        if !sem || cex.is_some() {
            let class = if gs.starts_with('$') { "dollar" } else { "other" };
            out.push(finding(
                "covering",
                format!("{class}: reported cover is not a cover"),
                format!(
                    "{fs:?}.matches_filter({gs:?}) is true but topic {:?} is matched by {gs:?} and not by {fs:?} (reference covers={sem})",
                    cex
                ),
                json!({"filter": fs, "covered": gs}),
            ));
        }
    }
}

pub fn run(tier: Tier) -> i32 {
    let mut ck = Check::new("C18", tier, Duration::from_secs(if tier == Tier::Quick { 50 } else { 600 }));
    let (flen, tlen, clen, ulen) = match tier {
        Tier::Quick => (6, 6, 5, 4),
        Tier::Thorough => (8, 7, 6, 4),
    };
    let falpha = ['a', 'b', '$', '/', '+', '#'];
    let talpha = ['a', 'b', '$', '/'];
    let all_f = strings(&falpha, flen);
    let topics: Vec<String> = strings(&talpha, tlen).into_iter().filter(|t| !t.is_empty()).collect();
    let acc = Mutex::new(Acc { evals: 0, nontrivial: 0, findings: Vec::new() });

    // 1. validators + display round trip on every string (incl. unicode alphabet)
    let ualpha = ['a', '$', '/', '+', '#', 'é', '€'];
    let mut vstrings = all_f.clone();
    vstrings.extend(strings(&ualpha, ulen));
    par_chunks(&vstrings, |chunk| {
        let mut out = Vec::new();
        for s in chunk {
            check_validators(s, &mut out);
        }
        let mut a = acc.lock().unwrap();
        a.evals += chunk.len() as u64;
        a.findings.extend(out);
    });
    let n_valid_checked = vstrings.len();

    // 2. matching: all valid filters x all topics
    let valid: Vec<(String, TopicFilter)> = all_f
        .iter()
        .filter(|s| ref_valid_filter(s))
        .filter_map(|s| TopicFilter::from_str(s).ok().map(|f| (s.clone(), f)))
        .collect();
    // unicode topics / filters for matching
    let utopics: Vec<String> = strings(&['a', '$', '/', 'é', '€'], ulen).into_iter().filter(|t| !t.is_empty()).collect();
    let uvalid: Vec<(String, TopicFilter)> = strings(&ualpha, ulen)
        .iter()
        .filter(|s| ref_valid_filter(s) && s.chars().any(|c| c == 'é' || c == '€'))
        .filter_map(|s| TopicFilter::from_str(s).ok().map(|f| (s.clone(), f)))
        .collect();
    let matched_pairs = std::sync::atomic::AtomicU64::new(0);
    par_chunks(&valid, |chunk| {
        let mut out = Vec::new();
        let mut mt = 0u64;
        for (fs, f) in chunk {
            for t in &topics {
                check_match(fs, f, t, &mut out);
                if ref_matches(fs, t) {
                    mt += 1;
                }
            }
            if out.len() > 64 {
                out.truncate(64);
            }
        }
        matched_pairs.fetch_add(mt, std::sync::atomic::Ordering::Relaxed);
        let mut a = acc.lock().unwrap();
        a.evals += (chunk.len() * topics.len()) as u64;
        a.findings.extend(out);
    });
    par_chunks(&uvalid, |chunk| {
        let mut out = Vec::new();
        for (fs, f) in chunk {
            for t in &utopics {
                check_match(fs, f, t, &mut out);
            }
            out.truncate(64);
        }
        let mut a = acc.lock().unwrap();
        a.evals += (chunk.len() * utopics.len()) as u64;
        a.findings.extend(out);
    });

    // 3. covering: all pairs of valid filters up to clen
    let cvalid: Vec<(String, TopicFilter)> = valid.iter().filter(|(s, _)| s.chars().count() <= clen).cloned().collect();
    let claimed = std::sync::atomic::AtomicU64::new(0);
    par_chunks(&cvalid, |chunk| {
        let mut out = Vec::new();
        let mut cl = 0u64;
        for (fs, f) in chunk {
            for (gs, g) in &cvalid {
                if f.matches_filter(g) {
                    cl += 1;
                }
                check_cover(fs, f, gs, g, &topics, &mut out);
            }
            out.truncate(64);
        }
        claimed.fetch_add(cl, std::sync::atomic::Ordering::Relaxed);
        let mut a = acc.lock().unwrap();
        a.evals += (chunk.len() * cvalid.len()) as u64;
        a.findings.extend(out);
    });

    let a = acc.into_inner().unwrap();
    ck.level = "model_checking";
    ck.evaluations = a.evals;
    // states/transitions of an input enumeration: inputs enumerated / oracle evaluations
    ck.states = (n_valid_checked + valid.len() * topics.len()) as u64;
    ck.transitions = a.evals;
    ck.distinct_nontrivial =
        matched_pairs.load(std::sync::atomic::Ordering::Relaxed) + claimed.load(std::sync::atomic::Ordering::Relaxed);
    ck.rule = format!(
        "exhaustive: all strings over {{a,b,$,/,+,#}} of length <= {flen} as filters ({} strings, {} valid), all strings over {{a,b,$,/}} of length 1..={tlen} as topics ({}), all (valid filter, topic) pairs; all ordered pairs of valid filters of length <= {clen} for covering ({}); strings over {{a,$,/,+,#,e-acute,euro}} of length <= {ulen} for validation and matching. non-trivial = (filter, topic) pairs that match per the reference + filter pairs the library reports as covering. Connection part (see per_config): v3 and v5 server, SUBSCRIBE and UNSUBSCRIBE with every list of 1-3 filters over 5 (quick) / 9 (thorough) valid and 5 / 8 invalid filters in every position: a list containing an invalid filter ends the connection with one protocol error before the application sees it, a valid list reaches the protocol service unchanged and is acknowledged",
        all_f.len(),
        valid.len(),
        topics.len(),
        cvalid.len()
    );
    ck.samples = vec![
        json!({"filter": "a/+/#", "topic": "a/b/a", "reference": ref_matches("a/+/#", "a/b/a")}),
        json!({"filter": "+/a", "topic": "$a/a", "reference": ref_matches("+/a", "$a/a")}),
        json!({"covering": "#", "covered": "$a/b", "reference": ref_covers("#", "$a/b")}),
    ];
    ck.extra.insert("valid_filters".into(), json!(valid.len()));
    ck.extra.insert("topics".into(), json!(topics.len()));
    ck.extra.insert("covering_pairs".into(), json!(cvalid.len() * cvalid.len()));
    ck.assumptions = vec![
        "reference matcher/validator/covering in c18.rs transcribe MQTT 5 section 4.7 correctly".into(),
        "alphabet {a,b,$,/,+,#} (+ 2 multi-byte characters) exercises every branch of the level-based algorithms".into(),
    ];
    for f in a.findings {
        ck.add_finding(f);
    }
    // connection part: the validator as the servers apply it to SUBSCRIBE / UNSUBSCRIBE filter lists
    crate::c18conn::run_conn_part(&mut ck, tier == Tier::Thorough);
    ck.finish()
}

pub fn replay(input: &serde_json::Value) -> Vec<Finding> {
    let mut out = Vec::new();
    if let Some(fs) = input["filter"].as_str() {
        check_validators(fs, &mut out);
        if let Ok(f) = TopicFilter::from_str(fs) {
            if let Some(t) = input["topic"].as_str() {
                check_match(fs, &f, t, &mut out);
            }
            if let Some(gs) = input["covered"].as_str() {
                if let Ok(g) = TopicFilter::from_str(gs) {
                    let topics: Vec<String> =
                        strings(&['a', 'b', '$', '/'], 6).into_iter().filter(|t| !t.is_empty()).collect();
                    check_cover(fs, &f, gs, &g, &topics, &mut out);
                }
            }
        }
    }
    out
}
