//! C08: everything written to the wire is a sequence of complete well-formed packets.
use std::time::Duration;

use crate::check::{Check, Tier};
use crate::outbound::*;
use crate::refmqtt::Ver;
use crate::simnet::ExploreCfg;
use crate::world::{EpCfg, Role};

pub fn configs(tier: Tier) -> Vec<OutCfg> {
    let mut v = Vec::new();
    let st = |qos: u8, plan: u8| SK::Stream { qos, size: 6, plan };
    for (ver, role) in crate::c05::roles() {
        let mut sets: Vec<Vec<SK>> = vec![
            vec![st(0, 1), SK::Q0],
            vec![st(0, 1), SK::Q1],
            vec![st(1, 1), SK::Q1],
            vec![st(1, 1), SK::Q2Rel],
            vec![st(0, 2), SK::Q0],
            vec![st(1, 2), SK::Q0],
            vec![st(0, 3), SK::Q1],
            vec![st(1, 3), SK::Q0],
            vec![st(0, 0), st(0, 1)],
            vec![st(1, 1), st(0, 1)],
            vec![SK::Q1LongTopic, SK::Q1, SK::Q0],
            vec![SK::Q1LongProp, SK::Q1, SK::Q0],
            vec![SK::Q1Prop127, SK::Q0],
            vec![SK::HugeThenTooLong, SK::Q1, SK::Q0],
            vec![SK::Q1Id(5), SK::Q1Id(5), SK::Q0],
            vec![SK::Q1Big, st(0, 1)],
            vec![st(0, 1), SK::Q1NoBlock],
            vec![st(1, 1), SK::Q1NoBlock, SK::Q0],
        ];
        if role == Role::Client {
            sets.push(vec![st(0, 1), SK::Sub]);
            sets.push(vec![SK::SubBig, st(1, 1)]);
            sets.push(vec![st(1, 1), SK::Unsub]);
            // caller-chosen packet ids that collide: the refused request must leave nothing on the wire
            sets.push(vec![SK::Q1Id(5), SK::UnsubId(5), SK::Q0]);
            sets.push(vec![SK::Q1Id(5), SK::SubId(5), SK::Q0]);
            sets.push(vec![SK::SubId(5), SK::UnsubId(5)]);
        }
        if tier == Tier::Thorough {
            sets.push(vec![st(0, 1), SK::Q0, SK::Q1]);
            sets.push(vec![st(1, 1), st(0, 2), SK::Q1]);
            sets.push(vec![st(0, 3), st(1, 1), SK::Q0]);
        }
        for senders in sets {
            for (inbound, may_close, inbound_faults) in [(1u8, false, false), (0, true, false), (0, false, true)] {
                let mut ep = ep_for(EpCfg::new(ver, role), 8, false);
                ep.handler_auto = true;
                let big = senders.contains(&SK::Q1Big);
                if big {
                    match (ver, role) {
                        (Ver::V5, Role::Client) => ep.client_connack_props.push((0x27, crate::refmqtt::PVal::U32(100))),
                        (Ver::V3, Role::Server) => ep.hs_max_packet_size = Some(100),
                        (Ver::V3, Role::Client) => ep.max_size = 100,
                        _ => {}
                    }
                }
                v.push(OutCfg {
                    ep,
                    cap: 8,
                    senders: senders.clone(),
                    cancels: 0,
                    batch: false,
                    bp: 0,
                    peer: PeerMode::Correct,
                    judge: J_WIRE,
                    prologue: 0,
                    peer_max_packet: if big { 100 } else { 0 },
                    inbound,
                    may_close,
                    inbound_faults,
                    cancel_inflight: false,
                });
            }
        }
        // v5 server: handler responses that have to be trimmed - the peer announced a Maximum Packet Size of 30 / 40 / 64
        // bytes and the publish handler decorates its PUBACK with a reason string and a 40-byte user property, so the
        // encoder drops what does not fit; the lengths it writes must describe what it wrote, or every later packet
        // is swallowed into the short one (seeded change C08_r9: size pass and write pass of the optional properties
        // disagreed). Two inbound publishes interleaved with the application's own sends.
        if ver == Ver::V5 && role == Role::Server {
            for max in [30u32, 40, 64] {
                let mut ep = ep_for(EpCfg::new(ver, role), 8, false);
                ep.handler_auto = true;
                ep.ack_decor = true;
                v.push(OutCfg {
                    ep,
                    cap: 8,
                    senders: vec![SK::Q1, SK::Q0],
                    cancels: 0,
                    batch: false,
                    bp: 0,
                    peer: PeerMode::Correct,
                    judge: J_WIRE,
                    prologue: 0,
                    peer_max_packet: max,
                    inbound: 2,
                    may_close: false,
                    inbound_faults: false,
                    cancel_inflight: false,
                });
            }
        }
        // write back-pressure episodes: a 24-byte QoS 0 publish overflows the 16-byte write buffer while the peer does
        // not read, so a chunk of a streamed publish handed over then parks until the buffer drains; other sends
        // attempted meanwhile must still be refused (payload owed) - seeded change C08_r6 accounted the chunk
        // before it was written
        for senders in [vec![SK::Q0Fill, st(0, 1), SK::Q0], vec![SK::Q0Fill, st(1, 1), SK::Q1], vec![st(0, 1), SK::Q0Fill, SK::Q0]] {
            let mut ep = ep_for(EpCfg::new(ver, role), 8, true);
            ep.handler_auto = true;
            v.push(OutCfg {
                ep,
                cap: 8,
                senders,
                cancels: 0,
                batch: false,
                bp: 1,
                peer: PeerMode::Correct,
                judge: J_WIRE,
                prologue: 0,
                peer_max_packet: 0,
                inbound: 0,
                may_close: false,
                inbound_faults: false,
                cancel_inflight: false,
            });
        }
    }
    v
}

pub fn run(tier: Tier) -> i32 {
    let mut ck = Check::new("C08", tier, Duration::from_secs(if tier == Tier::Quick { 50 } else { 1800 }));
    let ecfg = ExploreCfg { max_dev: if tier == Tier::Quick { 1 } else { 2 }, max_execs: if tier == Tier::Quick { 600_000 } else { 10_000_000 }, ..Default::default() };
    for (i, c) in configs(tier).iter().enumerate() {
        ck.explore::<Out>("outbound", i, c, &ecfg);
    }
    ck.rule = "per role: 2-3 application operations over {QoS 0/1/2 sends, QoS 1 through the non-blocking API, streamed sends (stream_at_most_once / stream_at_least_once of 6 bytes with chunk plans: exact in one, exact in two, second chunk one byte too long, half then dropped), subscribe/unsubscribe, a publish whose properties add up to exactly 127 bytes, sends that must fail locally: 65536-byte topic, 65536-byte property, a failure after a field larger than a buffer page, over the peer's maximum packet size, packet id in use (publish, subscribe, unsubscribe with caller-chosen ids), over-long filter}; every chunk is released by an explorer event so other sends, peer acknowledgements, one inbound PINGREQ / QoS 1 PUBLISH (dispatcher response), an application close(), or a peer fault that ends the connection on an error path (undecodable bytes, protocol-violating packet, DISCONNECT) interleave everywhere; plus sender sets with a write back-pressure episode (24-byte QoS 0 publish over a 16-byte write buffer, peer not reading) so that a stream chunk parks on it; oracle: the wire parses with the independent decoder as whole packets (a truncated tail only as the streamed PUBLISH of an aborted transport), Ok <-> exactly one packet, local Err <-> no bytes, streamed payload = accepted chunks with the declared size".into();
    ck.assumptions = vec![
        "FIFO task order of ntex-rt; nondeterminism = timing of environment events (DESIGN 2.4)".into(),
        "chunk bytes 0xD0.. and topic tags identify which operation a wire packet belongs to".into(),
    ];
    ck.finish()
}
