//! Deterministic generator of library packet values (Engine B, shared by C01/C02/C09/C10).
//! No randomness: products of presence bits, all enum discriminants, boundary lengths.
#![allow(dead_code)]
use std::num::{NonZeroU16, NonZeroU32};

use ntex_bytes::{ByteString, Bytes};
use ntex_mqtt::{QoS, v3, v5};

pub fn bs(s: &str) -> ByteString {
    ByteString::from(s.to_string())
}
pub fn by(b: &[u8]) -> Bytes {
    Bytes::copy_from_slice(b)
}
pub fn nz16(v: u16) -> NonZeroU16 {
    NonZeroU16::new(v).unwrap()
}
pub fn nz32(v: u32) -> NonZeroU32 {
    NonZeroU32::new(v).unwrap()
}
pub fn long_str(n: usize) -> ByteString {
    ByteString::from("s".repeat(n))
}
pub fn long_bytes(n: usize) -> Bytes {
    Bytes::from(vec![0xAB; n])
}
pub const QOS: [QoS; 3] = [QoS::AtMostOnce, QoS::AtLeastOnce, QoS::ExactlyOnce];
pub const LENS: [usize; 7] = [0, 1, 127, 128, 16383, 16384, 65535];

pub fn ups(n: usize) -> Vec<(ByteString, ByteString)> {
    (0..n).map(|i| (bs(&format!("k{i}")), bs(&format!("v{i}")))).collect()
}

fn bit(mask: u32, i: u32) -> bool {
    mask & (1 << i) != 0
}

pub const CONNACK_CODES: [u8; 22] = [
    0, 128, 129, 130, 131, 132, 133, 134, 135, 136, 137, 138, 140, 144, 149, 151, 153, 154, 155, 156, 157, 159,
];
pub const PUBACK_CODES: [u8; 9] = [0, 16, 128, 131, 135, 144, 145, 151, 153];
pub const PUBACK2_CODES: [u8; 2] = [0, 146];
pub const SUBACK_CODES: [u8; 12] = [0, 1, 2, 128, 131, 135, 143, 145, 151, 158, 161, 162];
pub const UNSUBACK_CODES: [u8; 7] = [0, 17, 128, 131, 135, 143, 145];
pub const DISCONNECT_CODES: [u8; 30] = [
    0, 4, 128, 129, 130, 131, 135, 137, 139, 140, 141, 142, 143, 144, 147, 148, 149, 150, 151, 152, 153, 154, 155,
    156, 157, 158, 159, 160, 161, 162,
];
pub const AUTH_CODES: [u8; 3] = [0, 24, 25];

pub fn connack_with(mask: u32, code: u8, nup: usize) -> v5::codec::ConnectAck {
    use v5::codec as c;
    c::ConnectAck {
        session_present: bit(mask, 17),
        reason_code: c::ConnectAckReason::try_from(code).unwrap(),
        session_expiry_interval_secs: if bit(mask, 0) { Some(if bit(mask, 18) { 0 } else { 77 }) } else { None },
        receive_max: if bit(mask, 1) { nz16(9) } else { nz16(65535) },
        max_qos: if bit(mask, 2) { if bit(mask, 18) { QoS::AtMostOnce } else { QoS::AtLeastOnce } } else { QoS::ExactlyOnce },
        max_packet_size: if bit(mask, 3) { Some(70000) } else { None },
        assigned_client_id: if bit(mask, 4) { Some(bs("cid")) } else { None },
        topic_alias_max: if bit(mask, 5) { 11 } else { 0 },
        retain_available: !bit(mask, 6),
        wildcard_subscription_available: !bit(mask, 7),
        subscription_identifiers_available: !bit(mask, 8),
        shared_subscription_available: !bit(mask, 9),
        server_keepalive_sec: if bit(mask, 10) { Some(30) } else { None },
        response_info: if bit(mask, 11) { Some(bs("ri")) } else { None },
        server_reference: if bit(mask, 12) { Some(bs("sr")) } else { None },
        auth_method: if bit(mask, 13) { Some(bs("am")) } else { None },
        auth_data: if bit(mask, 14) { Some(by(b"\x00\x01")) } else { None },
        reason_string: if bit(mask, 15) { Some(bs("why")) } else { None },
        user_properties: if bit(mask, 16) { ups(nup.max(1)) } else { Vec::new() },
    }
}

pub fn will_with(mask: u32) -> v5::codec::LastWill {
    v5::codec::LastWill {
        qos: QOS[(mask >> 8) as usize % 3],
        retain: bit(mask, 7),
        topic: bs("w/t"),
        message: by(b"bye"),
        will_delay_interval_sec: if bit(mask, 0) { Some(if bit(mask, 11) { 0 } else { 5 }) } else { None },
        correlation_data: if bit(mask, 1) { Some(by(b"cd")) } else { None },
        message_expiry_interval: if bit(mask, 2) { Some(nz32(60)) } else { None },
        content_type: if bit(mask, 3) { Some(bs("ct")) } else { None },
        user_properties: if bit(mask, 4) { ups(1) } else { Vec::new() },
        is_utf8_payload: if bit(mask, 5) { Some(bit(mask, 10)) } else { None },
        response_topic: if bit(mask, 6) { Some(bs("rt")) } else { None },
    }
}

pub fn connect_with(mask: u32, will: Option<v5::codec::LastWill>) -> v5::codec::Connect {
    v5::codec::Connect {
        clean_start: bit(mask, 0),
        keep_alive: if bit(mask, 1) { 60 } else { 0 },
        session_expiry_interval_secs: if bit(mask, 2) { 5 } else { 0 },
        auth_method: if bit(mask, 3) { Some(bs("am")) } else { None },
        auth_data: if bit(mask, 4) { Some(by(b"ad")) } else { None },
        request_problem_info: !bit(mask, 5),
        request_response_info: bit(mask, 6),
        receive_max: if bit(mask, 7) { Some(nz16(3)) } else { None },
        topic_alias_max: if bit(mask, 8) { 7 } else { 0 },
        user_properties: if bit(mask, 9) { ups(if bit(mask, 13) { 2 } else { 1 }) } else { Vec::new() },
        max_packet_size: if bit(mask, 10) { Some(nz32(1000)) } else { None },
        last_will: will,
        client_id: if bit(mask, 14) { bs("") } else { bs("cl") },
        username: if bit(mask, 11) { Some(bs("u")) } else { None },
        password: if bit(mask, 12) { Some(by(b"p")) } else { None },
    }
}

pub fn publish_props(mask: u32) -> v5::codec::PublishProperties {
    v5::codec::PublishProperties {
        topic_alias: if bit(mask, 0) { Some(nz16(3)) } else { None },
        correlation_data: if bit(mask, 1) { Some(by(b"c")) } else { None },
        message_expiry_interval: if bit(mask, 2) { Some(nz32(9)) } else { None },
        content_type: if bit(mask, 3) { Some(bs("t")) } else { None },
        user_properties: ups(((mask >> 6) & 3) as usize % 3),
        is_utf8_payload: bit(mask, 4),
        response_topic: if bit(mask, 5) { Some(bs("r")) } else { None },
        subscription_ids: match (mask >> 8) & 3 {
            0 => vec![],
            1 => vec![nz32(1)],
            2 => vec![nz32(128), nz32(268_435_455)],
            _ => vec![nz32(16384)],
        },
    }
}

pub fn publish_with(mask: u32, qos: QoS, dup: bool, retain: bool, payload_size: u32, topic: ByteString) -> v5::codec::Publish {
    v5::codec::Publish {
        dup,
        retain,
        qos,
        packet_id: if qos == QoS::AtMostOnce { None } else { Some(nz16(0x1234)) },
        topic,
        payload_size,
        properties: publish_props(mask),
    }
}

pub fn ack_with(code: u8, rs: u8, nup: usize) -> v5::codec::PublishAck {
    v5::codec::PublishAck {
        packet_id: nz16(7),
        reason_code: v5::codec::PublishAckReason::try_from(code).unwrap(),
        properties: ups(nup),
        reason_string: match rs {
            0 => None,
            1 => Some(bs("")),
            _ => Some(bs("reason")),
        },
    }
}

pub fn ack2_with(code: u8, rs: u8, nup: usize) -> v5::codec::PublishAck2 {
    v5::codec::PublishAck2 {
        packet_id: nz16(65535),
        reason_code: v5::codec::PublishAck2Reason::try_from(code).unwrap(),
        properties: ups(nup),
        reason_string: match rs {
            0 => None,
            1 => Some(bs("")),
            _ => Some(bs("reason")),
        },
    }
}

pub fn rs_opt(rs: u8) -> Option<ByteString> {
    match rs {
        0 => None,
        1 => Some(bs("")),
        _ => Some(bs("reason")),
    }
}

/// Every v5 value of the generator. `full` = thorough tier (full CONNACK product).
pub fn gen_v5(full: bool, f: &mut dyn FnMut(v5::codec::Encoded, Option<Bytes>)) {
    use v5::codec as c;
    f(c::Encoded::Packet(c::Packet::PingRequest), None);
    f(c::Encoded::Packet(c::Packet::PingResponse), None);
    // CONNACK: presence product
    for mask in 0..(1u32 << 19) {
        let ones = mask.count_ones();
        if !full && !(ones <= 2 || ones >= 18 || mask % 61 == 0) {
            continue;
        }
        f(c::Encoded::Packet(c::Packet::ConnectAck(Box::new(connack_with(mask, 0, 1 + (mask as usize % 2))))), None);
    }
    for code in CONNACK_CODES {
        f(c::Encoded::Packet(c::Packet::ConnectAck(Box::new(connack_with(0, code, 0)))), None);
        f(c::Encoded::Packet(c::Packet::ConnectAck(Box::new(connack_with(0x3ffff, code, 2)))), None);
    }
    // CONNECT
    for mask in 0..(1u32 << 15) {
        if !full && mask.count_ones() > 3 && mask.count_ones() < 12 {
            continue;
        }
        f(c::Encoded::Packet(c::Packet::Connect(Box::new(connect_with(mask, None)))), None);
    }
    for wm in 0..(1u32 << 12) {
        if (wm >> 8) % 4 == 3 {
            continue;
        }
        f(c::Encoded::Packet(c::Packet::Connect(Box::new(connect_with(0, Some(will_with(wm)))))), None);
        if wm % 7 == 0 {
            f(c::Encoded::Packet(c::Packet::Connect(Box::new(connect_with(0x7fff & !(1 << 14), Some(will_with(wm)))))), None);
        }
    }
    // PUBLISH
    for mask in 0..(1u32 << 10) {
        for qos in QOS {
            for fl in 0..4u8 {
                for ps in [0u32, 1, 5] {
                    if !full && (mask % 5 != 0) && fl != 0 {
                        continue;
                    }
                    let p = publish_with(mask, qos, fl & 1 != 0, fl & 2 != 0, ps, bs("a/b"));
                    f(c::Encoded::Publish(p, Some(long_bytes(ps as usize))), Some(long_bytes(ps as usize)));
                }
            }
        }
    }
    // PUBLISH payload sizes that put Remaining Length around varint boundaries
    for rl in [127u32, 128, 16383, 16384, 2_097_151, 2_097_152] {
        for d in [-1i64, 0, 1] {
            // RL = 2 + topic(1) + [2] + props(1) + payload
            for qos in [QoS::AtMostOnce, QoS::AtLeastOnce] {
                let hdr = 2 + 1 + if qos == QoS::AtMostOnce { 0 } else { 2 } + 1;
                let ps = (rl as i64 + d - hdr) as u32;
                if !full && ps > 20000 {
                    continue;
                }
                let p = publish_with(0, qos, false, false, ps, bs("t"));
                let pl = long_bytes(ps as usize);
                f(c::Encoded::Publish(p, Some(pl.clone())), Some(pl));
            }
        }
    }
    // topic of boundary lengths
    for n in LENS {
        let p = publish_with(0, QoS::AtLeastOnce, false, false, 2, long_str(n));
        f(c::Encoded::Publish(p, Some(by(b"xy"))), Some(by(b"xy")));
    }
    // acks
    for rs in 0..3u8 {
        for nup in 0..3 {
            for code in PUBACK_CODES {
                f(c::Encoded::Packet(c::Packet::PublishAck(ack_with(code, rs, nup))), None);
                f(c::Encoded::Packet(c::Packet::PublishReceived(ack_with(code, rs, nup))), None);
            }
            for code in PUBACK2_CODES {
                f(c::Encoded::Packet(c::Packet::PublishRelease(ack2_with(code, rs, nup))), None);
                f(c::Encoded::Packet(c::Packet::PublishComplete(ack2_with(code, rs, nup))), None);
            }
        }
    }
    for n in LENS {
        let mut a = ack_with(128, 0, 0);
        a.reason_string = Some(long_str(n));
        f(c::Encoded::Packet(c::Packet::PublishAck(a)), None);
        let mut a = ack_with(0, 0, 0);
        a.properties = vec![(long_str(n), bs("v"))];
        f(c::Encoded::Packet(c::Packet::PublishReceived(a)), None);
    }
    // property sections whose length sits on a variable-byte-integer boundary (127/128, 16383/16384 bytes):
    // one string property of every length that puts the section within a few bytes of the boundary
    let sweep: Vec<usize> = (118..=132).chain(16_372..=16_388).collect();
    for n in sweep {
        if !full && n > 1000 && n % 2 == 1 {
            continue;
        }
        let mut a = ack_with(128, 0, 0);
        a.reason_string = Some(long_str(n));
        f(c::Encoded::Packet(c::Packet::PublishAck(a.clone())), None);
        f(c::Encoded::Packet(c::Packet::PublishReceived(a)), None);
        let mut a2 = ack2_with(146, 0, 0);
        a2.reason_string = Some(long_str(n));
        f(c::Encoded::Packet(c::Packet::PublishRelease(a2.clone())), None);
        f(c::Encoded::Packet(c::Packet::PublishComplete(a2)), None);
        f(c::Encoded::Packet(c::Packet::Disconnect(c::Disconnect {
            reason_code: c::DisconnectReasonCode::UnspecifiedError,
            session_expiry_interval_secs: None,
            server_reference: None,
            reason_string: Some(long_str(n)),
            user_properties: vec![],
        })), None);
        f(c::Encoded::Packet(c::Packet::Auth(c::Auth {
            reason_code: c::AuthReasonCode::ContinueAuth,
            auth_method: None,
            auth_data: None,
            reason_string: Some(long_str(n)),
            user_properties: vec![],
        })), None);
        let mut ca = connack_with(0, 0, 0);
        ca.reason_string = Some(long_str(n));
        f(c::Encoded::Packet(c::Packet::ConnectAck(Box::new(ca))), None);
        let mut p = publish_with(0, QoS::AtLeastOnce, false, false, 3, bs("t"));
        p.properties.content_type = Some(long_str(n));
        f(c::Encoded::Publish(p, Some(by(b"xyz"))), Some(by(b"xyz")));
        let mut p = publish_with(0, QoS::AtMostOnce, false, false, 0, bs("t"));
        p.properties.user_properties = vec![(long_str(n), bs(""))];
        f(c::Encoded::Publish(p, Some(by(b""))), Some(by(b"")));
        // CONNECT has two property sections, its own and the Last Will's, each with its own length prefix: one of
        // them near the boundary while the other stays small, and both near it (seeded change C09_r10 sized the
        // will's prefix from the CONNECT section's length)
        if full || n < 1000 {
            let mut w = will_with(0);
            w.content_type = Some(long_str(n));
            f(c::Encoded::Packet(c::Packet::Connect(Box::new(connect_with(0, Some(w.clone()))))), None);
            let mut cn = connect_with(0, Some(will_with(0)));
            cn.auth_method = Some(long_str(n));
            f(c::Encoded::Packet(c::Packet::Connect(Box::new(cn.clone()))), None);
            cn.last_will = Some(w);
            f(c::Encoded::Packet(c::Packet::Connect(Box::new(cn))), None);
        }
    }
    // SUBSCRIBE
    for id in [0u32, 1, 127, 128, 16383, 16384, 2_097_151, 2_097_152, 268_435_455] {
        for nup in 0..2 {
            for o in 0..48u8 {
                let rh = o >> 4;
                for q in 0..3u8 {
                    if !full && o % 5 != 0 && q != 1 {
                        continue;
                    }
                    let opts = c::SubscriptionOptions {
                        qos: QOS[q as usize],
                        no_local: o & 4 != 0,
                        retain_as_published: o & 8 != 0,
                        retain_handling: c::RetainHandling::try_from(rh).unwrap(),
                    };
                    if o & 3 != 0 {
                        continue;
                    }
                    let mut filters = vec![(bs("a/+"), opts)];
                    if o & 8 != 0 {
                        filters.push((bs("#"), c::SubscriptionOptions::default()));
                    }
                    f(c::Encoded::Packet(c::Packet::Subscribe(c::Subscribe {
                        packet_id: nz16(2),
                        id: NonZeroU32::new(id),
                        user_properties: ups(nup),
                        topic_filters: filters,
                    })), None);
                }
            }
        }
    }
    for rs in 0..3u8 {
        for nup in 0..3 {
            for code in SUBACK_CODES {
                f(c::Encoded::Packet(c::Packet::SubscribeAck(c::SubscribeAck {
                    packet_id: nz16(3),
                    properties: ups(nup),
                    reason_string: rs_opt(rs),
                    status: vec![c::SubscribeAckReason::try_from(code).unwrap()],
                })), None);
            }
            f(c::Encoded::Packet(c::Packet::SubscribeAck(c::SubscribeAck {
                packet_id: nz16(3),
                properties: ups(nup),
                reason_string: rs_opt(rs),
                status: SUBACK_CODES.iter().map(|c2| c::SubscribeAckReason::try_from(*c2).unwrap()).collect(),
            })), None);
            for code in UNSUBACK_CODES {
                f(c::Encoded::Packet(c::Packet::UnsubscribeAck(c::UnsubscribeAck {
                    packet_id: nz16(4),
                    properties: ups(nup),
                    reason_string: rs_opt(rs),
                    status: vec![c::UnsubscribeAckReason::try_from(code).unwrap()],
                })), None);
            }
            f(c::Encoded::Packet(c::Packet::UnsubscribeAck(c::UnsubscribeAck {
                packet_id: nz16(4),
                properties: ups(nup),
                reason_string: rs_opt(rs),
                status: UNSUBACK_CODES.iter().map(|c2| c::UnsubscribeAckReason::try_from(*c2).unwrap()).collect(),
            })), None);
        }
    }
    for nup in 0..3 {
        for nf in 1..3 {
            f(c::Encoded::Packet(c::Packet::Unsubscribe(c::Unsubscribe {
                packet_id: nz16(5),
                user_properties: ups(nup),
                topic_filters: (0..nf).map(|i| bs(&format!("f/{i}"))).collect(),
            })), None);
        }
    }
    for n in LENS {
        f(c::Encoded::Packet(c::Packet::Unsubscribe(c::Unsubscribe { packet_id: nz16(5), user_properties: vec![], topic_filters: vec![long_str(n)] })), None);
        f(c::Encoded::Packet(c::Packet::Subscribe(c::Subscribe {
            packet_id: nz16(5),
            id: None,
            user_properties: vec![],
            topic_filters: vec![(long_str(n), c::SubscriptionOptions::default())],
        })), None);
    }
    // DISCONNECT / AUTH
    for code in DISCONNECT_CODES {
        for m in 0..24u32 {
            f(c::Encoded::Packet(c::Packet::Disconnect(c::Disconnect {
                reason_code: c::DisconnectReasonCode::try_from(code).unwrap(),
                session_expiry_interval_secs: match m % 3 {
                    0 => None,
                    1 => Some(0),
                    _ => Some(5),
                },
                server_reference: if (m / 3) % 2 == 1 { Some(bs("srv")) } else { None },
                reason_string: if (m / 6) % 2 == 1 { Some(bs("rs")) } else { None },
                user_properties: ups((m / 12) as usize),
            })), None);
        }
    }
    for code in AUTH_CODES {
        for m in 0..24u32 {
            f(c::Encoded::Packet(c::Packet::Auth(c::Auth {
                reason_code: c::AuthReasonCode::try_from(code).unwrap(),
                auth_method: if m % 2 == 1 { Some(bs("m")) } else { None },
                auth_data: if (m / 2) % 2 == 1 { Some(by(b"d")) } else { None },
                reason_string: if (m / 4) % 2 == 1 { Some(bs("rs")) } else { None },
                user_properties: ups((m / 8) as usize),
            })), None);
        }
    }
    for n in LENS {
        f(c::Encoded::Packet(c::Packet::Disconnect(c::Disconnect { reason_string: Some(long_str(n)), ..Default::default() })), None);
        f(c::Encoded::Packet(c::Packet::Auth(c::Auth { auth_data: Some(long_bytes(n)), ..Default::default() })), None);
        let mut ca = connack_with(0, 0, 0);
        ca.response_info = Some(long_str(n));
        f(c::Encoded::Packet(c::Packet::ConnectAck(Box::new(ca))), None);
        let mut co = connect_with(0, None);
        co.client_id = long_str(n);
        co.password = Some(long_bytes(n));
        f(c::Encoded::Packet(c::Packet::Connect(Box::new(co))), None);
    }
}

pub fn gen_v3(f: &mut dyn FnMut(v3::codec::Encoded, Option<Bytes>)) {
    use v3::codec as c;
    f(c::Encoded::Packet(c::Packet::PingRequest), None);
    f(c::Encoded::Packet(c::Packet::PingResponse), None);
    f(c::Encoded::Packet(c::Packet::Disconnect), None);
    for mask in 0..(1u32 << 8) {
        let will = if bit(mask, 0) {
            Some(c::LastWill { qos: QOS[((mask >> 6) % 3) as usize], retain: bit(mask, 1), topic: bs("w"), message: by(b"m") })
        } else {
            None
        };
        let clean = bit(mask, 2);
        f(c::Encoded::Packet(c::Packet::Connect(Box::new(c::Connect {
            clean_session: clean,
            keep_alive: if bit(mask, 3) { 0xffff } else { 0 },
            last_will: will,
            client_id: if clean && bit(mask, 6) { bs("") } else { bs("id") },
            username: if bit(mask, 4) { Some(bs("u")) } else { None },
            password: if bit(mask, 5) { Some(by(b"pw")) } else { None },
        }))), None);
    }
    for code in 0..6u8 {
        for sp in [false, true] {
            f(c::Encoded::Packet(c::Packet::ConnectAck(c::ConnectAck {
                return_code: c::ConnectAckReason::try_from(code).unwrap(),
                session_present: sp,
            })), None);
        }
    }
    for id in [1u16, 2, 255, 256, 65535] {
        let packet_id = nz16(id);
        f(c::Encoded::Packet(c::Packet::PublishAck { packet_id }), None);
        f(c::Encoded::Packet(c::Packet::PublishReceived { packet_id }), None);
        f(c::Encoded::Packet(c::Packet::PublishRelease { packet_id }), None);
        f(c::Encoded::Packet(c::Packet::PublishComplete { packet_id }), None);
        f(c::Encoded::Packet(c::Packet::UnsubscribeAck { packet_id }), None);
        for n in 1..4usize {
            f(c::Encoded::Packet(c::Packet::Subscribe {
                packet_id,
                topic_filters: (0..n).map(|i| (bs(&format!("f{i}/#")), QOS[i % 3])).collect(),
            }), None);
            f(c::Encoded::Packet(c::Packet::Unsubscribe { packet_id, topic_filters: (0..n).map(|i| bs(&format!("f{i}"))).collect() }), None);
            f(c::Encoded::Packet(c::Packet::SubscribeAck {
                packet_id,
                status: (0..n + 1)
                    .map(|i| if i == n { c::SubscribeReturnCode::Failure } else { c::SubscribeReturnCode::Success(QOS[i % 3]) })
                    .collect(),
            }), None);
        }
    }
    for n in LENS {
        f(c::Encoded::Packet(c::Packet::Subscribe { packet_id: nz16(9), topic_filters: vec![(long_str(n), QoS::AtMostOnce)] }), None);
        f(c::Encoded::Packet(c::Packet::Unsubscribe { packet_id: nz16(9), topic_filters: vec![long_str(n)] }), None);
        f(c::Encoded::Packet(c::Packet::Connect(Box::new(c::Connect {
            clean_session: true,
            keep_alive: 1,
            last_will: Some(c::LastWill { qos: QoS::AtLeastOnce, retain: true, topic: long_str(n), message: long_bytes(n) }),
            client_id: long_str(n),
            username: Some(long_str(n)),
            password: Some(long_bytes(n)),
        }))), None);
    }
    for qos in QOS {
        for fl in 0..4u8 {
            for ps in [0u32, 1, 5] {
                let p = c::Publish {
                    dup: fl & 1 != 0,
                    retain: fl & 2 != 0,
                    qos,
                    topic: bs("a/b"),
                    packet_id: if qos == QoS::AtMostOnce { None } else { Some(nz16(77)) },
                    payload_size: ps,
                };
                f(c::Encoded::Publish(p, Some(long_bytes(ps as usize))), Some(long_bytes(ps as usize)));
            }
        }
    }
    for rl in [127u32, 128, 16383, 16384, 2_097_151, 2_097_152] {
        for d in [-1i64, 0, 1] {
            for qos in [QoS::AtMostOnce, QoS::ExactlyOnce] {
                let hdr = 2 + 1 + if qos == QoS::AtMostOnce { 0 } else { 2 };
                let ps = (rl as i64 + d - hdr) as u32;
                let p = c::Publish {
                    dup: false,
                    retain: false,
                    qos,
                    topic: bs("t"),
                    packet_id: if qos == QoS::AtMostOnce { None } else { Some(nz16(1)) },
                    payload_size: ps,
                };
                let pl = long_bytes(ps as usize);
                f(c::Encoded::Publish(p, Some(pl.clone())), Some(pl));
            }
        }
    }
    for n in LENS {
        let p = c::Publish { dup: false, retain: false, qos: QoS::AtLeastOnce, topic: long_str(n), packet_id: Some(nz16(3)), payload_size: 1 };
        f(c::Encoded::Publish(p, Some(by(b"z"))), Some(by(b"z")));
    }
}
