//! C05 (window) and C13 (liveness) checks over the shared outbound scenario.
use std::time::Duration;

use crate::check::{Check, Tier};
use crate::outbound::*;
use crate::refmqtt::Ver;
use crate::simnet::ExploreCfg;
use crate::world::{EpCfg, Role};

pub fn roles() -> Vec<(Ver, Role)> {
    vec![(Ver::V5, Role::Server), (Ver::V3, Role::Server), (Ver::V5, Role::Client), (Ver::V3, Role::Client)]
}

fn multisets(kinds: &[SK], size: usize) -> Vec<Vec<SK>> {
    fn rec(kinds: &[SK], size: usize, start: usize, cur: &mut Vec<SK>, out: &mut Vec<Vec<SK>>) {
        if cur.len() == size {
            out.push(cur.clone());
            return;
        }
        for i in start..kinds.len() {
            cur.push(kinds[i]);
            rec(kinds, size, i, cur, out);
            cur.pop();
        }
    }
    let mut out = Vec::new();
    rec(kinds, size, 0, &mut Vec::new(), &mut out);
    out
}

pub fn configs(tier: Tier, judge: u32, liveness: bool) -> Vec<OutCfg> {
    let mut v = Vec::new();
    let caps: &[u16] = if tier == Tier::Quick { &[1, 2] } else { &[1, 2, 3] };
    for (ver, role) in roles() {
        for &cap in caps {
            let mut kinds = vec![SK::Q1, SK::Q1Loop(2), SK::Q2Rel];
            if role == Role::Client {
                kinds.push(SK::Sub);
                if cap == 1 {
                    kinds.push(SK::Unsub);
                }
            }
            if liveness {
                kinds.push(SK::Ready);
            }
            let sizes: Vec<usize> = if tier == Tier::Quick && cap > 1 { vec![cap as usize + 1] } else { vec![cap as usize + 1, cap as usize + 2] };
            for size in sizes {
                for senders in multisets(&kinds, size) {
                    if tier == Tier::Quick && senders.iter().filter(|k| **k != SK::Q1).count() > 2 {
                        continue;
                    }
                    // variants: plain, with one cancellation, with batching, with a back-pressure episode
                    let variants: Vec<(u8, bool, u8)> = if tier == Tier::Quick {
                        vec![(0, true, 0), (1, false, 0)]
                    } else {
                        vec![(0, true, 0), (1, false, 0), (2, false, 0), (0, false, 1), (1, false, 1)]
                    };
                    let mut variants: Vec<(u8, bool, u8, bool)> = variants.into_iter().map(|(c, b, p)| (c, b, p, false)).collect();
                    if liveness && cap == 1 && size == 2 && (tier == Tier::Thorough || senders.iter().all(|k| matches!(k, SK::Q1 | SK::Ready | SK::Q2Rel))) {
                        // write back-pressure that really engages: a QoS 0 publish larger than the 16-byte write
                        // buffer goes first while the peer does not read; the other senders then park on back-pressure
                        variants.push((1, false, 1, true));
                        if tier == Tier::Thorough {
                            variants.push((2, false, 1, true));
                        }
                    }
                    // "streamed sends paused by back-pressure resume when it lifts" - and so do the others
                    if liveness && cap == 1 && size == 2 && senders.iter().all(|k| matches!(k, SK::Q1 | SK::Ready)) {
                        variants.push((0, false, 1, true));
                    }
                    for (cancels, batch, bp, fill) in variants {
                        if !liveness && cancels > 1 {
                            continue;
                        }
                        let mut senders = senders.clone();
                        if fill && cancels == 0 {
                            // Q0Fill, then a streamed QoS 0 publish of two chunks, then the ordinary senders
                            senders.insert(0, SK::Stream { qos: 0, size: 6, plan: 1 });
                            senders.insert(0, SK::Q0Fill);
                        } else if fill {
                            senders.insert(0, SK::Q0Fill);
                            if !senders.contains(&SK::Q1) || senders.len() < 4 {
                                senders.push(SK::Q1);
                            }
                        }
                        v.push(OutCfg {
                            ep: ep_for(EpCfg::new(ver, role), cap, bp > 0),
                            cap,
                            senders: senders.clone(),
                            cancels,
                            batch,
                            bp,
                            peer: PeerMode::Correct,
                            judge,
                            prologue: 0,
                            peer_max_packet: 0,
                            inbound: 0,
                            may_close: false,
                            inbound_faults: false,
                            cancel_inflight: false,
                        });
                    }
                }
            }
        }
        // send limit 4 (thorough): one more sender than the window
        if tier == Tier::Thorough {
            for senders in [vec![SK::Q1; 5], vec![SK::Q1, SK::Q1, SK::Q1Loop(2), SK::Q2Rel, SK::Q1], vec![SK::Q2Rel, SK::Q2Rel, SK::Q1, SK::Q1, SK::Q1Loop(2)]] {
                v.push(OutCfg {
                    ep: ep_for(EpCfg::new(ver, role), 4, false),
                    cap: 4,
                    senders,
                    cancels: if liveness { 1 } else { 0 },
                    batch: true,
                    bp: 0,
                    peer: PeerMode::Correct,
                    judge,
                    prologue: 0,
                    peer_max_packet: 0,
                    inbound: 0,
                    may_close: false,
                    inbound_faults: false,
                    cancel_inflight: false,
                });
            }
        }
        // acknowledgements batched in one read while two senders are parked behind a window of two
        for senders in [vec![SK::Q1; 4], vec![SK::Q1, SK::Q2Rel, SK::Q1, SK::Ready]] {
            v.push(OutCfg {
                ep: ep_for(EpCfg::new(ver, role), 2, false),
                cap: 2,
                senders,
                cancels: 0,
                batch: true,
                bp: 0,
                peer: PeerMode::Correct,
                judge,
                prologue: 0,
                peer_max_packet: 0,
                inbound: 0,
                may_close: false,
                inbound_faults: false,
                cancel_inflight: false,
            });
        }
        // streamed QoS 1 publishes occupy a window slot like any other publish
        for (cap, senders) in [(1u16, vec![SK::Stream { qos: 1, size: 6, plan: 1 }, SK::Q1]), (1, vec![SK::Q1, SK::Stream { qos: 1, size: 6, plan: 1 }, SK::Q1]), (2, vec![SK::Stream { qos: 1, size: 6, plan: 1 }, SK::Q1, SK::Q1Loop(2)])] {
            v.push(OutCfg {
                ep: ep_for(EpCfg::new(ver, role), cap, false),
                cap,
                senders,
                cancels: 0,
                batch: false,
                bp: 0,
                peer: PeerMode::Correct,
                judge,
                prologue: 0,
                peer_max_packet: 0,
                inbound: 0,
                may_close: false,
                inbound_faults: false,
                cancel_inflight: false,
            });
        }
        // limit + 3 senders at limit 1, one of them cancelled: a wake-up that a finished ready() future or a
        // failed sender passes on must skip waiters that are gone and reach one that is still there
        if liveness {
            let mut sets = vec![vec![SK::Q1, SK::Ready, SK::Q1, SK::Q1]];
            if tier == Tier::Thorough {
                sets.push(vec![SK::Q1, SK::Ready, SK::Q1Loop(2), SK::Q1]);
                sets.push(vec![SK::Q2Rel, SK::Ready, SK::Q1, SK::Ready]);
            }
            for senders in sets {
                v.push(OutCfg {
                    ep: ep_for(EpCfg::new(ver, role), 1, false),
                    cap: 1,
                    senders,
                    cancels: 1,
                    batch: false,
                    bp: 0,
                    peer: PeerMode::Correct,
                    judge,
                    prologue: 0,
                    peer_max_packet: 0,
                    inbound: 0,
                    may_close: false,
                    inbound_faults: false,
                    cancel_inflight: false,
                });
            }
        }
        // send futures dropped after their packet was written (statement: "dropped send futures"): the slot stays
        // taken until the peer's final acknowledgement - for an abandoned QoS 2 send for ever, since nobody sends
        // PUBREL (seeded change C05_r4 freed it on PUBREC). Safety only, hence not part of the liveness configs.
        if !liveness {
            let mut sets = vec![(1u16, vec![SK::Q2Rel, SK::Q1]), (1, vec![SK::Q1, SK::Q1Loop(2)]), (2, vec![SK::Q2Rel, SK::Q1, SK::Q1])];
            if tier == Tier::Thorough {
                sets.push((1, vec![SK::Q2Rel, SK::Q2Rel, SK::Q1]));
                sets.push((2, vec![SK::Q2Rel, SK::Q2Rel, SK::Q1, SK::Q1Loop(2)]));
            }
            for (cap, senders) in sets {
                v.push(OutCfg {
                    ep: ep_for(EpCfg::new(ver, role), cap, false),
                    cap,
                    senders,
                    cancels: if tier == Tier::Quick { 1 } else { 2 },
                    batch: false,
                    bp: 0,
                    peer: PeerMode::Correct,
                    judge,
                    prologue: 0,
                    peer_max_packet: 0,
                    inbound: 0,
                    may_close: false,
                    inbound_faults: false,
                    cancel_inflight: true,
                });
            }
        }
        // a send refused locally because its caller-chosen id is in use must leave the exchange that owns the id -
        // and its window slot - alone (seeded change C05_r6 'cleaned up' the newest entry with that id)
        if !liveness {
            let mut id_sets = vec![vec![SK::Q1Id(5), SK::Q1Id(5), SK::Q1, SK::Q1], vec![SK::Q1, SK::Q1Id(5), SK::Q1Id(5), SK::Q1Loop(2)]];
            if role == Role::Client {
                // the refused request may be a SUBSCRIBE / UNSUBSCRIBE as well (seeded change C05_r7)
                id_sets.push(vec![SK::Q1Id(5), SK::SubId(5), SK::Q1, SK::Q1]);
                id_sets.push(vec![SK::Q1Id(5), SK::UnsubId(5), SK::Q1, SK::Q1]);
            }
            for senders in id_sets {
                v.push(OutCfg {
                    ep: ep_for(EpCfg::new(ver, role), 2, false),
                    cap: 2,
                    senders,
                    cancels: 0,
                    batch: false,
                    bp: 0,
                    peer: PeerMode::Correct,
                    judge,
                    prologue: 0,
                    peer_max_packet: 0,
                    inbound: 0,
                    may_close: false,
                    inbound_faults: false,
                    cancel_inflight: false,
                });
            }
        }
        // two send futures of one task created before either is polled (join): the window must hold for them too
        if !liveness {
            for (cap, senders) in [(1u16, vec![SK::Q1Join]), (1, vec![SK::Q1Join, SK::Q1]), (2, vec![SK::Q1Join, SK::Q1Join]), (1, vec![SK::StreamJoin]), (1, vec![SK::StreamJoin, SK::Q1])] {
                v.push(OutCfg {
                    ep: ep_for(EpCfg::new(ver, role), cap, false),
                    cap,
                    senders,
                    cancels: 0,
                    batch: false,
                    bp: 0,
                    peer: PeerMode::Correct,
                    judge,
                    prologue: 0,
                    peer_max_packet: 0,
                    inbound: 0,
                    may_close: false,
                    inbound_faults: false,
                    cancel_inflight: false,
                });
            }
        }
        // a streamed publish abandoned by the application (payload handle dropped) while its send future is parked on
        // the window: when its turn comes it fails locally, and the wake-up it consumed belongs to the next waiter
        // (side remark of the sub-agent of seeded change C13_r11)
        for (cap, senders) in [(1u16, vec![SK::Q1, SK::StreamAbandon, SK::Q1]), (1, vec![SK::StreamAbandon, SK::Q1]), (2, vec![SK::Q1, SK::Q1, SK::StreamAbandon, SK::Q1])] {
            v.push(OutCfg {
                ep: ep_for(EpCfg::new(ver, role), cap, false),
                cap,
                senders,
                cancels: 0,
                batch: false,
                bp: 0,
                peer: PeerMode::Correct,
                judge,
                prologue: 0,
                peer_max_packet: 0,
                inbound: 0,
                may_close: false,
                inbound_faults: false,
                cancel_inflight: false,
            });
        }
        // QoS 2 sends whose receipt is dropped instead of released: PUBREL is written by the drop, nobody awaits
        // PUBCOMP, and the slot it frees must still wake the next parked sender (seeded change C13_r5)
        for (cap, senders) in [(1u16, vec![SK::Q2Drop, SK::Q1]), (1, vec![SK::Q2Drop, SK::Ready, SK::Q1]), (2, vec![SK::Q2Drop, SK::Q1, SK::Q1])] {
            v.push(OutCfg {
                ep: ep_for(EpCfg::new(ver, role), cap, false),
                cap,
                senders,
                cancels: 0,
                batch: cap > 1,
                bp: 0,
                peer: PeerMode::Correct,
                judge,
                prologue: 0,
                peer_max_packet: 0,
                inbound: 0,
                may_close: false,
                inbound_faults: false,
                cancel_inflight: false,
            });
        }
        // a sender that is woken but then fails locally (over-size packet) does not occupy the slot it was
        // woken for: the next parked sender must get the wake-up
        if liveness {
            let mut fail_sets = vec![vec![SK::Q1, SK::Q1Big, SK::Q1], vec![SK::Q1, SK::Q1Big, SK::Ready], vec![SK::Q2Rel, SK::Q1Big, SK::Q1Big, SK::Q1]];
            if role == Role::Client {
                // a SUBSCRIBE the encoder refuses (over-long filter) after it was woken: its registration is undone
                // and the wake-up it consumed must still reach the next waiter (seeded change C13_r6)
                fail_sets.push(vec![SK::Q1, SK::SubBig, SK::Q1]);
                fail_sets.push(vec![SK::Q1, SK::SubBig, SK::Ready]);
            }
            for senders in fail_sets {
                let mut ep = ep_for(EpCfg::new(ver, role), 1, false);
                match (ver, role) {
                    (Ver::V5, Role::Client) => ep.client_connack_props.push((0x27, crate::refmqtt::PVal::U32(100))),
                    (Ver::V3, Role::Server) => ep.hs_max_packet_size = Some(100),
                    (Ver::V3, Role::Client) => ep.max_size = 100,
                    _ => {}
                }
                v.push(OutCfg {
                    ep,
                    cap: 1,
                    senders,
                    cancels: 0,
                    batch: false,
                    bp: 0,
                    peer: PeerMode::Correct,
                    judge,
                    prologue: 0,
                    peer_max_packet: 100,
                    inbound: 0,
                    may_close: false,
                    inbound_faults: false,
                    cancel_inflight: false,
                });
            }
        }
    }
    v
}

pub fn run(tier: Tier) -> i32 {
    let mut ck = Check::new("C05", tier, Duration::from_secs(if tier == Tier::Quick { 50 } else { 1500 }));
    let cfgs = configs(tier, J_WINDOW, false);
    let ecfg = ExploreCfg { max_dev: if tier == Tier::Quick { 1 } else { 2 }, max_execs: if tier == Tier::Quick { 20_000 } else { 400_000 }, ..Default::default() };
    for (i, c) in cfgs.iter().enumerate() {
        ck.explore::<Out>("outbound", i, c, &ecfg);
    }
    ck.rule = format!(
        "real sink + peer; per role (v3/v5 x server/client) and send limit 1..2 (quick) / 1..4 (thorough; limit 4 with three fixed sender sets), every multiset of cap+1 (quick) / cap+1..cap+2 (thorough) application tasks over {{send_at_least_once, two back-to-back send_at_least_once, send_exactly_once+release, (client) subscribe}}; events Start(j), PeerAck (oldest, correct type), PeerAckBatch, Cancel(j) (parked senders; in dedicated configurations also senders whose packet is already written and that await the acknowledgement - an abandoned QoS 2 send keeps its slot), window close/open; all orders at quiescence + up to {} injections while tasks are runnable; invariant after every poll and event: (QoS>0 PUBLISH received by peer) - (PUBACK/PUBCOMP sent by peer) <= limit. distinct_nontrivial = distinct final observations of executions in which a sender was parked on the window",
        ecfg.max_dev
    );
    ck.assumptions = vec![
        "FIFO task order of ntex-rt; nondeterminism = timing of environment events (DESIGN 2.4)".into(),
        "peer acks sent >= acks processed, so the invariant's left side is a lower bound of the true outstanding count".into(),
    ];
    ck.finish()
}

pub fn run_c13(tier: Tier) -> i32 {
    let mut ck = Check::new("C13", tier, Duration::from_secs(if tier == Tier::Quick { 50 } else { 1500 }));
    let cfgs = configs(tier, J_LIVENESS, true);
    let ecfg = ExploreCfg { max_dev: if tier == Tier::Quick { 1 } else { 2 }, max_execs: if tier == Tier::Quick { 60_000 } else { 1_000_000 }, ..Default::default() };
    for (i, c) in cfgs.iter().enumerate() {
        ck.explore::<Out>("outbound", i, c, &ecfg);
    }
    ck.rule = format!(
        "same world as C05 plus readiness futures and up to 2 cancellations of parked/awaiting tasks and a write back-pressure episode (peer window closed; with a 24-byte QoS 0 publish first so that the 16-byte write buffer overflows and the library's back-pressure state really engages); liveness oracle at the end of every execution: after the window is reopened and the correct peer has acknowledged every packet it received (repeated until nothing changes) every started, non-cancelled send / ready() future has completed successfully and the connection is still up; up to {} injections while tasks are runnable",
        ecfg.max_dev
    );
    ck.assumptions = vec!["FIFO task order of ntex-rt; nondeterminism = timing of environment events (DESIGN 2.4)".into()];
    ck.finish()
}

/// Re-execute one schedule of one configuration and print the annotated trace.
pub fn trace(prop: &str, tier: Tier, idx: usize, choices: &[u16], script: Option<Vec<String>>, max_polls: u64) -> crate::simnet::ExecRecord {
    let cfgs = match prop {
        "C13" => configs(tier, J_LIVENESS, true),
        "C06" | "C14" => crate::c06::trace_cfgs(prop, tier),
        "C08" => crate::c08::configs(tier),
        _ => configs(tier, J_WINDOW, false),
    };
    let c = &cfgs[idx];
    println!("config #{idx}: {} cap={} senders={:?} cancels={} batch={} bp={}", c.ep.label(), c.cap, c.senders, c.cancels, c.batch, c.bp);
    match script {
        Some(sc) => crate::simnet::run_script::<Out>(c, &sc, max_polls),
        None => crate::simnet::run_one::<Out>(c, choices, max_polls),
    }
}

pub fn bench() {
    let cfgs = configs(Tier::Quick, J_WINDOW, false);
    let c = &cfgs[2];
    let t = std::time::Instant::now();
    let mut polls = 0;
    for _ in 0..2000 {
        let r = crate::simnet::run_one::<Out>(c, &[], 20_000);
        polls += r.polls;
    }
    println!("2000 execs in {:?}, polls {}", t.elapsed(), polls);
}
